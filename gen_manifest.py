#!/usr/bin/env python3
"""Generates MANIFEST.json from the table below (kept in one place so it stays valid)."""
import json, sys

CHECKS = {}
def chk(pid, cat, technique, text, note, design_ref):
    CHECKS[pid] = dict(cat=cat, technique=technique, text=text, note=note, design_ref=design_ref)

chk("C16", "exploration", "exhaustive input-space enumeration against exact-arithmetic reference",
    "Every (SF, BW, CR, header mode, preamble, length) tuple is evaluated on the real time_on_air_us and compared with an i128/u128 evaluation of the Semtech formula; monotonicity is checked along every len -> len+1 edge; overflow-checks turn intermediate overflow into a panic. Thorough = the full 4.2e7 (x3 LDRO modes) space, so the universally quantified statement is decided outright.",
    "Trusted: the formula transcription in c16.rs (AN1200.13 / SX127x datasheet, CRC on) and rustc integer semantics.",
    "DESIGN.md §3 C16")

chk("C01", "exploration", "exhaustive enumeration of frame descriptions vs independent reference encoder",
    "Four full cartesian sub-products of frame descriptions (header flags x FOpts length x payload kind; every payload length 0..242 x counters x keys x contents; all 65536 DevNonce; all 256 DLSettings x RxDelay x CFList) are built with the real builders under both software crypto variants and compared byte for byte with an independent LoRaWAN 1.0.x encoder on an independent AES/CMAC; forbidden descriptions (FOpts of 16, 17 and further lengths up to 527 bytes, FOpts with port 0, missing key, short buffer) must be refused. The space is finite once the alphabets are fixed and is enumerated completely.",
    "Trusted: refcodec.rs/refcrypto.rs (self-tested against FIPS-197, SP 800-38A, RFC 4493 at start-up). Keys/addresses/contents outside the alphabets are argued by absence of value-dependent branches.",
    "DESIGN.md §3 C01")
chk("C02", "model_checking", "explicit-state search over frame mutations executed on the real parser, reference codec as oracle",
    "States are byte strings; from every built root frame every single mutation (depth 2 in thorough: every pair) of an alphabet of bit flips, FOptsLen rewrites, truncations and appends is applied, and each state is presented to parse / validate_mic / check_mic_and_decrypt_in_place / decrypt_in_place under right, swapped and wrong keys and five counter hints. The reference decides authenticity and the decode; failure must leave the buffer byte-identical; roots must round-trip; every root is also presented with its MIC recomputed for counters that disagree with the wire counter, and after every successful checked decode the one-call and two-call paths must leave the same bytes and a further decrypt must restore what was received. Plus every byte string of length 0..3 through the classifier.",
    "Trusted: refcodec.rs/refcrypto.rs. Plaintext compared only when the caller's counter hint agrees with the wire half. Strings that are neither short nor within 2 mutations of a built frame are not covered.",
    "DESIGN.md §3 C02")
chk("C03", "model_checking", "exhaustive append-a-byte tree and truncation grids on the real parsers and MAC-command iterators",
    "The complete tree of byte strings up to depth 3 is fed to every frame parser and to each of the six MAC-command iterators; on top, MHDR x FCtrl x length 0..40 layout grid, data MHDRs x FCtrl x every length 6..300 (and around 512 / 1024) as is and with a MIC that verifies, and every CID x every truncation point x embedding before/after every defined command, and every status/length of variable-length commands. Oracle: no unwind, iterator yields whole commands that are consecutive prefixes, one error at most then fused, bounded number of next() calls, every accessor callable.",
    "Trusted: the framing table in c03.rs (spec lengths per CID). Longer strings off the grids are not covered; coverage-guided mutation (sampling) is deliberately not used.",
    "DESIGN.md §3 C03")

chk("C05", "model_checking", "exhaustive enumeration of the counter arithmetic + explicit-state BFS of the real device against a reference acceptor",
    "(a) the real next_fcnt_down (hook wrapper) is evaluated for all 65536 wire values x every last value in windows around every class of boundary and a stride over the 32-bit range, against the u64 specification rule. (b) BFS over histories of whole uplink transactions on the real nb device; each delivers one frame of an alphabet of fresh / replayed / reordered / far-future / forged / wrong-epoch / oversized frames in RX1 or RX2, from sessions starting at epoch boundaries (uplink counter far from, next to and at exhaustion); a reference acceptor (independent codec + spec rule) decides, and response, remembered counter, delivered plaintext, no-double-accept and monotonicity are checked at every transition.",
    "Trusted: refcodec/refcrypto, spec_next_fcnt in dev.rs. Window size limit taken from the RfConfig the device bound to the window (C10 checks that). (d) per region and uplink rate, frames at and one byte above every size limit under every RX1 data-rate offset the region admits, the limit taken independently from the window's spreading factor and bandwidth. (c) the same alphabet on the async device in Class C (idle rxc_listen, receptions while waiting for RX1/RX2, per-window size limits with a fast uplink rate). (e) Class C size limits after an RXParamSetupReq of the same or an earlier uplink renegotiated the RX2 data rate. Depth-bounded (4 transactions; 6 in the thorough tier).",
    "DESIGN.md §3 C05")
chk("C06", "fault_enumeration", "explicit-state BFS with a radio fault at every radio call position (deviation-bounded), reference codec decodes every transmitted frame",
    "BFS over histories of uplink transactions and Class C listening on both real front-ends; every transaction is explored with every receive outcome and with a deviation at each radio call position - one failing call, or an outage spanning 2-3 consecutive calls / the rest of the public call - (bound 1 quick, 2 thorough), downlinks incl. accepted LinkADRReq with NbTrans 2 / 15, from sessions with counters at 0, 16-bit and 32-bit boundaries. A monitor decodes every frame handed to the radio, recovers its 32-bit counter by MIC verification, and requires strict growth (identical retransmission tolerated), payload encryption under the same counter, and expiry instead of wrap.",
    "Trusted: refcodec/refcrypto; the mocks' fault model (a failing call returns Err once). State key keeps the absolute counter only near boundaries (argument in c06.rs).",
    "DESIGN.md §3 C06")

chk("C07", "model_checking", "self-composition (twin devices) explored by explicit-state BFS; rejection decided by the reference acceptor",
    "Pair states of two real devices driven with identical events and RNG; twin B additionally receives one candidate frame (random bytes, bit flips of the authentic frame, other session, replays, stale / too-far counters, wrong-epoch MIC, oversized, JoinAccepts under wrong key / wrong length, JoinAccept in a data session, data frame in a join window) at every receive opportunity of every transaction, joins included and re-joins from the joined state included (RX1, RX2; Class C: before RX1, before RX2, idle). Only frames the reference rejects count. The twins are compared in lock-step (responses, radio and timer operations, delivered downlinks, snapshots) for the rest of the history; oversized frames may end the receive procedure.",
    "Trusted: refcodec/refcrypto and the freshness rule; one injection per history; depth 3 (quick) / 4 (thorough) transactions; nb and async (+Class C) front-ends, ABP and OTAA (also OTAA with Class C enabled); IN865 at its highest rate with the largest RX1 offset.",
    "DESIGN.md §3 C07")

chk("C04", "model_checking", "exhaustive one-command-deep value sweep from base states + explicit-state BFS over histories, hang detection via owned fair RNG with draw budget",
    "Layer A: in every region, ABP and OTAA, from five base states, one authentic downlink carrying one MAC command with its full field-value domain (or one JoinAccept with all 256 DLSettings x RxDelay x CFList variants) is delivered to the real device; every distinct resulting snapshot is followed by two uplinks with the first RNG draw enumerated 0..63. Layer B: BFS over histories with commands that shrink the mask, delete channels and change data rate, junk/oversized frames, set_datarate, joins with minimal CFLists and ADR back-off. Every call runs under catch_unwind; the scripted RNG is fair and panics after 4096 draws per call so that a selection loop that cannot exit is a detected hang; async calls must complete under a poll-driven executor.",
    "Trusted: the mocks and the fair-RNG argument (every low-bit pattern recurs). nb runs the full Layer A domain, the async front-ends a stride of it (shared MAC code). Layer C: runs of 150-400 unanswered join attempts per join-bias setting on the fixed plans; Class C idle listening hears junk and oversized frames. Layer B also sends uplinks with the largest payload the data rate in force carries (found the prepare_buffer panic with queued answers, fix 5b1bde2). Application arguments no data rate admits are outside the alphabet.",
    "DESIGN.md §3 C04")

chk("C10", "model_checking", "explicit-state BFS over command / data-rate / (re-)join / uplink histories with a reference model of the parameters in force, plus an exhaustive configuration sweep; independent regional tables as oracle",
    "(H) BFS on one real device per region x front-end (nb, async, async+Class C) x {ABP, OTAA}: uplinks (first RNG draw from a set), uplinks answered in RX1 or RX2 by RXParamSetupReq (valid and invalid-in-one-field variants), RXTimingSetupReq, DlChannelReq, NewChannelReq create / redefine / delete, LinkADRReq, set_datarate (also between TX and the windows), unanswered join attempts and (re-)joins with other DLSettings / RxDelay, (async) uplinks during which a radio call fails or a continuous reception reports an error; every transaction that transmits is judged against a reference model of the parameters in force (updated only by unambiguously valid requests) and the RP002 tables: RX1 frequency / data rate, RX2 frequency / data rate, Class C parameters between and after the windows, window size limits and window times. (P) Per region and front-end eight full sub-products of configurations installed on a fresh device through authentic downlinks: every uplink data rate x RX1DROffset 0..7 x first RNG draw (all 64 for 72-channel plans), RXTimingSetupReq 0..15 x board timing x TX end time (incl. the 2^31 / 2^32 ms clock boundaries), all 16 RX2 data-rate values x frequencies, DlChannelReq mappings, joins under join-bias settings, a data-rate change between TX and the windows.",
    "Trusted: refregion.rs (set-valued where RP002 revisions differ; FSK/LR-FHSS entries only require some region-defined LoRa rate). nb offset sign convention accepted either way. What a (re-)join does to remapped downlink frequencies of default channels and to extra channels is not stated: both are admitted. Join windows opened from a session with negotiated parameters are judged on RX1 frequency, timing and 'region-defined rate' only. History depth 3 (quick) / 4 (thorough) transactions.",
    "DESIGN.md §3 C10")

chk("C09", "model_checking", "explicit-state BFS over channel-plan histories with every RNG outcome of each transmission enumerated; TxConfig judged against snapshot and regional tables",
    "BFS on the real device per region x board (radio max power, antenna gain) x activation / join-bias / ADR-back-off configuration. In every reached state the next uplink or join attempt is expanded once per value of the first RNG draw (the harness owns the RNG, so every possible channel choice is checked, not sampled); other events reshape the plan (join attempts whose transmit call is refused, re-joins with and without CFLists, LinkADRReq masks/DR/TX power, NewChannelReq create/delete, DlChannelReq, CFLists incl. minimal and out-of-band, set_datarate). Each TxConfig must be in band, on a defined and enabled channel (join: a join channel at the mandated rate), at a region-defined rate whose bandwidth matches the channel, within the power bound; selection must terminate under the fair stream.",
    "Trusted: refregion.rs (most permissive EIRP of set-valued entries). Both front-ends are explored (nb; async in Class A for ABP and with Class C enabled for OTAA).",
    "DESIGN.md §3 C09")

chk("C11", "model_checking", "exhaustive JoinAccept value sweep from several pre-histories + explicit-state BFS over join histories, reference codec/region as oracle",
    "(A) every JoinAccept content (all 256 DLSettings x RxDelay x CFList variants incl. RFU types, zero / out-of-band frequencies, masks; boundary JoinNonce/NetID/DevAddr/DevNonce) is delivered in RX1 or RX2 to a fresh device, after a failed attempt and as a re-join from a joined state, followed by the first uplink. (B) BFS over histories of join attempts (none, valid RX1/RX2, bad MIC, wrong key, wrong length, replayed accept, data frame, bad-then-valid) interleaved with uplinks on nb, async and async+Class C. Pre-histories include a DlChannelReq on a CFList channel and a change of the AppKey for the same identifiers; with Class C the listening after JoinSuccess must use the new session's RX2 parameters. Oracle: JoinRequest bytes, joined iff the reference verifies the MIC, session keys = reference derivation with the DevNonce just sent, address, counters restarted, RxDelay/DLSettings/CFList applied iff valid per the regional tables, configuration untouched otherwise, first uplink verifies under the derived keys.",
    "Trusted: refcodec/refcrypto/refregion. RX2 rates the region defines but the stack lacks may be ignored; out-of-band CFList entries may be ignored or remove the channel.",
    "DESIGN.md §3 C11")
chk("C12", "model_checking", "complete reachable-state graph by BFS with O(1) state restoration through Session serde, executable reference model in lock-step",
    "The complete graph of (data rate, ADR flag, ADR counter, owed ACK, last-uplink-confirmed, downlink-seen) reachable from a fresh session is explored per region and front-end; each state is restored on a fresh real device via Session (de)serialisation and public setters and one event is applied (uplink with each receive outcome incl. Class C downlinks, set_adr, set_datarate). The counter dimension is followed past every back-off step (over 300 uplinks). Plus straight-line histories of 400 unanswered uplinks (plain, after a TX-power command, with only the 500 kHz channels enabled) and all three-downlink patterns on a device with a one-entry downlink queue. A reference model predicts DevAddr, MType, ACK, ADR and ADRACKReq bits and the data rate of every uplink; candidates are carried where the statement admits several behaviours.",
    "Trusted: refcodec for header decoding, refregion for the set of defined rates, the Session serde restore (C20 checks it). Frame counters are normalised in the state key (argued irrelevant to this property).",
    "DESIGN.md §3 C12")

chk("C08", "model_checking", "exhaustive command-value sweep over short histories on the real device, executable reference MAC model as oracle",
    "Each case is a history on a fresh real device: base state, 0-2 prior command downlinks, the judged downlink (FOpts or port 0), two uplinks, an acknowledging downlink, one more uplink. The judged streams cover the full value domain of every request the statement lists, LinkADRReq blocks, answer-budget overflows at every position and Class C deliveries (between TX and RX1, and while idle in rxc_listen with the answers of the preceding Class A downlink still unsent). The reference model (refmac over refregion) checks: one answer per handled request in order, whole commands, only trailing answers dropped; each fully acknowledged request changed exactly the commanded fields of the MAC snapshot and each refused one changed nothing (the model replays the device's own answers); unambiguously invalid requests carry a negative bit; sticky answers repeat until an accepted Class A downlink, others are sent once; Class C receptions neither execute nor clear.",
    "Trusted: refmac.rs / refregion.rs. Where RP002 leaves room either answer is accepted. nb runs the full domain, async a stride of it (shared MAC code). Commanded TX power is also judged on five boards (maximum power, antenna gain) in all nine regions: the next uplink asks the radio for min(board maximum, acknowledged EIRP - gain).",
    "DESIGN.md §3 C08")

chk("C20", "model_checking", "explicit-state BFS with a snapshot/restore at every state (crash point = every state), twin lock-step, exhaustive structural mutation of documents",
    "BFS over session histories on the real device from sessions whose counters start at 16/32-bit boundaries; at every reached state the session is serialised (serde_json), deserialised, re-serialised (identical document required), compared field by field through the snapshot hook, and a fresh device given the restored session runs in lock-step with a replay of the original for four probe transactions including replays of previously accepted downlinks (uplink bytes, responses, delivered downlinks, session snapshots must agree). Malformed input: every single structural mutation of representative documents, the positional (sequence) form of every struct with boundary numbers (pairs in thorough) must be refused or yield a session on which send / receive / snapshot stay panic-free.",
    "Trusted: serde_json, the snapshot hook. Data rate / ADR flag are carried through public setters (not part of Session); the channel plan is not persisted, so radio configurations are not compared.",
    "DESIGN.md §3 C20")

chk("C19", "model_checking", "explicit-state exploration of every command builder as a state machine (setter sequences, exhaustive field domains) against a field-value model; exhaustive text-form enumeration",
    "Every MAC / certification / multicast-setup command builder is explored as a small state machine: the empty builder, every setter with its full value domain (all 256 / 65536 values for fields up to 16 bits, including out-of-range ones; boundary and walking-bit sets for wider fields), every ordered pair of setters including the same one twice, boundary triples in thorough. After each sequence build -> parse -> read-every-field is compared with a plain model (accept / refuse / truncate to the field; neighbours untouched; no unwind). Streams of up to three commands through mac_commands_len/build_mac_commands are parsed back. Text forms: all DevNonce values, JoinNonce/NetId/DevAddr/McAddr ranges (complete in thorough), pattern sets for 64/128-bit values; Display must be MSB-first hex of the wire value and FromStr must invert it.",
    "Trusted: field widths/semantics transcribed from LoRaWAN 1.0.x, TS009, TS005 in c19.rs. One known finding (DeviceTimeAns byte order, pinned by existing tests) is listed in known_findings.json.",
    "DESIGN.md §3 C19")

chk("C15", "exploration", "exhaustive enumeration of SF x BW x chip variant against an exact rational rule, SPI writes decoded",
    "All 8 spreading factors x 10 bandwidths x {airtime calculator, SX1261, SX1262, STM32WL LP/HP, SX1272, SX1276, LR1110}: the LDRO decision in the parameter structs and the bit the real driver writes on SPI in set_modulation_params (with all 256 prior values of the read-modify-write register for the register-based chips) are compared with 2^SF/BW >= 16.38 ms evaluated in exact rational arithmetic; for the SX127x the bit left in the register file after set_packet_params with every header / CRC / IQ combination; every pair through the LoRa front-end on SX1262 / SX1276 / SX1272 chip models; sequences on one driver instance (prepare, {nothing, completed, listen, reception running, init() = chip reset, sleep cold / warm}, prepare) against a fresh driver. The space is finite and enumerated completely.",
    "Trusted: the decode positions of the LDRO bit (SX126x SetModulationParams byte 4, SX1276 RegModemConfig3 bit 3, SX1272 RegModemConfig1 bit 0, LR11xx SetModulationParam byte 4). Where nominal and true bandwidth disagree (SF8/15.6 kHz) only agreement with the airtime calculator is required.",
    "DESIGN.md §3 C15")

chk("C18", "exploration", "exhaustive enumeration of environment answers (chip-reported length x offset x status) against the real drivers over datasheet chip models",
    "Behavioural models of SX1262, SX1276 and SX1272 answer every reported length 0..255 x offset (all 256 in thorough) x status after a reception; the real driver fetches the packet through LoRa::rx (single / continuous), LoRa::get_rx_result and the LoRaWAN radio adapter into caller buffers of 0/1/12/64/255/256 bytes surrounded by canaries, in explicit- and implicit-header mode. A returned packet must have the chip-defined length, not exceed the buffer, equal the chip buffer bytes at the reported position (wrapping at 256) and leave the rest of the memory untouched; errors are acceptable; unwinding is not.",
    "Trusted: chips.rs (buffer/FIFO addressing per datasheet). One level up, an async LoRaWAN device with a 64-byte radio buffer receives downlinks of every PHY length 13..133 (everything that fits must be delivered byte for byte).",
    "DESIGN.md §3 C18")

chk("C13", "translation_validation", "exhaustive differential execution of the real driver and Semtech's C reference driver over full parameter products",
    "Crate mc13 links Semtech's SWL2001 C drivers (smtc-modem-cores, from the cargo cache) and the real lora-phy drivers against the same register-file SPI double. Per shared operation the full product of its parameter domain is run on both from the same register state: sleep warm/cold, standby, RF frequency (every 100 Hz LoRaWAN channel in thorough, stride over 137-1020 MHz), modulation parameters SF x BW x CR x all 256 prior register values, packet parameters preamble x header x length 0..255 x CRC x IQ x prior values, all 256 sync words, buffer bases, buffer/FIFO writes of every length, TX/RX/CAD start, IRQ masks per mode, every symbol timeout 0..65535, image calibration per band, PA configuration for every power -128..127 x ramp x prior values, status reads, depth-2 sequences of the read-modify-write operations. SX1261/SX1262/STM32WL: equality of the canonical wire form; SX1272/SX1276 (RFO and PA_BOOST): equality of the chip-visible outcome (register bits stated per operation, FIFO stream). An operation that is never compared (all cases rejected) is a machinery failure.",
    "Sequences of two operations, and of three (X ; sleep / standby / chip reset ; Y of the same kind), run on ONE driver instance (state cached inside the driver is visible; SX127x triples are compared with a fresh driver instance on the same registers). Trusted: the C reference as packaged; the datasheet PA/image-calibration tables fed to the reference (SWL2001 leaves them to the BSP); documented errata/policy mirrors listed in DESIGN.md §3 C13 (errata 2.3 with the modulation config, AgcAutoOn forced off, reserved/dead bits written with datasheet defaults).",
    "DESIGN.md §3 C13")

chk("C14", "exploration", "explicit-state BFS over API call sequences of the real driver against datasheet chip models, with deviation-bounded fault and drop injection",
    "The real LoRa<Sx126x>/LoRa<Sx127x> drivers (and the LoRaWAN radio adapter) run against behavioural chip models (command/register decode, operating mode, BUSY high while asleep, configuration lost on cold sleep and reset, latched interrupt flags, operations in flight until the interrupt wait). BFS over sequences of {init, sleep warm/cold, prepare_for_tx, tx, prepare_for_rx single/continuous/duty, start_rx, complete_rx, rx_switch_channel, listen, prepare_for_cad, cad, set_lora_sync_word, time passing} x chip outcome {done, timeout, CRC error, header error, nothing} x {0,1} spurious interrupt wake-ups; with deviations additionally a one-shot fault at every SPI/BUSY/IRQ/RF-switch/reset position the call consumes and a drop at every position the future can be parked on. After every call: no panic / endless wait, no command to a sleeping chip, nothing started unconfigured, a refusal consumed no environment call, no start without a matching preparation, driver belief (cfg-guarded accessors) compatible with the chip mode, after a failed or timed-out TX/RX/CAD the chip is inactive and the driver believes Standby.",
    "Trusted: the chip models in chips.rs (datasheet transcription; RX duty-cycle sleep phase not modelled). The former known finding (SX127x interrupted reset sequence) is repaired (fix d99d9dd, recorded as fixed in known_findings.json).",
    "DESIGN.md §3 C14")

chk("C17", "exploration", "exhaustive input sweeps through the real drivers, SPI writes decoded with datasheet formulas",
    "Through the real RadioKind implementations over a recording SPI: (a) set_channel for every 100 Hz LoRaWAN channel frequency plus a 1 kHz stride over 137-1020 MHz (thorough: every 1 Hz, 8.8e8 values per chip family), PLL word decoded and compared in exact integer arithmetic; (b) every power request -128..127 and i32 extremes x 8 chip/PA variants x 3 bands, PA registers decoded with the datasheet tables (clamped request, never above it, reserved bits intact), pairs of requests in a row on one driver instance and register-file chip model, and a request retried after a fault at each of its environment calls (the chip then holds what a fresh driver programs); every sequence of four front-end calls (prepare / rx_switch_channel / listen on two frequencies, start_rx, sleep, init, tx) leaves the chip tuned to the frequency named last; (c) every symbol timeout 0..65535; (d) every (SF,BW) x margin 0..1000 ms through the LoRaWAN adapter against 12.25 symbols + margin in exact rational arithmetic; (e) every raw packet-status value of both chip families against the datasheet conversions.",
    "Trusted: the datasheet decode formulas transcribed in c17.rs; ST's characterisation admitted for the STM32WL 14 dBm row; for SX127x negative-SNR RSSI both the datasheet and the reference-driver formula are admitted.",
    "DESIGN.md §3 C17")

ALL = ["C%02d" % i for i in range(1, 21)]
NA_REASON = "check not built yet in this round; see DESIGN.md for the planned bounded exploration"

def main():
    checks = []
    for pid in ALL:
        if pid not in CHECKS:
            continue
        c = CHECKS[pid]
        checks.append({
            "property_id": pid,
            "quick_cmd": f"./check {pid} --tier quick",
            "thorough_cmd": f"./check {pid} --tier thorough",
            "evidence_file": f"/verif/evidence/{pid}.json",
            "replay_cmd_template": f"./check {pid} --replay {{path}}",
            "engine": "mc-explorer",
            "level_claimed": {"category": c["cat"], "text": c["text"], "design_ref": c["design_ref"]},
            "level_note": c["note"],
            "technique": c["technique"],
        })
    m = {
        "version": 1,
        "setup_cmd": "cd /verif/harness && CARGO_NET_OFFLINE=true cargo build --release --offline -p mc -p mc13",
        "hooks": {
            "guard": "--cfg lora_rs_verif",
            "enable": "RUSTFLAGS=--cfg lora_rs_verif via /verif/harness/.cargo/config.toml (own target dir /verif/harness/target); path dependencies on /repo crates",
            "baseline_off_cmd": "cd /repo && cargo test --workspace --no-fail-fast --offline",
            "source_commits": HOOK_COMMITS,
            "add_only": True,
        },
        "engines": [{
            "name": "mc-explorer",
            "path": "/verif/harness/mc",
            "serves_properties": sorted(CHECKS.keys()),
            "kind_free_text": "hand-rolled explicit-state / bounded-exhaustive explorer in Rust linking the real lora-rs crates; independent reference crypto/codec/region oracles",
        }],
        "checks": checks,
        "not_applicable": [{"property_id": p, "reason": NA_REASON} for p in ALL if p not in CHECKS],
        "notes": "Exit codes: 0 held (known findings printed as KNOWN-FINDING lines), 1 unlisted violation (VIOLATION lines), 2 machinery failure. Known findings: /verif/known_findings.json.",
    }
    json.dump(m, open("/verif/MANIFEST.json", "w"), indent=1)
    print("checks:", len(checks), "not_applicable:", len(m["not_applicable"]))

HOOK_COMMITS = ["cc5ed0e", "bc6c625", "8054679"]
if __name__ == "__main__":
    main()
