#!/usr/bin/env python3
"""Generates MANIFEST.json from the table below (kept in one place so it stays valid)."""
import json, sys

CHECKS = {}
def chk(pid, cat, technique, text, note, design_ref):
    CHECKS[pid] = dict(cat=cat, technique=technique, text=text, note=note, design_ref=design_ref)

chk("C16", "exploration", "exhaustive input-space enumeration against exact-arithmetic reference",
    "Every (SF, BW, CR, header mode, preamble, length) tuple is evaluated on the real time_on_air_us and compared with an i128/u128 evaluation of the Semtech formula; monotonicity is checked along every len -> len+1 edge; overflow-checks turn intermediate overflow into a panic. Thorough = the full 4.2e7 (x3 LDRO modes) space, so the universally quantified statement is decided outright.",
    "Trusted: the formula transcription in c16.rs (AN1200.13 / SX127x datasheet, CRC on) and rustc integer semantics.",
    "DESIGN.md §3 C16")

ALL = ["C%02d" % i for i in range(1, 21)]
NA_REASON = "check not built yet in this round; see DESIGN.md for the planned bounded exploration"

def main():
    checks = []
    for pid in ALL:
        if pid not in CHECKS:
            continue
        c = CHECKS[pid]
        checks.append({
            "property_id": pid,
            "quick_cmd": f"./check {pid} --tier quick",
            "thorough_cmd": f"./check {pid} --tier thorough",
            "evidence_file": f"/verif/evidence/{pid}.json",
            "replay_cmd_template": f"./check {pid} --replay {{path}}",
            "engine": "mc-explorer",
            "level_claimed": {"category": c["cat"], "text": c["text"], "design_ref": c["design_ref"]},
            "level_note": c["note"],
            "technique": c["technique"],
        })
    m = {
        "version": 1,
        "setup_cmd": "cd /verif/harness && CARGO_NET_OFFLINE=true cargo build --release --offline -p mc",
        "hooks": {
            "guard": "--cfg lora_rs_verif",
            "enable": "RUSTFLAGS=--cfg lora_rs_verif via /verif/harness/.cargo/config.toml (own target dir /verif/harness/target); path dependencies on /repo crates",
            "baseline_off_cmd": "cd /repo && cargo test --workspace --no-fail-fast --offline",
            "source_commits": HOOK_COMMITS,
            "add_only": True,
        },
        "engines": [{
            "name": "mc-explorer",
            "path": "/verif/harness/mc",
            "serves_properties": sorted(CHECKS.keys()),
            "kind_free_text": "hand-rolled explicit-state / bounded-exhaustive explorer in Rust linking the real lora-rs crates; independent reference crypto/codec/region oracles",
        }],
        "checks": checks,
        "not_applicable": [{"property_id": p, "reason": NA_REASON} for p in ALL if p not in CHECKS],
        "notes": "Exit codes: 0 held (known findings printed as KNOWN-FINDING lines), 1 unlisted violation (VIOLATION lines), 2 machinery failure. Known findings: /verif/known_findings.json.",
    }
    json.dump(m, open("/verif/MANIFEST.json", "w"), indent=1)
    print("checks:", len(checks), "not_applicable:", len(m["not_applicable"]))

HOOK_COMMITS = []
if __name__ == "__main__":
    main()
