//! C13 — SX126x/SX127x drivers emit the same SPI bytes as Semtech's reference driver
//! (SWL2001 through smtc-modem-cores). Exhaustive parameter products per shared operation,
//! both drivers run from the same register state.
#[allow(dead_code)]
#[path = "../../mc/src/ctx.rs"]
mod ctx;
#[path = "../../mc/src/talloc.rs"]
mod talloc;

#[global_allocator]
static GLOBAL: talloc::TAlloc = talloc::TAlloc;

use ctx::{Ctx, Tier, catch, hex, panic_site};
use embedded_hal::spi::Operation;
use embedded_hal_async::spi::SpiDevice as AsyncSpi;
use lora_modulation::{Bandwidth, CodingRate, SpreadingFactor};
use lora_phy::mod_params::{RadioError, RadioMode, RxMode};
use lora_phy::mod_traits::{InterfaceVariant, RadioKind};
use lora_phy::{DelayNs, sx126x, sx127x};
use rayon::prelude::*;
use serde::{Deserialize, Serialize};
use serde_json::{Value, json};
use smtc_modem_cores::sx126x as c126;
use smtc_modem_cores::sx127x as c127;
use smtc_modem_cores::sys;
use std::cell::RefCell;
use std::collections::BTreeMap;
use std::future::Future;
use std::pin::pin;
use std::rc::Rc;
use std::sync::atomic::{AtomicU64, Ordering};
use std::task::{Context as TaskCx, Poll, Waker};

fn drive<F: Future>(f: F) -> Option<F::Output> {
    let mut f = pin!(f);
    let mut cx = TaskCx::from_waker(Waker::noop());
    for _ in 0..16 {
        if let Poll::Ready(v) = f.as_mut().poll(&mut cx) {
            return Some(v);
        }
    }
    None
}

#[derive(Debug)]
pub enum NoErr {}
impl embedded_hal::spi::Error for NoErr {
    fn kind(&self) -> embedded_hal::spi::ErrorKind {
        match *self {}
    }
}

struct Iv;
impl InterfaceVariant for Iv {
    async fn reset(&mut self, _d: &mut impl DelayNs) -> Result<(), RadioError> {
        Ok(())
    }
    async fn wait_on_busy(&mut self) -> Result<(), RadioError> {
        Ok(())
    }
    async fn await_irq(&mut self) -> Result<(), RadioError> {
        Ok(())
    }
    async fn enable_rf_switch_rx(&mut self) -> Result<(), RadioError> {
        Ok(())
    }
    async fn enable_rf_switch_tx(&mut self) -> Result<(), RadioError> {
        Ok(())
    }
    async fn disable_rf_switch(&mut self) -> Result<(), RadioError> {
        Ok(())
    }
}
struct Dly;
impl DelayNs for Dly {
    async fn delay_ns(&mut self, _ns: u32) {}
}

// ------------------------------------------------------------------ SX126x wire recorder

/// SX126x as seen on the wire: a register file (so that read-modify-write sequences see the
/// state reached by earlier writes) plus fixed answers for the status-type reads.
#[derive(Clone, Default)]
struct Wire126 {
    regs: BTreeMap<u16, u8>,
    prior: u8,
    /// canonical transactions: (written bytes with trailing NOPs trimmed, total bytes clocked)
    ops: Vec<(Vec<u8>, usize)>,
    status_data: [u8; 8],
}

#[derive(Clone)]
struct Spi126(Rc<RefCell<Wire126>>);

impl Wire126 {
    fn run(&mut self, ops: &mut [Operation<'_, u8>]) {
        let mut w = vec![];
        let mut rl = 0;
        for op in ops.iter() {
            match op {
                Operation::Write(b) => w.extend_from_slice(b),
                Operation::Read(b) => rl += b.len(),
                _ => {}
            }
        }
        // the chip's output stream by clocked position (position 0 = opcode)
        let total = w.len() + rl;
        let mut out = vec![0u8; total];
        match w.first() {
            Some(0x1D) if w.len() >= 3 => {
                let addr = u16::from_be_bytes([w[1], w[2]]);
                for p in 4..total {
                    out[p] = *self.regs.get(&(addr + (p - 4) as u16)).unwrap_or(&self.prior);
                }
            }
            Some(0x0D) if w.len() >= 3 => {
                let addr = u16::from_be_bytes([w[1], w[2]]);
                for (i, v) in w[3..].iter().enumerate() {
                    self.regs.insert(addr + i as u16, *v);
                }
            }
            Some(0x12 | 0x13 | 0x14 | 0x15 | 0xC0 | 0x17 | 0x11) => {
                for p in 1..total {
                    out[p] = self.status_data[(p - 1).min(7)];
                }
            }
            _ => {}
        }
        let mut cur = w.len();
        for op in ops.iter_mut() {
            if let Operation::Read(b) = op {
                for x in b.iter_mut() {
                    *x = out[cur];
                    cur += 1;
                }
            }
        }
        let trimmed = w.len() - w.iter().rev().take_while(|b| **b == 0).count();
        self.ops.push((w[..trimmed].to_vec(), total));
    }
}

impl embedded_hal::spi::ErrorType for Spi126 {
    type Error = NoErr;
}
impl embedded_hal::spi::SpiDevice for Spi126 {
    fn transaction(&mut self, ops: &mut [Operation<'_, u8>]) -> Result<(), NoErr> {
        self.0.borrow_mut().run(ops);
        Ok(())
    }
}
impl AsyncSpi<u8> for Spi126 {
    async fn transaction(&mut self, ops: &mut [Operation<'_, u8>]) -> Result<(), NoErr> {
        self.0.borrow_mut().run(ops);
        Ok(())
    }
}

fn wire(prior: u8) -> Rc<RefCell<Wire126>> {
    Rc::new(RefCell::new(Wire126 { prior, status_data: [0x24, 4, 7, 0xA0, 0x14, 0xA2, 0, 0], ..Default::default() }))
}

const SFS: [(SpreadingFactor, c126::sx126x_lora_sf_e, u32); 8] = [
    (SpreadingFactor::_5, c126::sx126x_lora_sf_e::SX126X_LORA_SF5, 0),
    (SpreadingFactor::_6, c126::sx126x_lora_sf_e::SX126X_LORA_SF6, sys::sx127x_lora_sf_e_SX127X_LORA_SF6),
    (SpreadingFactor::_7, c126::sx126x_lora_sf_e::SX126X_LORA_SF7, sys::sx127x_lora_sf_e_SX127X_LORA_SF7),
    (SpreadingFactor::_8, c126::sx126x_lora_sf_e::SX126X_LORA_SF8, sys::sx127x_lora_sf_e_SX127X_LORA_SF8),
    (SpreadingFactor::_9, c126::sx126x_lora_sf_e::SX126X_LORA_SF9, sys::sx127x_lora_sf_e_SX127X_LORA_SF9),
    (SpreadingFactor::_10, c126::sx126x_lora_sf_e::SX126X_LORA_SF10, sys::sx127x_lora_sf_e_SX127X_LORA_SF10),
    (SpreadingFactor::_11, c126::sx126x_lora_sf_e::SX126X_LORA_SF11, sys::sx127x_lora_sf_e_SX127X_LORA_SF11),
    (SpreadingFactor::_12, c126::sx126x_lora_sf_e::SX126X_LORA_SF12, sys::sx127x_lora_sf_e_SX127X_LORA_SF12),
];
const BWS: [(Bandwidth, c126::sx126x_lora_bw_e, u32); 10] = [
    (Bandwidth::_7KHz, c126::sx126x_lora_bw_e::SX126X_LORA_BW_007, sys::sx127x_lora_bw_e_SX127X_LORA_BW_007),
    (Bandwidth::_10KHz, c126::sx126x_lora_bw_e::SX126X_LORA_BW_010, sys::sx127x_lora_bw_e_SX127X_LORA_BW_010),
    (Bandwidth::_15KHz, c126::sx126x_lora_bw_e::SX126X_LORA_BW_015, sys::sx127x_lora_bw_e_SX127X_LORA_BW_015),
    (Bandwidth::_20KHz, c126::sx126x_lora_bw_e::SX126X_LORA_BW_020, sys::sx127x_lora_bw_e_SX127X_LORA_BW_020),
    (Bandwidth::_31KHz, c126::sx126x_lora_bw_e::SX126X_LORA_BW_031, sys::sx127x_lora_bw_e_SX127X_LORA_BW_031),
    (Bandwidth::_41KHz, c126::sx126x_lora_bw_e::SX126X_LORA_BW_041, sys::sx127x_lora_bw_e_SX127X_LORA_BW_041),
    (Bandwidth::_62KHz, c126::sx126x_lora_bw_e::SX126X_LORA_BW_062, sys::sx127x_lora_bw_e_SX127X_LORA_BW_062),
    (Bandwidth::_125KHz, c126::sx126x_lora_bw_e::SX126X_LORA_BW_125, sys::sx127x_lora_bw_e_SX127X_LORA_BW_125),
    (Bandwidth::_250KHz, c126::sx126x_lora_bw_e::SX126X_LORA_BW_250, sys::sx127x_lora_bw_e_SX127X_LORA_BW_250),
    (Bandwidth::_500KHz, c126::sx126x_lora_bw_e::SX126X_LORA_BW_500, sys::sx127x_lora_bw_e_SX127X_LORA_BW_500),
];
const CRS: [(CodingRate, c126::sx126x_lora_cr_e, u32); 4] = [
    (CodingRate::_4_5, c126::sx126x_lora_cr_e::SX126X_LORA_CR_4_5, sys::sx127x_lora_cr_e_SX127X_LORA_CR_4_5),
    (CodingRate::_4_6, c126::sx126x_lora_cr_e::SX126X_LORA_CR_4_6, sys::sx127x_lora_cr_e_SX127X_LORA_CR_4_6),
    (CodingRate::_4_7, c126::sx126x_lora_cr_e::SX126X_LORA_CR_4_7, sys::sx127x_lora_cr_e_SX127X_LORA_CR_4_7),
    (CodingRate::_4_8, c126::sx126x_lora_cr_e::SX126X_LORA_CR_4_8, sys::sx127x_lora_cr_e_SX127X_LORA_CR_4_8),
];

#[derive(Clone, Debug, Serialize, Deserialize)]
pub struct Case {
    /// chip family + variant: "sx1261", "sx1262", "stm32wl-hp", "sx1276", "sx1276-boost"
    pub chip: String,
    pub op: String,
    /// operation parameters (meaning depends on `op`)
    pub p: Vec<i64>,
    /// value every unwritten register reads as
    pub prior: u8,
    /// operation run before (on both sides) so that the register state is a reached one
    pub pre: Option<Box<Case>>,
}

unsafe extern "C" {
    /// SWL2001 sx126x.c (compiled into the reference library; not part of the generated bindings)
    fn sx126x_set_rx_duty_cycle_with_timings_in_rtc_step(context: *const core::ffi::c_void, rx_time_in_rtc_step: u32, sleep_time_in_rtc_step: u32) -> u32;
}

/// Datasheet Table 13-21 + one-for-one interpolation (independent of the driver's table).
fn pa_row(hp: bool, stm: bool, dbm: i32) -> (u8, u8, i8) {
    if hp {
        let t = dbm.clamp(-9, 22);
        let (duty, hpmax, top, at) = if t <= 14 { (0x02, 0x02, 14, if stm { 14 } else { 22 }) } else if t <= 17 { (0x02, 0x03, 17, 22) } else if t <= 20 { (0x03, 0x05, 20, 22) } else { (0x04, 0x07, 22, 22) };
        (duty, hpmax, (at - (top - t)) as i8)
    } else {
        let t = dbm.clamp(-17, 15);
        let (duty, top, at) = if t <= 10 { (0x01, 10, 13) } else if t <= 14 { (0x04, 14, 14) } else { (0x06, 15, 14) };
        (duty, 0x00, (at - (top - t)) as i8)
    }
}

fn cal_bytes(f: u32) -> (u8, u8) {
    // datasheet Table 9-2
    if f > 900_000_000 {
        (0xE1, 0xE9)
    } else if f > 850_000_000 {
        (0xD7, 0xDB)
    } else if f > 770_000_000 {
        (0xC1, 0xC5)
    } else if f > 460_000_000 {
        (0x75, 0x81)
    } else if f > 425_000_000 {
        (0x6B, 0x6F)
    } else {
        (0, 0)
    }
}

/// Runs one operation on our driver and on the reference (both on `ours` / `theirs` wires).
/// Returns Err(text) when the operation is not applicable to this chip (skipped).
/// One operation on our driver `r` and on the reference `refc` (both keep their state across the
/// operations of a sequence, as a real driver instance does).
fn op126<RK: RadioKind>(r: &mut RK, refc: &mut c126::Context<Spi126>, c: &Case, ours: &Rc<RefCell<Wire126>>, theirs: &Rc<RefCell<Wire126>>) -> Result<(), String> {
    let hp = c.chip != "sx1261";
    let stm = c.chip == "stm32wl-hp";
    let p = |i: usize| c.p.get(i).copied().unwrap_or(0);
    let ok = |r: Option<Result<(), RadioError>>| -> Result<(), String> {
        match r {
            Some(Ok(())) => Ok(()),
            other => Err(format!("{:?}", other.map(|x| x.err()))),
        }
    };
    match c.op.as_str() {
        "sleep" => {
            refc.set_sleep(if p(0) != 0 { c126::SleepCfg::WarmStart } else { c126::SleepCfg::ColdStart });
            { ok(drive(r.set_sleep(p(0) != 0, &mut Dly))) }
        }
        "standby" => {
            refc.set_standby(c126::sx126x_standby_cfgs_e::SX126X_STANDBY_CFG_RC);
            { ok(drive(r.set_standby())) }
        }
        "reset" => {
            // the reset line is pulsed: the chip's registers are back at their power-on values on both sides (the
            // reference driver keeps no state, so there is nothing else to do for it)
            ours.borrow_mut().regs.clear();
            theirs.borrow_mut().regs.clear();
            { ok(drive(r.reset(&mut Dly))) }
        }
        "freq" => {
            refc.set_rf_freq(p(0) as u32);
            { ok(drive(r.set_channel(p(0) as u32))) }
        }
        "mod" => {
            let (sf, csf, _) = SFS[p(0) as usize];
            let (bw, cbw, _) = BWS[p(1) as usize];
            let (cr, ccr, _) = CRS[p(2) as usize];
            { {
                let mp = r.create_modulation_params(sf, bw, cr, 868_100_000).map_err(|e| format!("{e:?}"))?;
                refc.set_lora_mod_params(&c126::sx126x_mod_params_lora_t { sf: csf, bw: cbw, cr: ccr, ldro: mp.low_data_rate_optimize });
                ok(drive(r.set_modulation_params(&mp)))
            } }
        }
        "pkt" => {
            let (sf, _, _) = SFS[p(5) as usize];
            { {
                let mp = r.create_modulation_params(sf, Bandwidth::_125KHz, CodingRate::_4_5, 868_100_000).map_err(|e| format!("{e:?}"))?;
                let pp = r.create_packet_params(p(0) as u16, p(1) != 0, p(2) as u8, p(3) != 0, p(4) != 0, &mp).map_err(|e| format!("{e:?}"))?;
                refc.set_lora_pkt_params(&c126::sx126x_pkt_params_lora_t {
                    preamble_len_in_symb: pp.preamble_length,
                    header_type: if p(1) != 0 { c126::sx126x_lora_pkt_len_modes_e::SX126X_LORA_PKT_IMPLICIT } else { c126::sx126x_lora_pkt_len_modes_e::SX126X_LORA_PKT_EXPLICIT },
                    pld_len_in_bytes: p(2) as u8,
                    crc_is_on: p(3) != 0,
                    invert_iq_is_on: p(4) != 0,
                });
                ok(drive(r.set_packet_params(&pp)))
            } }
        }
        "sync" => {
            // the reference reads the two registers and keeps their low nibbles; from the reset
            // values 0x14 0x24 both land on the same write
            theirs.borrow_mut().regs.insert(0x0740, 0x14);
            theirs.borrow_mut().regs.insert(0x0741, 0x24);
            ours.borrow_mut().regs.insert(0x0740, 0x14);
            ours.borrow_mut().regs.insert(0x0741, 0x24);
            let legacy = p(0) as u8;
            let start = theirs.borrow().ops.len();
            refc.set_lora_sync_word(legacy);
            let word = u16::from_be_bytes([(legacy & 0xF0) | 0x04, ((legacy & 0x0F) << 4) | 0x04]);
            let r = { ok(drive(r.set_lora_sync_word(word))) };
            // only writes are comparable (the reference's read has no counterpart)
            {
                let mut g = theirs.borrow_mut();
                let mut i = 0;
                g.ops.retain(|o| {
                    let keep = i < start || !o.0.starts_with(&[0x1D, 0x07, 0x40]);
                    i += 1;
                    keep
                });
            }
            r
        }
        "base" => {
            refc.set_buffer_base_address(p(0) as u8, p(1) as u8);
            { ok(drive(r.set_tx_rx_buffer_base_address(p(0) as usize, p(1) as usize))) }
        }
        "payload" => {
            let data: Vec<u8> = (0..p(0) as usize).map(|i| (i as u8).wrapping_mul(p(1) as u8 | 1).wrapping_add(p(1) as u8)).collect();
            refc.write_buffer(0, &data);
            { ok(drive(r.set_payload(&data))) }
        }
        "tx" => {
            refc.set_tx(0);
            { ok(drive(r.do_tx())) }
        }
        "irq" => {
            let (mode, mask): (RadioMode, u16) = match p(0) {
                0 => (RadioMode::Standby, 0xFFFF),
                1 => (RadioMode::Transmit, 0x0201),
                2 => (RadioMode::Receive(RxMode::Continuous), 0xFFFF),
                3 => (RadioMode::Receive(RxMode::Single(10)), 0xFFFF),
                _ => (RadioMode::ChannelActivityDetection, 0x0180),
            };
            refc.set_dio_irq_params(mask, mask, 0, 0);
            { ok(drive(r.set_irq_params(Some(mode)))) }
        }
        "clrirq" => {
            refc.clear_irq_status(0xFFFF);
            { ok(drive(r.clear_irq_status())) }
        }
        "rx" => {
            // p0: -1 continuous, otherwise symbol timeout
            let (mode, symbs, rtc) = if p(0) < 0 { (RxMode::Continuous, 0u8, 0xFFFFFFu32) } else { (RxMode::Single(p(0) as u16), (p(0) as u16).min(248) as u8, 0) };
            refc.stop_timer_on_preamble(true);
            refc.set_lora_symb_nb_timeout(symbs);
            refc.cfg_rx_boosted(true);
            refc.set_rx_with_timeout_in_rtc_step(rtc);
            { ok(drive(r.do_rx(mode))) }
        }
        "cad" => {
            let (sf, _, _) = SFS[p(0) as usize];
            refc.cfg_rx_boosted(true);
            refc.set_cad_params(&c126::sx126x_cad_params_t {
                cad_symb_nb: c126::sx126x_cad_symbs_e::SX126X_CAD_08_SYMB,
                cad_detect_peak: sf.factor() as u8 + 13,
                cad_detect_min: 10,
                cad_exit_mode: c126::sx126x_cad_exit_modes_e::SX126X_CAD_ONLY,
                cad_timeout: 0,
            });
            refc.set_cad();
            { {
                let mp = r.create_modulation_params(sf, Bandwidth::_125KHz, CodingRate::_4_5, 868_100_000).map_err(|e| format!("{e:?}"))?;
                ok(drive(r.do_cad(&mp)))
            } }
        }
        "calimg" => {
            let (f1, f2) = cal_bytes(p(0) as u32);
            refc.cal_img(f1, f2);
            { ok(drive(r.calibrate_image(p(0) as u32))) }
        }
        "txcw" => {
            refc.set_tx_cw();
            { ok(drive(r.set_tx_continuous_wave_mode())) }
        }
        "power" => {
            let (duty, hpmax, param) = pa_row(hp, stm, p(0) as i32);
            if hp {
                refc.cfg_tx_clamp();
            }
            refc.set_pa_cfg(&c126::sx126x_pa_cfg_params_t { pa_duty_cycle: duty, hp_max: hpmax, device_sel: if hp { 0 } else { 1 }, pa_lut: 0x01 });
            refc.set_tx_params(param, if p(1) != 0 { c126::sx126x_ramp_time_e::SX126X_RAMP_40_US } else { c126::sx126x_ramp_time_e::SX126X_RAMP_200_US });
            // p2: carrier frequency handed over with the modulation parameters (0 = none, as at init). Below
            // 400 MHz the low-power PA must stay at paDutyCycle <= 0x04 (datasheet 13.1.14): +15 dBm is not a
            // legal request there; every other request is, and is compared
            let f = p(2) as u32;
            if f == 0 {
                ok(drive(r.set_tx_power_and_ramp_time(p(0) as i32, None, p(1) != 0)))
            } else {
                let legal = hp || f >= 400_000_000 || p(0) < 15;
                let mp = r.create_modulation_params(SpreadingFactor::_7, Bandwidth::_125KHz, CodingRate::_4_5, f).map_err(|e| format!("{e:?}"))?;
                match ok(drive(r.set_tx_power_and_ramp_time(p(0) as i32, Some(&mp), p(1) != 0))) {
                    Err(e) if legal => Err(format!("REFUSED: {e}")),
                    x => x,
                }
            }
        }
        "rxdc" => {
            // RX duty cycle: p0 = rx period, p1 = sleep period (RTC steps, 24 bits each). The safe wrapper of the
            // reference driver does not export the call; the C function itself is linked and called directly.
            refc.stop_timer_on_preamble(true);
            refc.set_lora_symb_nb_timeout(0);
            refc.cfg_rx_boosted(true);
            unsafe {
                sx126x_set_rx_duty_cycle_with_timings_in_rtc_step(refc as *mut c126::Context<Spi126> as *const core::ffi::c_void, p(0) as u32, p(1) as u32);
            }
            { ok(drive(r.do_rx(RxMode::DutyCycle(lora_phy::mod_params::DutyCycleParams { rx_time: p(0) as u32, sleep_time: p(1) as u32 })))) }
        }
        "rdstatus" => {
            // status-type reads: packet status, instantaneous RSSI, IRQ status, wake-up GetStatus
            match p(0) {
                0 => {
                    refc.get_lora_pkt_status();
                    { drive(r.get_rx_packet_status()).map(|_| ()).ok_or("pending".to_string()) }
                }
                1 => {
                    refc.get_rssi_inst();
                    { drive(r.get_rssi()).map(|_| ()).ok_or("pending".to_string()) }
                }
                2 => {
                    refc.get_irq_status();
                    { drive(r.get_irq_state(RadioMode::Transmit, None)).map(|_| ()).ok_or("pending".to_string()) }
                }
                _ => {
                    refc.get_status();
                    { ok(drive(r.ensure_ready(RadioMode::Sleep))) }
                }
            }
        }
        other => Err(format!("unknown op {other}")),
    }
}


/// Runs a sequence of operations on ONE instance of our driver and one of the reference.
fn run126(seq: &[&Case], ours: &Rc<RefCell<Wire126>>, theirs: &Rc<RefCell<Wire126>>) -> Result<(), String> {
    let chip = seq.last().map(|c| c.chip.clone()).unwrap_or_default();
    let mut refc = c126::Context::new(Spi126(theirs.clone()));
    macro_rules! go {
        ($radio:expr) => {{
            let mut r = $radio;
            let n = seq.len();
            for (i, c) in seq.iter().enumerate() {
                let res = op126(&mut r, &mut refc, c, ours, theirs);
                // a prior operation the driver rejects is simply not part of the sequence
                if i + 1 == n {
                    return res;
                }
            }
            Ok(())
        }};
    }
    match chip.as_str() {
        "sx1261" => go!(sx126x::Sx126x::new(Spi126(ours.clone()), Iv, sx126x::Config { chip: sx126x::Sx1261, tcxo_ctrl: None, use_dcdc: false, rx_boost: true })),
        "sx1262" => go!(sx126x::Sx126x::new(Spi126(ours.clone()), Iv, sx126x::Config { chip: sx126x::Sx1262, tcxo_ctrl: None, use_dcdc: false, rx_boost: true })),
        _ => go!(sx126x::Sx126x::new(Spi126(ours.clone()), Iv, sx126x::Config { chip: sx126x::Stm32wl { use_high_power_pa: true }, tcxo_ctrl: None, use_dcdc: false, rx_boost: true })),
    }
}

fn eval126(c: &Case) -> Vec<(String, String)> {
    let ours = wire(c.prior);
    let theirs = wire(c.prior);
    let r = catch(|| {
        // (the chain of prior operations, oldest first)
        let mut chain: Vec<&Case> = vec![c];
        let mut cur = c;
        while let Some(pre) = &cur.pre {
            chain.insert(0, pre.as_ref());
            cur = pre.as_ref();
        }
        run126(&chain, &ours, &theirs)
    });
    match r {
        Err(p) => vec![(format!("C13|sx126x|{}|panic|{}", c.op, panic_site(&p)), p)],
        Ok(Err(e)) if e.starts_with("REFUSED") => vec![(format!("C13|sx126x|{}|legal-request-refused", c.op), format!("{} {:?}: {e}; the reference driver issues {} transactions", c.chip, c.p, theirs.borrow().ops.len()))],
        Ok(Err(e)) => vec![("SKIP".into(), e)], // not applicable (the driver rejects the parameters)
        Ok(Ok(())) => {
            let a = &ours.borrow().ops;
            let b = &theirs.borrow().ops;
            if a != b {
                let i = a.iter().zip(b.iter()).position(|(x, y)| x != y).unwrap_or(a.len().min(b.len()));
                let f = |o: Option<&(Vec<u8>, usize)>| o.map(|x| format!("{} ({} clocked)", hex(&x.0), x.1)).unwrap_or("-".into());
                let pre = match &c.pre {
                    Some(p) if p.pre.is_some() => "|after-prior-ops",
                    Some(_) => "|after-prior-op",
                    None => "",
                };
                vec![(
                    format!("C13|sx126x|{}|bytes-differ{pre}", c.op),
                    format!("{} {:?} prior {:#x}: transaction {i}: ours {} / reference {} ({} vs {} transactions)", c.chip, c.p, c.prior, f(a.get(i)), f(b.get(i)), a.len(), b.len()),
                )]
            } else {
                vec![]
            }
        }
    }
}

// ------------------------------------------------------------------ SX127x register file

#[derive(Clone)]
struct Regs127 {
    regs: [u8; 128],
    /// bytes written to the FIFO port, in order
    fifo: Vec<u8>,
    /// FIFO data buffer: an access goes to RegFifoAddrPtr, which then increments
    ram: [u8; 256],
}

#[derive(Clone)]
struct Spi127(Rc<RefCell<Regs127>>);

/// registers a read-modify-write in either driver starts from (swept over all prior values)
const RMW_76: [u8; 7] = [0x09, 0x0A, 0x1D, 0x1E, 0x26, 0x31, 0x4D];
const RMW_72: [u8; 6] = [0x09, 0x0A, 0x1D, 0x1E, 0x31, 0x5A];

impl Regs127 {
    fn new(sx1272: bool, prior: Option<u8>) -> Self {
        let mut regs = [0u8; 128];
        // power-on defaults (SX1276 datasheet table 41 / SX1272 table 79), LoRa sleep entered from reset
        let common: &[(u8, u8)] = &[
            (0x01, 0x80),
            (0x0B, 0x2B),
            (0x0C, 0x20),
            (0x0E, 0x80),
            (0x1F, 0x64),
            (0x21, 0x08),
            (0x22, 0x01),
            (0x23, 0xFF),
            (0x31, 0xC3),
            (0x33, 0x27),
            (0x37, 0x0A),
            (0x39, 0x12),
            (0x3B, 0x1D),
        ];
        let own: &[(u8, u8)] = if sx1272 {
            &[(0x06, 0xE4), (0x07, 0xC0), (0x09, 0x0F), (0x0A, 0x19), (0x1D, 0x08), (0x1E, 0x74), (0x42, 0x22), (0x5A, 0x84)]
        } else {
            &[(0x06, 0x6C), (0x07, 0x80), (0x09, 0x4F), (0x0A, 0x09), (0x1D, 0x72), (0x1E, 0x70), (0x42, 0x12), (0x4D, 0x84)]
        };
        for (a, v) in common.iter().chain(own.iter()) {
            regs[*a as usize] = *v;
        }
        if let Some(p) = prior {
            for a in if sx1272 { &RMW_72[..] } else { &RMW_76[..] } {
                regs[*a as usize] = p;
            }
        }
        Regs127 { regs, fifo: vec![], ram: [0; 256] }
    }
    fn run(&mut self, ops: &mut [Operation<'_, u8>]) {
        let mut w = vec![];
        for op in ops.iter() {
            if let Operation::Write(b) = op {
                w.extend_from_slice(b);
            }
        }
        let Some(&a) = w.first() else { return };
        let addr = a & 0x7F;
        if a & 0x80 != 0 {
            for (i, v) in w[1..].iter().enumerate() {
                if addr == 0 {
                    // the FIFO port: the register address stays, the FIFO pointer advances
                    self.fifo.push(*v);
                    let p = self.regs[0x0D];
                    self.ram[p as usize] = *v;
                    self.regs[0x0D] = p.wrapping_add(1);
                    continue;
                }
                let ad = (addr as usize + i) & 0x7F;
                match ad {
                    0x12 => self.regs[ad] &= !*v, // write-1-to-clear
                    0x42 => {}                    // read-only
                    0x01 => {
                        // LongRangeMode only changes while in sleep and staying there
                        let cur = self.regs[1];
                        let mut b = *v;
                        if !(cur & 7 == 0 && b & 7 == 0) {
                            b = (cur & 0x80) | (b & 0x7F);
                        }
                        self.regs[1] = b;
                    }
                    _ => self.regs[ad] = *v,
                }
            }
        } else {
            let mut i = 0usize;
            for op in ops.iter_mut() {
                if let Operation::Read(b) = op {
                    for x in b.iter_mut() {
                        *x = if addr == 0 {
                            let p = self.regs[0x0D];
                            self.regs[0x0D] = p.wrapping_add(1);
                            self.ram[p as usize]
                        } else {
                            self.regs[(addr as usize + i) & 0x7F]
                        };
                        i += 1;
                    }
                }
            }
        }
    }
}
impl embedded_hal::spi::ErrorType for Spi127 {
    type Error = NoErr;
}
impl embedded_hal::spi::SpiDevice for Spi127 {
    fn transaction(&mut self, ops: &mut [Operation<'_, u8>]) -> Result<(), NoErr> {
        self.0.borrow_mut().run(ops);
        Ok(())
    }
}
impl AsyncSpi<u8> for Spi127 {
    async fn transaction(&mut self, ops: &mut [Operation<'_, u8>]) -> Result<(), NoErr> {
        self.0.borrow_mut().run(ops);
        Ok(())
    }
}

fn eval127(c: &Case) -> Vec<(String, String)> {
    let is72 = c.chip.starts_with("sx1272");
    let boost = c.chip.ends_with("-boost");
    let prior = if c.prior == 0 { None } else { Some(c.prior) };
    let ours = Rc::new(RefCell::new(Regs127::new(is72, prior)));
    let theirs = Rc::new(RefCell::new(Regs127::new(is72, prior)));
    let p = |i: usize| c.p.get(i).copied().unwrap_or(0);
    // (register, mask of the bits compared) for this operation; None = the whole file
    let mut compare: Option<Vec<(u8, u8)>> = None;
    let r: Result<Result<(), String>, String> = catch(|| {
        let mut refc = c127::Context::new(Spi127(theirs.clone()), if is72 { c127::sx127x_radio_id_e::SX127X_RADIO_ID_SX1272 } else { c127::sx127x_radio_id_e::SX127X_RADIO_ID_SX1276 });
        refc.set_pkt_type(sys::sx127x_pkt_types_e_SX127X_PKT_TYPE_LORA);
        macro_rules! ours {
            (|$r:ident| $body:expr) => {{
                if is72 {
                    let mut $r = sx127x::Sx127x::new(Spi127(ours.clone()), Iv, sx127x::Config { chip: sx127x::Sx1272, tcxo_used: false, tx_boost: boost, rx_boost: false });
                    $body
                } else {
                    let mut $r = sx127x::Sx127x::new(Spi127(ours.clone()), Iv, sx127x::Config { chip: sx127x::Sx1276, tcxo_used: false, tx_boost: boost, rx_boost: false });
                    $body
                }
            }};
        }
        let ok = |x: Option<Result<(), RadioError>>| -> Result<(), String> {
            match x {
                Some(Ok(())) => Ok(()),
                other => Err(format!("{:?}", other.map(|e| e.err()))),
            }
        };
        match c.op.as_str() {
            "standby" => {
                refc.set_standby();
                ours!(|r| ok(drive(r.set_standby())))
            }
            "sleep" => {
                refc.set_standby();
                refc.set_sleep();
                ours!(|r| {
                    ok(drive(r.set_standby()))?;
                    ok(drive(r.set_sleep(false, &mut Dly)))
                })
            }
            "freq" => {
                refc.set_rf_freq(p(0) as u32);
                ours!(|r| ok(drive(r.set_channel(p(0) as u32))))
            }
            "mod" => {
                let (sf, _, csf) = SFS[p(0) as usize];
                let (bw, _, cbw) = BWS[p(1) as usize];
                let (cr, _, ccr) = CRS[p(2) as usize];
                ours!(|r| {
                    let mp = r.create_modulation_params(sf, bw, cr, 868_100_000).map_err(|e| format!("{e:?}"))?;
                    refc.set_lora_mod_params(&sys::sx127x_lora_mod_params_t { sf: csf, bw: cbw, cr: ccr, ldro: mp.low_data_rate_optimize });
                    if is72 {
                        compare = Some(vec![(0x1D, 0xFF), (0x1E, 0xFF), (0x31, 0xFF), (0x37, 0xFF)]);
                    } else {
                        // errata 2.3: SWL2001 applies these on every SetRx, ours with the modulation config
                        let d = theirs.borrow().regs[0x31];
                        if bw == Bandwidth::_500KHz {
                            refc.write_register(0x31, &[d | 0x80]);
                        } else if bw.hz() >= 62_500 {
                            // (below 62.5 kHz the erratum also needs a frequency shift that set_channel owns:
                            // documented as left at chip defaults)
                            refc.write_register(0x31, &[d & 0x7F]);
                            refc.write_register(0x2F, &[0x40]);
                            refc.write_register(0x30, &[0x00]);
                        }
                        // lora-phy owns the LNA gain: AgcAutoOn [2] of RegModemConfig3 is documented as forced
                        // off; errata 2.1 (0x36/0x3A at 500 kHz) depends on the chip revision read at init
                        compare = Some(vec![(0x1D, 0xFF), (0x1E, 0xFF), (0x26, 0xFB), (0x31, 0xFF), (0x37, 0xFF), (0x2F, 0xFF), (0x30, 0xFF)]);
                    }
                    ok(drive(r.set_modulation_params(&mp)))
                })
            }
            "pkt" => {
                ours!(|r| {
                    let mp = r.create_modulation_params(SpreadingFactor::_7, Bandwidth::_125KHz, CodingRate::_4_5, 868_100_000).map_err(|e| format!("{e:?}"))?;
                    let pp = r.create_packet_params(p(0) as u16, p(1) != 0, p(2) as u8, p(3) != 0, false, &mp).map_err(|e| format!("{e:?}"))?;
                    refc.set_lora_pkt_params(&sys::sx127x_lora_pkt_params_t {
                        preamble_len_in_symb: pp.preamble_length,
                        header_type: if p(1) != 0 { sys::sx127x_lora_pkt_len_modes_e_SX127X_LORA_PKT_IMPLICIT } else { sys::sx127x_lora_pkt_len_modes_e_SX127X_LORA_PKT_EXPLICIT },
                        pld_len_in_bytes: p(2) as u8,
                        crc_is_on: p(3) != 0,
                        invert_iq_is_on: false,
                    });
                    // the reference's composite also forces standby, zeroes the FIFO bases and pins the payload
                    // length registers, which ours programs at other call sites; IQ registers are pushed by the
                    // reference at set_tx/set_rx
                    compare = Some(vec![(0x20, 0xFF), (0x21, 0xFF), (0x1D, 0xFF), (0x1E, 0xFF)]);
                    if p(1) != 0 {
                        compare.as_mut().unwrap().push((0x22, 0xFF)); // implicit header: expected length
                    }
                    ok(drive(r.set_packet_params(&pp)))
                })
            }
            "sync" => {
                let legacy = p(0) as u8;
                refc.set_lora_sync_word(legacy);
                let word = u16::from_be_bytes([(legacy & 0xF0) | 0x04, ((legacy & 0x0F) << 4) | 0x04]);
                ours!(|r| ok(drive(r.set_lora_sync_word(word))))
            }
            "payload" => {
                let data: Vec<u8> = (0..p(0) as usize).map(|i| (i as u8).wrapping_mul(3).wrapping_add(p(1) as u8)).collect();
                refc.set_lora_pkt_params(&sys::sx127x_lora_pkt_params_t {
                    preamble_len_in_symb: 8,
                    header_type: sys::sx127x_lora_pkt_len_modes_e_SX127X_LORA_PKT_EXPLICIT,
                    pld_len_in_bytes: data.len() as u8,
                    crc_is_on: true,
                    invert_iq_is_on: false,
                });
                // whatever the FIFO pointer was left at by an earlier operation
                ours.borrow_mut().regs[0x0D] = c.prior;
                theirs.borrow_mut().regs[0x0D] = c.prior;
                refc.write_buffer(0, &data);
                // FIFO stream, FIFO pointer, payload length (and below: the data buffer the modem transmits from)
                compare = Some(vec![(0x0D, 0xFF), (0x22, 0xFF)]);
                ours!(|r| ok(drive(r.set_payload(&data))))
            }
            "symbtimeout" => {
                // both clamp to the chip's [4, 1023]
                refc.set_lora_sync_timeout((p(0) as u16).clamp(4, 1023));
                compare = Some(vec![(0x1F, 0xFF), (0x1E, 0x03)]);
                ours!(|r| ok(drive(r.do_rx(RxMode::Single(p(0) as u16)))))
            }
            "power" => {
                let rq = p(0) as i32;
                let is20 = boost && rq > 17;
                refc.set_pa_cfg(&sys::sx127x_pa_cfg_params_t {
                    pa_select: if boost { sys::sx127x_pa_select_e_SX127X_PA_SELECT_BOOST } else { sys::sx127x_pa_select_e_SX127X_PA_SELECT_RFO },
                    is_20_dbm_output_on: is20,
                });
                let clamped = if boost { rq.clamp(2, 20) } else if is72 { rq.clamp(-1, 14) } else { rq.clamp(-4, 14) };
                refc.set_tx_params(clamped as i8, sys::sx127x_ramp_time_e_SX127X_RAMP_40_US);
                // live bits only: PaDac[2:0]; PaRamp[3:0]; PaSelect + OutputPower,
                // and MaxPower where the RFO pin is used on the SX1276
                compare = Some(if is72 { vec![(0x5A, 0x07), (0x0A, 0x0F), (0x09, 0x8F)] } else { vec![(0x4D, 0x07), (0x0A, 0x0F), (0x09, if boost { 0x8F } else { 0xFF })] });
                ours!(|r| ok(drive(r.set_tx_power_and_ramp_time(rq, None, true))))
            }
            other => Err(format!("unknown op {other}")),
        }
    });
    match r {
        Err(p) => vec![(format!("C13|sx127x|{}|panic|{}", c.op, panic_site(&p)), p)],
        Ok(Err(e)) => vec![("SKIP".into(), e)],
        Ok(Ok(())) => {
            let a = ours.borrow();
            let b = theirs.borrow();
            let regs: Vec<(u8, u8)> = compare.unwrap_or_else(|| (1..128u8).filter(|x| *x != 0x12).map(|x| (x, 0xFF)).collect());
            let fam = if is72 { "sx1272" } else { "sx1276" };
            let mut v = vec![];
            for (ad, mask) in regs {
                if a.regs[ad as usize] & mask != b.regs[ad as usize] & mask {
                    v.push((
                        format!("C13|{fam}|{}|register-{ad:#04x}-differs", c.op),
                        format!("{} {:?} prior {:#x}: register {ad:#04x} (mask {mask:#04x}): ours {:#04x} reference {:#04x}", c.chip, c.p, c.prior, a.regs[ad as usize], b.regs[ad as usize]),
                    ));
                }
            }
            if c.op == "payload" {
                let n = p(0) as usize;
                if a.ram[..n] != b.ram[..n] {
                    v.push((
                        format!("C13|{fam}|payload|data-buffer-differs"),
                        format!("{} {:?} FIFO pointer before {:#x}: bytes at the TX base: ours {} reference {}", c.chip, c.p, c.prior, hex(&a.ram[..n.min(16)]), hex(&b.ram[..n.min(16)])),
                    ));
                }
            }
            if a.fifo != b.fifo {
                v.push((format!("C13|{fam}|{}|fifo-stream-differs", c.op), format!("{} {:?}: ours {} reference {}", c.chip, c.p, hex(&a.fifo), hex(&b.fifo))));
            }
            v
        }
    }
}

// ------------------------------------------------------------------ SX127x: the driver object keeps no hidden state
//
// The reference driver is stateless: every operation is a function of its arguments and of the chip's registers.
// Ours must therefore leave the same register file whether a sequence X ; M ; Y runs on ONE driver instance or Y is
// run by a FRESH instance on the registers X ; M left behind (M: nothing, a chip reset, sleep, standby). Together
// with the single-operation comparison against the reference this extends "same bytes given the same register
// state" to sequences.

fn ours127<RK: RadioKind>(r: &mut RK, c: &Case, regs: &Rc<RefCell<Regs127>>, is72: bool) -> Result<(), String> {
    let p = |i: usize| c.p.get(i).copied().unwrap_or(0);
    let ok = |x: Option<Result<(), RadioError>>| -> Result<(), String> {
        match x {
            Some(Ok(())) => Ok(()),
            other => Err(format!("{:?}", other.map(|e| e.err()))),
        }
    };
    match c.op.as_str() {
        "none" => Ok(()),
        "reset" => {
            let fresh = Regs127::new(is72, None);
            regs.borrow_mut().regs = fresh.regs;
            ok(drive(r.reset(&mut Dly)))
        }
        "standby" => ok(drive(r.set_standby())),
        "sleep" => {
            ok(drive(r.set_standby()))?;
            ok(drive(r.set_sleep(p(0) != 0, &mut Dly)))
        }
        "freq" => ok(drive(r.set_channel(p(0) as u32))),
        "mod" => {
            let mp = r.create_modulation_params(SFS[p(0) as usize].0, BWS[p(1) as usize].0, CRS[p(2) as usize].0, 868_100_000).map_err(|e| format!("{e:?}"))?;
            ok(drive(r.set_modulation_params(&mp)))
        }
        "pkt" => {
            let mp = r.create_modulation_params(SpreadingFactor::_7, Bandwidth::_125KHz, CodingRate::_4_5, 868_100_000).map_err(|e| format!("{e:?}"))?;
            let pp = r.create_packet_params(p(0) as u16, p(1) != 0, p(2) as u8, p(3) != 0, p(4) != 0, &mp).map_err(|e| format!("{e:?}"))?;
            ok(drive(r.set_packet_params(&pp)))
        }
        "sync" => {
            let legacy = p(0) as u8;
            ok(drive(r.set_lora_sync_word(u16::from_be_bytes([(legacy & 0xF0) | 0x04, ((legacy & 0x0F) << 4) | 0x04]))))
        }
        "symbtimeout" => ok(drive(r.do_rx(RxMode::Single(p(0) as u16)))),
        "power" => ok(drive(r.set_tx_power_and_ramp_time(p(0) as i32, None, true))),
        "irq" => ok(drive(r.set_irq_params(Some(RadioMode::Transmit)))),
        other => Err(format!("unknown op {other}")),
    }
}

/// Runs `first` on one instance and `rest` on another (or, with `split` false, everything on one instance); returns
/// the register file left behind.
fn run127_split(chip: &str, first: &[&Case], rest: &[&Case], split: bool) -> Result<[u8; 128], String> {
    let is72 = chip.starts_with("sx1272");
    let boost = chip.ends_with("-boost");
    let regs = Rc::new(RefCell::new(Regs127::new(is72, None)));
    macro_rules! go {
        ($chipv:expr) => {{
            let mk = || sx127x::Sx127x::new(Spi127(regs.clone()), Iv, sx127x::Config { chip: $chipv, tcxo_used: false, tx_boost: boost, rx_boost: false });
            let mut a = mk();
            for c in first {
                ours127(&mut a, c, &regs, is72)?;
            }
            if split {
                let mut b = mk();
                for c in rest {
                    ours127(&mut b, c, &regs, is72)?;
                }
            } else {
                for c in rest {
                    ours127(&mut a, c, &regs, is72)?;
                }
            }
        }};
    }
    if is72 {
        go!(sx127x::Sx1272)
    } else {
        go!(sx127x::Sx1276)
    }
    let r = regs.borrow().regs;
    Ok(r)
}

fn eval127_stateless(c: &Case) -> Vec<(String, String)> {
    // c = Y, c.pre = M, c.pre.pre = X
    let (Some(m), Some(x)) = (c.pre.as_deref(), c.pre.as_deref().and_then(|m| m.pre.as_deref())) else {
        return vec![("SKIP".into(), "not a triple".into())];
    };
    let one = catch(|| run127_split(&c.chip, &[x, m], &[c], false));
    let two = catch(|| run127_split(&c.chip, &[x, m], &[c], true));
    let fam = if c.chip.starts_with("sx1272") { "sx1272" } else { "sx1276" };
    match (one, two) {
        (Err(p), _) | (_, Err(p)) => vec![(format!("C13|{fam}|{}|panic|{}", c.op, panic_site(&p)), p)],
        (Ok(Err(e)), _) | (_, Ok(Err(e))) => vec![("SKIP".into(), e)],
        (Ok(Ok(a)), Ok(Ok(b))) => {
            let mut v = vec![];
            for ad in 1..128usize {
                if ad != 0x12 && a[ad] != b[ad] {
                    v.push((
                        format!("C13|{fam}|{}|driver-state-changes-the-outcome|after-{}", c.op, m.op),
                        format!(
                            "{}: {} {:?} ; {} {:?} ; {} {:?}: register {ad:#04x} is {:#04x} when one driver instance runs the sequence and {:#04x} when a fresh instance (as stateless as the reference driver) runs the last operation on the same registers",
                            c.chip, x.op, x.p, m.op, m.p, c.op, c.p, a[ad], b[ad]
                        ),
                    ));
                    break;
                }
            }
            v
        }
    }
}

fn eval(c: &Case) -> Vec<(String, String)> {
    if c.chip.starts_with("sx127") {
        if c.pre.is_some() { eval127_stateless(c) } else { eval127(c) }
    } else {
        eval126(c)
    }
}

fn freqs(th: bool) -> Vec<u32> {
    let mut v = vec![];
    for (lo, hi) in [(433_050_000u32, 434_790_000u32), (863_000_000, 870_000_000), (902_000_000, 928_000_000), (915_000_000, 928_000_000), (779_000_000, 787_000_000), (470_000_000, 510_000_000)] {
        let step = if th { 100 } else { 700 };
        let mut f = lo;
        while f <= hi {
            v.push(f);
            f += step;
        }
    }
    let mut f = 137_000_000u32;
    while f <= 1_020_000_000 {
        v.push(f);
        f += if th { 1_000 } else { 25_000 };
    }
    // Both synthesiser words are f * 2^k / 32 MHz: their fractional part - all that rounding depends on - is periodic
    // in f with period 15 625 Hz. One full period at 1 Hz (in three bands, so that the integer part differs) meets
    // every rounding case, including the exact ties, none of which lies on a 25 Hz grid.
    for base in [433_175_000u32, 868_100_000, 915_200_000] {
        for d in 0..15_625u32 {
            v.push(base + d);
        }
    }
    v
}

fn main() {
    let args: Vec<String> = std::env::args().collect();
    let mut tier = if std::env::var("VERIF_TIER").as_deref() == Ok("thorough") { Tier::Thorough } else { Tier::Quick };
    let mut replay: Option<String> = None;
    let mut i = 1;
    while i < args.len() {
        match args[i].as_str() {
            "--tier" => {
                i += 1;
                tier = if args.get(i).map(|s| s.as_str()) == Some("thorough") { Tier::Thorough } else { Tier::Quick };
            }
            "--replay" => {
                i += 1;
                replay = args.get(i).cloned();
            }
            _ => {}
        }
        i += 1;
    }
    ctx::install_panic_hook();
    if let Some(path) = replay {
        let txt = std::fs::read_to_string(&path).expect("replay file");
        let v: Value = serde_json::from_str(&txt).expect("json");
        let c: Case = serde_json::from_value(v["case"].clone()).expect("case");
        let sigs: Vec<_> = eval(&c).into_iter().filter(|x| x.0 != "SKIP").collect();
        for s in &sigs {
            println!("C13 replay {path}: reproduced [{}] {}", s.0, s.1);
        }
        if sigs.is_empty() {
            println!("C13 replay {path}: no violation reproduced");
            std::process::exit(0);
        }
        println!("VIOLATION property=C13 replay={path}");
        std::process::exit(1);
    }
    // the thorough alphabet takes well under half a minute: the quick tier runs it too
    if tier == Tier::Quick && std::env::var("VERIF_NO_PROMOTE").is_err() {
        let _ = ctx::TIER_LABEL.set("quick");
        tier = Tier::Thorough;
    }
    let ctx = Ctx::new("C13", tier);
    let th = tier == Tier::Thorough;
    let mut cases: Vec<Case> = vec![];
    let mk = |chip: &str, op: &str, p: Vec<i64>, prior: u8| Case { chip: chip.into(), op: op.into(), p, prior, pre: None };
    let priors: Vec<u8> = if th { (0..=255).collect() } else { vec![0x00, 0xFF, 0x04, 0xFB, 0x55, 0xAA, 0x80, 0x1E] };
    for chip in ["sx1261", "sx1262", "stm32wl-hp"] {
        for w in [0, 1] {
            cases.push(mk(chip, "sleep", vec![w], 0));
        }
        for op in ["standby", "tx", "clrirq", "txcw"] {
            cases.push(mk(chip, op, vec![], 0));
        }
        for m in 0..5 {
            cases.push(mk(chip, "irq", vec![m], 0));
        }
        for s in 0..4 {
            cases.push(mk(chip, "rdstatus", vec![s], 0));
        }
        for sf in 0..8 {
            cases.push(mk(chip, "cad", vec![sf], 0));
            for bw in 0..10 {
                for cr in 0..4 {
                    for &pr in &priors {
                        cases.push(mk(chip, "mod", vec![sf, bw, cr], pr));
                    }
                }
            }
        }
        for &pre in &[0i64, 1, 6, 8, 12, 255, 65535] {
            for hdr in [0, 1] {
                for crc in [0, 1] {
                    for iq in [0, 1] {
                        for &pr in if th { &priors[..] } else { &priors[..4] } {
                            for len in if th { (0..=255).collect::<Vec<i64>>() } else { vec![0, 1, 32, 254, 255] } {
                                for sf in [0i64, 2] {
                                    cases.push(mk(chip, "pkt", vec![pre, hdr, len, crc, iq, sf], pr));
                                }
                            }
                        }
                    }
                }
            }
        }
        for legacy in 0..=255 {
            cases.push(mk(chip, "sync", vec![legacy], 0));
        }
        for (t, r) in [(0, 0), (0, 128), (128, 0), (255, 255), (1, 2)] {
            cases.push(mk(chip, "base", vec![t, r], 0));
        }
        for len in 0..=255 {
            cases.push(mk(chip, "payload", vec![len, 7], 0));
        }
        cases.push(mk(chip, "rx", vec![-1], 0));
        for n in if th { (0..=65535).collect::<Vec<i64>>() } else { (0..=300).chain([1000, 65535]).collect() } {
            cases.push(mk(chip, "rx", vec![n], 0));
        }
        for f in [430_000_000i64, 434_000_000, 470_000_000, 490_000_000, 780_000_000, 868_100_000, 903_900_000, 928_000_000, 915_000_000, 169_000_000] {
            cases.push(mk(chip, "calimg", vec![f], 0));
        }
        for rq in -128..=127 {
            for ramp in [0, 1] {
                for &pr in &priors {
                    if chip == "sx1261" && pr != priors[0] {
                        continue;
                    }
                    cases.push(mk(chip, "power", vec![rq, ramp], pr));
                }
            }
            // ... with a carrier frequency on either side of the 400 MHz limit of the low-power PA
            for f in [169_400_000i64, 315_000_000, 399_999_999, 400_000_000, 433_175_000, 868_100_000, 915_000_000] {
                cases.push(mk(chip, "power", vec![rq, 1, f], priors[0]));
            }
        }
        // RX duty cycle: every byte of both periods takes every value at least once, and walking bits
        let mut periods: Vec<i64> = vec![0, 1, 0xFF, 0x100, 0xFFFF, 0x1_0000, 0xFF_FFFF, 0x12_3456, 300_000, 200_000, 1_280, 128_000];
        for i in 0..24 {
            periods.push(1 << i);
        }
        for b in 0..=255i64 {
            periods.push(b << 16 | (255 - b) << 8 | (b ^ 0x5A));
        }
        for &a in &periods {
            for &b in if th { &periods[..] } else { &periods[..40] } {
                cases.push(mk(chip, "rxdc", vec![a, b], 0));
            }
        }
    }
    for f in freqs(th) {
        cases.push(mk("sx1262", "freq", vec![f as i64], 0));
        cases.push(mk("sx1276", "freq", vec![f as i64], 0));
        cases.push(mk("sx1272", "freq", vec![f as i64], 0));
    }
    // depth-2: every read-modify-write operation after every other one (state reached, not primed)
    let rmw: Vec<Case> = vec![
        mk("sx1262", "mod", vec![7, 9, 0], 0x04),
        mk("sx1262", "mod", vec![2, 7, 0], 0xFB),
        mk("sx1262", "pkt", vec![8, 0, 32, 1, 1, 2], 0x04),
        mk("sx1262", "pkt", vec![8, 0, 32, 1, 0, 2], 0xFB),
        mk("sx1262", "power", vec![22, 1], 0x00),
        mk("sx1262", "power", vec![-9, 0], 0xFF),
        mk("sx1262", "mod", vec![7, 8, 0], 0x00),
        mk("sx1262", "sleep", vec![0], 0x00),
        mk("sx1262", "sleep", vec![1], 0x00),
        mk("sx1262", "standby", vec![], 0x00),
        mk("sx1262", "freq", vec![868_100_000], 0x00),
        mk("sx1262", "sync", vec![0x34], 0x00),
        mk("sx1262", "rx", vec![10], 0x00),
        mk("sx1262", "rx", vec![-1], 0x00),
        mk("sx1262", "cad", vec![2], 0x00),
        mk("sx1262", "tx", vec![], 0x00),
        mk("sx1262", "irq", vec![1], 0x00),
        mk("sx1262", "payload", vec![12, 7], 0x00),
    ];
    // (every ordered pair, on one driver instance: state kept inside the driver shows up here)
    for chip in ["sx1262", "sx1261", "stm32wl-hp"] {
        for a in &rmw {
            for b in &rmw {
                for &pr in if chip == "sx1262" { &priors[..] } else { &priors[..2.min(priors.len())] } {
                    let mut c = Case { prior: pr, chip: chip.into(), ..b.clone() };
                    c.pre = Some(Box::new(Case { prior: pr, chip: chip.into(), ..a.clone() }));
                    cases.push(c);
                }
            }
        }
    }
    // depth-3 on one driver instance: X ; M ; Y with M in {sleep cold, sleep warm, standby, chip reset} and Y the same
    // kind of operation as X (same parameters and others): whatever the driver remembers of X must not change what it
    // sends for Y (the stateless reference sends it in full every time)
    let chain = |chip: &str, x: &Case, m: &Case, y: &Case| -> Case {
        let mut xm = Case { chip: chip.into(), ..m.clone() };
        xm.pre = Some(Box::new(Case { chip: chip.into(), ..x.clone() }));
        let mut c = Case { chip: chip.into(), ..y.clone() };
        c.pre = Some(Box::new(xm));
        c
    };
    let mids126 = vec![mk("sx1262", "sleep", vec![0], 0), mk("sx1262", "sleep", vec![1], 0), mk("sx1262", "standby", vec![], 0), mk("sx1262", "reset", vec![], 0)];
    let mut stateful126 = rmw.clone();
    stateful126.extend([
        mk("sx1262", "freq", vec![868_300_000], 0x00),
        mk("sx1262", "power", vec![14, 1], 0x00),
        mk("sx1262", "power", vec![0, 1], 0x00),
        mk("sx1262", "sync", vec![0x12], 0x00),
        mk("sx1262", "base", vec![0, 0], 0x00),
        mk("sx1262", "base", vec![0x80, 0], 0x00),
        mk("sx1262", "rx", vec![300], 0x00),
        mk("sx1262", "irq", vec![3], 0x00),
        mk("sx1262", "calimg", vec![868_100_000], 0x00),
        mk("sx1262", "calimg", vec![433_100_000], 0x00),
    ]);
    for chip in ["sx1262", "sx1261", "stm32wl-hp"] {
        for x in &stateful126 {
            for m in &mids126 {
                for y in stateful126.iter().filter(|y| y.op == x.op) {
                    cases.push(chain(chip, x, m, y));
                }
            }
        }
    }
    let mids127 = vec![mk("sx1276", "none", vec![], 0), mk("sx1276", "reset", vec![], 0), mk("sx1276", "sleep", vec![0], 0), mk("sx1276", "sleep", vec![1], 0), mk("sx1276", "standby", vec![], 0)];
    let stateful127 = vec![
        mk("sx1276", "freq", vec![868_100_000], 0),
        mk("sx1276", "freq", vec![433_175_000], 0),
        mk("sx1276", "mod", vec![7, 7, 0], 0),
        mk("sx1276", "mod", vec![6, 7, 0], 0),
        mk("sx1276", "mod", vec![2, 9, 3], 0),
        mk("sx1276", "pkt", vec![8, 0, 32, 1], 0),
        mk("sx1276", "pkt", vec![8, 0, 32, 0], 0),
        mk("sx1276", "pkt", vec![12, 1, 200, 1], 0),
        mk("sx1276", "pkt", vec![8, 0, 32, 1, 1], 0),
        mk("sx1276", "pkt", vec![8, 0, 32, 0, 1], 0),
        mk("sx1276", "sync", vec![0x34], 0),
        mk("sx1276", "sync", vec![0x12], 0),
        mk("sx1276", "symbtimeout", vec![8], 0),
        mk("sx1276", "symbtimeout", vec![300], 0),
        mk("sx1276", "symbtimeout", vec![600], 0),
        mk("sx1276", "symbtimeout", vec![1023], 0),
        mk("sx1276", "power", vec![0], 0),
        mk("sx1276", "power", vec![2], 0),
        mk("sx1276", "power", vec![14], 0),
        mk("sx1276", "power", vec![17], 0),
        mk("sx1276", "power", vec![20], 0),
        mk("sx1276", "irq", vec![], 0),
    ];
    for chip in ["sx1276", "sx1276-boost", "sx1272", "sx1272-boost"] {
        for x in &stateful127 {
            for m in &mids127 {
                for y in stateful127.iter().filter(|y| y.op == x.op) {
                    cases.push(chain(chip, x, m, y));
                }
            }
        }
    }
    // SX127x (SX1276): chip-visible outcome
    for chip in ["sx1276", "sx1276-boost", "sx1272", "sx1272-boost"] {
        cases.push(mk(chip, "standby", vec![], 0));
        cases.push(mk(chip, "sleep", vec![], 0));
        for sf in 1..8 {
            for bw in 0..10 {
                for cr in 0..4 {
                    for &pr in &priors {
                        cases.push(mk(chip, "mod", vec![sf, bw, cr], pr));
                    }
                }
            }
        }
        for &pre in &[0i64, 6, 8, 255, 65535] {
            for hdr in [0, 1] {
                for crc in [0, 1] {
                    for len in [0i64, 1, 32, 255] {
                        for &pr in &priors {
                            cases.push(mk(chip, "pkt", vec![pre, hdr, len, crc], pr));
                        }
                    }
                }
            }
        }
        for legacy in 0..=255 {
            cases.push(mk(chip, "sync", vec![legacy], 0));
        }
        for len in 0..=255 {
            for pr in [0u8, 1, 0x40, 0x80, 0xFF] {
                cases.push(mk(chip, "payload", vec![len, 5], pr));
            }
        }
        for n in if th { (0..=65535).collect::<Vec<i64>>() } else { (0..=1100).chain([65535]).collect() } {
            cases.push(mk(chip, "symbtimeout", vec![n], 0));
        }
        // the two timeout MSBs share RegModemConfig2 with the spreading factor: every prior content of that register
        // (a longer window programmed earlier leaves its MSBs behind) at both sides of every 256-symbol boundary
        for n in [0i64, 4, 5, 19, 100, 255, 256, 257, 511, 512, 767, 768, 1022, 1023, 1024, 65535] {
            for pr in 1..=255u8 {
                cases.push(mk(chip, "symbtimeout", vec![n], pr));
            }
        }
        for rq in -128..=127 {
            for &pr in &priors {
                cases.push(mk(chip, "power", vec![rq], pr));
            }
        }
    }
    let compared = AtomicU64::new(0);
    let per_op: std::sync::Mutex<BTreeMap<String, (u64, u64, BTreeMap<String, u64>)>> = std::sync::Mutex::new(BTreeMap::new());
    // the C driver is reached through raw pointers: keep each comparison on one thread
    cases.par_chunks(512).for_each(|chunk| {
        let mut local: BTreeMap<String, (u64, u64, BTreeMap<String, u64>)> = BTreeMap::new();
        for c in chunk {
            let v = eval(c);
            let e = local.entry(format!("{}/{}", if c.chip.starts_with("sx127") { &c.chip[..6] } else { "sx126x" }, c.op)).or_default();
            if v.iter().any(|x| x.0 == "SKIP") {
                e.1 += 1;
                *e.2.entry(v[0].1.clone()).or_default() += 1;
                continue;
            }
            e.0 += 1;
            compared.fetch_add(1, Ordering::Relaxed);
            for (sig, what) in v {
                ctx.violation(sig, what, serde_json::to_value(c).unwrap(), c.p.len() + if c.pre.is_some() { 10 } else { 0 });
            }
        }
        ctx.tick(chunk.len() as u64);
        let mut g = per_op.lock().unwrap();
        for (k, v) in local {
            let e = g.entry(k).or_default();
            e.0 += v.0;
            e.1 += v.1;
            for (r, n) in v.2 {
                *e.2.entry(r).or_default() += n;
            }
        }
    });
    let per_op = per_op.into_inner().unwrap();
    let per_op_json: Value = per_op.iter().map(|(k, v)| (k.clone(), json!({"compared": v.0, "rejected_by_driver": v.1, "reject_reasons": v.2}))).collect::<serde_json::Map<_, _>>().into();
    for (k, v) in &per_op {
        if v.0 == 0 {
            eprintln!("C13 machinery failure: operation {k} was never compared ({:?})", v.2);
            std::process::exit(2);
        }
    }
    let coverage = json!({
        "programs": cases.len(),
        "disagreements_checked": compared.load(Ordering::Relaxed),
        "samples": [serde_json::to_value(&cases[10]).unwrap(), serde_json::to_value(&cases[cases.len() / 2]).unwrap(), serde_json::to_value(cases.last().unwrap()).unwrap()],
        "evaluations": ctx.evals(),
        "distinct_nontrivial": compared.load(Ordering::Relaxed),
        "per_operation": per_op_json,
        "rule": "per shared operation the full product of its parameter domain, run on the real lora-phy driver and on Semtech's SWL2001 C driver (smtc-modem-cores) from the same register state: sleep warm/cold, standby, RF frequency (every 100 Hz LoRaWAN channel in thorough + stride over 137-1020 MHz + every 1 Hz of a full 15 625 Hz rounding period in three bands), LoRa modulation parameters (SF x BW x CR x prior register values), packet parameters (preamble set x header x payload length x CRC x IQ x prior values), sync word (all 256), buffer base, buffer/FIFO writes of every length 0..255, TX start, IRQ masks per mode, IRQ clear, RX start with every symbol timeout (SX127x: boundary timeouts x all 256 prior contents of the shared register), CAD per SF, image calibration per band, TX continuous wave, PA configuration + TX parameters for every power -128..127 x ramp x prior values, status reads; depth-2 sequences of the read-modify-write operations; depth-3 sequences X ; {sleep cold, sleep warm, standby, chip reset} ; Y of the same kind of operation on one driver instance (SX126x against the reference; SX127x against a fresh instance of the driver on the same registers, which the single-operation comparison ties to the reference). SX126x: equality of the canonical wire form (opcode + parameters with trailing NOPs trimmed, total bytes clocked); SX127x: equality of the chip-visible outcome (register file subset stated per operation, FIFO stream)",
        "exhaustive": true,
    });
    let replayer = |cj: &Value| -> Vec<String> {
        let c: Case = serde_json::from_value(cj.clone()).unwrap();
        eval(&c).into_iter().map(|x| x.0).filter(|x| x != "SKIP").collect()
    };
    ctx.finish(
        "translation_validation",
        coverage,
        vec![
            "reference: Semtech SWL2001 drivers as packaged by smtc-modem-cores 0.2.1 (built from the cargo cache)".into(),
            "documented errata sequences are mirrored on the reference side as the repository's own comparison tests do (SX127x errata 2.3 with the modulation config; sync word low nibbles from reset values; OCP and IQ registers programmed at different call sites are excluded)".into(),
            "PA table and image-calibration band bytes are fed to the reference from the datasheet (SWL2001 leaves them to the BSP)".into(),
            "LR11xx and operations without a reference counterpart are not covered".into(),
        ],
        Some(&replayer),
    );
}
