//! Datasheet-level behavioural models of the SX126x and SX127x radios (command / register
//! decode, operating mode, IRQ flags, data buffer, "programmed since cold reset" tracking),
//! used as the environment of the real drivers.
use crate::phy::ChipModel;
use std::collections::{BTreeMap, BTreeSet};

/// What the chip does with the next TX / RX / CAD it is started on.
#[derive(Clone, Copy, Debug, PartialEq, Eq, Hash, serde::Serialize, serde::Deserialize)]
pub enum Outcome {
    Done,
    Timeout,
    CrcError,
    HeaderError,
    /// nothing happens (an interrupt line that fires is then spurious)
    Nothing,
    /// a false preamble detection, then the single-shot reception times out: the host finds both flags
    /// latched at once (continuous / duty-cycled reception: the detection alone)
    PreambleThenTimeout,
}

#[derive(Clone, Copy, Debug, PartialEq, Eq, Hash)]
pub enum Mode {
    SleepCold,
    SleepWarm,
    Standby,
    Fs,
    Tx,
    RxSingle,
    RxContinuous,
    RxDutyCycle,
    Cad,
    TxCw,
}

impl Mode {
    pub fn asleep(self) -> bool {
        matches!(self, Mode::SleepCold | Mode::SleepWarm)
    }
}

// ------------------------------------------------------------------ SX126x

pub struct Sx126xChip {
    pub mode: Mode,
    pub regs: BTreeMap<u16, u8>,
    pub buffer: [u8; 256],
    pub irq: u16,
    pub irq_mask: u16,
    pub rx_len: u8,
    pub rx_off: u8,
    pub pkt_status: [u8; 3],
    /// command status field (bits 3:1 of the status byte) reported by read commands
    pub cmd_status: u8,
    /// the scripted command status is reported by this opcode only (others: 1); None = by every command
    pub status_only_op: Option<u8>,
    /// after a GetPacketStatus answered with the scripted status: the next packet (length) has arrived and the
    /// status is back to normal
    pub rx_len_next: Option<u8>,
    pub rssi_inst: u8,
    pub outcome: Outcome,
    pub programmed: BTreeSet<&'static str>,
    /// protocol violations observed by the model
    pub violations: Vec<String>,
    pub tx_started: u32,
    pub rx_started: u32,
    pub cad_started: u32,
    /// what was missing from `programmed` at each TX/RX start
    pub missing_at_start: Vec<String>,
    pub rf_freq_word: u32,
    pub pa_config: [u8; 4],
    pub tx_params: [u8; 2],
    pub mod_params: [u8; 4],
    pub pkt_params: [u8; 6],
    pub symb_timeout: u8,
    pub default_reg: u8,
    pub commands: u64,
    /// outcomes are applied when the driver waits for the interrupt line instead of at the
    /// start command (the operation is in flight in between)
    pub deferred: bool,
    /// operation in flight: (opcode that started it, continuous reception)
    pub pending: Option<(u8, bool)>,
    /// interrupt-line wake-ups without any flag before the real one
    pub spurious: u8,
    /// board-dependent setup that must also be present at every start ("regulator", "tcxo")
    pub needed_extra: Vec<&'static str>,
    /// RX duty cycle: the chip may be in the sleep phase of the cycle until a GetStatus has woken it
    pub dc_woken: bool,
}

pub const SX126X_NEEDED_TX: [&str; 9] = ["packet_type", "sync_word", "buffer_base", "modulation", "packet_params", "irq_params", "frequency", "pa_config", "tx_params"];
pub const SX126X_NEEDED_RX: [&str; 7] = ["packet_type", "sync_word", "buffer_base", "modulation", "packet_params", "irq_params", "frequency"];

impl Sx126xChip {
    pub fn new() -> Self {
        let mut buffer = [0u8; 256];
        for (i, b) in buffer.iter_mut().enumerate() {
            *b = (i as u8).wrapping_mul(7).wrapping_add(3);
        }
        Sx126xChip {
            mode: Mode::Standby,
            regs: BTreeMap::new(),
            buffer,
            irq: 0,
            irq_mask: 0,
            rx_len: 0,
            rx_off: 0,
            pkt_status: [0; 3],
            cmd_status: 1,
            status_only_op: None,
            rx_len_next: None,
            rssi_inst: 0,
            outcome: Outcome::Done,
            programmed: BTreeSet::new(),
            violations: vec![],
            tx_started: 0,
            rx_started: 0,
            cad_started: 0,
            missing_at_start: vec![],
            rf_freq_word: 0,
            pa_config: [0; 4],
            tx_params: [0; 2],
            mod_params: [0; 4],
            pkt_params: [0; 6],
            symb_timeout: 0,
            default_reg: 0,
            commands: 0,
            deferred: false,
            pending: None,
            spurious: 0,
            needed_extra: vec![],
            dc_woken: false,
        }
    }

    fn cold_reset(&mut self) {
        self.regs.clear();
        self.programmed.clear();
        self.irq = 0;
        self.irq_mask = 0;
        self.mode = Mode::Standby;
        self.pending = None;
    }

    fn start(&mut self, op: u8, continuous: bool) {
        if self.deferred {
            self.pending = Some((op, continuous));
        } else {
            self.complete(op, continuous);
        }
    }

    /// The operation started by `op` runs to its `outcome`.
    fn complete(&mut self, op: u8, continuous: bool) {
        match op {
            0x83 => match self.outcome {
                Outcome::Done => {
                    self.irq |= 0x0001;
                    self.mode = Mode::Standby;
                }
                Outcome::Timeout => {
                    self.irq |= 0x0200;
                    self.mode = Mode::Standby;
                }
                _ => {}
            },
            0x82 | 0x94 => match self.outcome {
                Outcome::Done => {
                    self.irq |= 0x0002 | 0x0004 | 0x0008 | 0x0010;
                    if !continuous {
                        self.mode = Mode::Standby;
                    }
                }
                Outcome::CrcError => {
                    self.irq |= 0x0002 | 0x0004 | 0x0010 | 0x0040;
                    if !continuous {
                        self.mode = Mode::Standby;
                    }
                }
                Outcome::HeaderError => {
                    self.irq |= 0x0004 | 0x0020;
                    if !continuous && op != 0x94 {
                        // the single-shot reception then runs into its timeout
                        self.irq |= 0x0200;
                        self.mode = Mode::Standby;
                    }
                }
                Outcome::Timeout => {
                    if !continuous && op != 0x94 {
                        self.irq |= 0x0200;
                        self.mode = Mode::Standby;
                    }
                }
                Outcome::PreambleThenTimeout => {
                    self.irq |= 0x0004;
                    if !continuous && op != 0x94 {
                        self.irq |= 0x0200;
                        self.mode = Mode::Standby;
                    }
                }
                Outcome::Nothing => {}
            },
            0xC5 => match self.outcome {
                Outcome::Done => {
                    self.irq |= 0x0080 | 0x0100;
                    self.mode = Mode::Standby;
                }
                Outcome::Timeout | Outcome::CrcError | Outcome::HeaderError | Outcome::PreambleThenTimeout => {
                    self.irq |= 0x0080;
                    self.mode = Mode::Standby;
                }
                Outcome::Nothing => {}
            },
            _ => {}
        }
    }

    fn status(&self) -> u8 {
        let m = match self.mode {
            Mode::Standby => 2,
            Mode::Fs => 4,
            Mode::RxSingle | Mode::RxContinuous | Mode::RxDutyCycle | Mode::Cad => 5,
            Mode::Tx | Mode::TxCw => 6,
            _ => 0,
        };
        (m << 4) | ((self.cmd_status & 7) << 1)
    }

    fn check_start(&mut self, needed: &[&'static str], what: &str) {
        let missing: Vec<&str> = needed.iter().chain(self.needed_extra.iter()).copied().filter(|n| !self.programmed.contains(n)).collect();
        if !missing.is_empty() {
            self.missing_at_start.push(format!("{what} started without {}", missing.join(",")));
        }
    }
}

impl Default for Sx126xChip {
    fn default() -> Self {
        Self::new()
    }
}

impl ChipModel for Sx126xChip {
    fn reset(&mut self) {
        self.cold_reset();
    }

    fn busy(&self) -> bool {
        self.mode.asleep()
    }

    fn irq_wait(&mut self) -> bool {
        if !self.deferred {
            return true;
        }
        if self.spurious > 0 {
            self.spurious -= 1;
            return true;
        }
        if let Some((op, continuous)) = self.pending.take() {
            self.complete(op, continuous);
        }
        self.irq & self.irq_mask != 0
    }

    fn as_any(&mut self) -> &mut dyn std::any::Any {
        self
    }

    fn transact(&mut self, w: &[u8], read_len: usize) -> Vec<u8> {
        let op = w.first().copied();
        let saved = self.cmd_status;
        if let Some(o) = self.status_only_op
            && op != Some(o)
        {
            self.cmd_status = 1;
        }
        let r = self.transact_inner(w, read_len);
        self.cmd_status = saved;
        if op == Some(0x14)
            && let Some(n) = self.rx_len_next.take()
        {
            self.rx_len = n;
            self.cmd_status = 1;
            self.irq |= 0x0002; // RxDone of the second packet
        }
        r
    }
}

impl Sx126xChip {
    fn transact_inner(&mut self, w: &[u8], read_len: usize) -> Vec<u8> {
        self.commands += 1;
        let Some(&op) = w.first() else { return vec![0; read_len] };
        if self.mode.asleep() {
            // the falling edge of NSS wakes the chip; the command that does it is not executed
            let cold = self.mode == Mode::SleepCold;
            if op != 0xC0 {
                self.violations.push(format!("command {op:#04x} sent to the sleeping chip (lost)"));
            }
            if cold {
                self.cold_reset();
            }
            self.mode = Mode::Standby;
            return vec![self.status(); read_len];
        }
        if self.deferred && self.mode == Mode::RxDutyCycle && !self.dc_woken {
            // the chip alternates between RX and sleep: a command that hits the sleep phase is lost, so
            // anything that changes state has to be preceded by the GetStatus wake-up (reads are let through)
            match op {
                0xC0 => self.dc_woken = true,
                0x12 | 0x13 | 0x14 | 0x15 | 0x17 | 0x1D | 0x1E | 0x02 => {}
                _ => {
                    self.violations.push(format!("command {op:#04x} sent to a chip in RX duty cycle without the wake-up (lost if it hits the sleep phase)"));
                    return vec![self.status(); read_len];
                }
            }
        }
        let p = &w[1..];
        let g = |i: usize| p.get(i).copied().unwrap_or(0);
        match op {
            0xC0 => vec![self.status(); read_len],
            0x84 => {
                self.mode = if g(0) & 0x04 != 0 { Mode::SleepWarm } else { Mode::SleepCold };
                self.pending = None;
                vec![]
            }
            0x80 => {
                self.mode = Mode::Standby;
                self.pending = None;
                vec![]
            }
            0xC1 => {
                self.mode = Mode::Fs;
                vec![]
            }
            0x83 => {
                self.tx_started += 1;
                self.check_start(&SX126X_NEEDED_TX, "TX");
                self.mode = Mode::Tx;
                self.start(0x83, false);
                vec![]
            }
            0x82 | 0x94 => {
                self.rx_started += 1;
                self.check_start(&SX126X_NEEDED_RX, "RX");
                let timeout = ((g(0) as u32) << 16) | ((g(1) as u32) << 8) | g(2) as u32;
                let continuous = op == 0x82 && timeout == 0xFF_FFFF;
                self.dc_woken = false;
                self.mode = if op == 0x94 {
                    Mode::RxDutyCycle
                } else if continuous {
                    Mode::RxContinuous
                } else {
                    Mode::RxSingle
                };
                self.start(op, continuous);
                vec![]
            }
            0xC5 => {
                self.cad_started += 1;
                self.check_start(&["packet_type", "modulation", "frequency", "irq_params"], "CAD");
                self.mode = Mode::Cad;
                self.start(0xC5, false);
                vec![]
            }
            0xD1 => {
                self.mode = Mode::TxCw;
                vec![]
            }
            0x8A => {
                self.programmed.insert("packet_type");
                vec![]
            }
            0x86 => {
                self.rf_freq_word = u32::from_be_bytes([g(0), g(1), g(2), g(3)]);
                self.programmed.insert("frequency");
                vec![]
            }
            0x8E => {
                self.tx_params = [g(0), g(1)];
                self.programmed.insert("tx_params");
                vec![]
            }
            0x95 => {
                self.pa_config = [g(0), g(1), g(2), g(3)];
                self.programmed.insert("pa_config");
                vec![]
            }
            0x8F => {
                self.programmed.insert("buffer_base");
                vec![]
            }
            0x8B => {
                self.mod_params = [g(0), g(1), g(2), g(3)];
                self.programmed.insert("modulation");
                vec![]
            }
            0x8C => {
                self.pkt_params = [g(0), g(1), g(2), g(3), g(4), g(5)];
                self.regs.insert(0x0702, g(3));
                self.programmed.insert("packet_params");
                vec![]
            }
            0x08 => {
                self.irq_mask = u16::from_be_bytes([g(0), g(1)]);
                self.programmed.insert("irq_params");
                vec![]
            }
            0x96 => {
                self.programmed.insert("regulator");
                vec![]
            }
            0x97 => {
                self.programmed.insert("tcxo");
                vec![]
            }
            0xA0 => {
                self.symb_timeout = g(0);
                vec![]
            }
            0x02 => {
                let m = u16::from_be_bytes([g(0), g(1)]);
                self.irq &= !m;
                vec![]
            }
            0x0D => {
                let addr = u16::from_be_bytes([g(0), g(1)]);
                for (i, v) in p.iter().skip(2).enumerate() {
                    self.regs.insert(addr + i as u16, *v);
                }
                if addr == 0x0740 {
                    self.programmed.insert("sync_word");
                }
                vec![]
            }
            0x1D => {
                let addr = u16::from_be_bytes([g(0), g(1)]);
                (0..read_len).map(|i| *self.regs.get(&(addr + i as u16)).unwrap_or(&self.default_reg)).collect()
            }
            0x0E => {
                let off = g(0);
                for (i, v) in p.iter().skip(1).enumerate() {
                    self.buffer[(off as usize + i) % 256] = *v;
                }
                vec![]
            }
            0x1E => {
                let off = g(0);
                (0..read_len).map(|i| self.buffer[(off as usize + i) % 256]).collect()
            }
            0x12 => {
                let v = self.irq & self.irq_mask;
                let mut r = vec![self.status(), (v >> 8) as u8, v as u8];
                r.resize(read_len, 0);
                r
            }
            0x13 => {
                let mut r = vec![self.status(), self.rx_len, self.rx_off];
                r.resize(read_len, 0);
                r
            }
            0x14 => {
                let mut r = vec![self.status(), self.pkt_status[0], self.pkt_status[1], self.pkt_status[2]];
                r.resize(read_len, 0);
                r
            }
            0x15 => {
                let mut r = vec![self.status(), self.rssi_inst];
                r.resize(read_len, 0);
                r
            }
            _ => vec![self.status(); read_len],
        }
    }
}

// ------------------------------------------------------------------ SX127x

pub struct Sx127xChip {
    pub regs: [u8; 128],
    pub fifo: [u8; 256],
    pub sx1272: bool,
    pub outcome: Outcome,
    pub rx_len: u8,
    pub rx_off: u8,
    pub violations: Vec<String>,
    pub programmed: BTreeSet<&'static str>,
    pub missing_at_start: Vec<String>,
    pub tx_started: u32,
    pub rx_started: u32,
    pub cad_started: u32,
    pub commands: u64,
    pub deferred: bool,
    /// operation in flight: the RegOpMode mode that started it
    pub pending: Option<u8>,
    pub spurious: u8,
}

pub const SX127X_NEEDED_TX: [&str; 7] = ["lora_mode", "sync_word", "buffer_base", "modulation", "packet_params", "frequency", "pa_config"];
pub const SX127X_NEEDED_RX: [&str; 6] = ["lora_mode", "sync_word", "buffer_base", "modulation", "packet_params", "frequency"];

impl Sx127xChip {
    pub fn new(sx1272: bool) -> Self {
        let mut fifo = [0u8; 256];
        for (i, b) in fifo.iter_mut().enumerate() {
            *b = (i as u8).wrapping_mul(7).wrapping_add(3);
        }
        let mut c = Sx127xChip {
            regs: [0; 128],
            fifo,
            sx1272,
            outcome: Outcome::Done,
            rx_len: 0,
            rx_off: 0,
            violations: vec![],
            programmed: BTreeSet::new(),
            missing_at_start: vec![],
            tx_started: 0,
            rx_started: 0,
            cad_started: 0,
            commands: 0,
            deferred: false,
            pending: None,
            spurious: 0,
        };
        c.por();
        c
    }

    fn por(&mut self) {
        self.regs = [0; 128];
        self.regs[0x01] = 0x09; // FSK mode, standby
        self.regs[0x42] = if self.sx1272 { 0x22 } else { 0x12 };
        self.regs[0x0E] = 0x80;
        self.regs[0x0F] = 0x00;
        self.regs[0x31] = 0xC3;
        self.programmed.clear();
        self.pending = None;
    }

    fn start(&mut self, m: u8) {
        if self.deferred {
            self.pending = Some(m);
        } else {
            self.complete(m);
        }
    }

    /// masked interrupts never show up in RegIrqFlags
    fn raise(&mut self, bits: u8) {
        self.regs[0x12] |= bits & !self.regs[0x11];
    }

    fn complete(&mut self, m: u8) {
        match m {
            3 => {
                if self.outcome == Outcome::Done {
                    self.raise(0x08);
                    self.set_mode(1);
                }
            }
            5 | 6 => {
                let single = m == 6;
                match self.outcome {
                    Outcome::Done => {
                        self.raise(0x40 | 0x10);
                        self.regs[0x13] = self.rx_len;
                        self.regs[0x10] = self.rx_off;
                        if single {
                            self.set_mode(1);
                        }
                    }
                    Outcome::CrcError => {
                        self.raise(0x40 | 0x20 | 0x10);
                        self.regs[0x13] = self.rx_len;
                        self.regs[0x10] = self.rx_off;
                        if single {
                            self.set_mode(1);
                        }
                    }
                    Outcome::Timeout | Outcome::HeaderError | Outcome::PreambleThenTimeout => {
                        if single {
                            self.raise(0x80);
                            self.set_mode(1);
                        }
                    }
                    Outcome::Nothing => {}
                }
            }
            7 => {
                if self.outcome != Outcome::Nothing {
                    self.raise(0x04 | if self.outcome == Outcome::Done { 0x01 } else { 0 });
                    self.set_mode(1);
                }
            }
            _ => {}
        }
    }

    pub fn mode(&self) -> Mode {
        match self.regs[0x01] & 7 {
            0 => Mode::SleepCold,
            1 => Mode::Standby,
            2 | 4 => Mode::Fs,
            3 => Mode::Tx,
            5 => Mode::RxContinuous,
            6 => Mode::RxSingle,
            _ => Mode::Cad,
        }
    }

    fn set_mode(&mut self, m: u8) {
        self.regs[0x01] = (self.regs[0x01] & 0xF8) | (m & 7);
    }

    fn check_start(&mut self, needed: &[&'static str], what: &str) {
        let missing: Vec<&str> = needed.iter().copied().filter(|n| !self.programmed.contains(n)).collect();
        if !missing.is_empty() {
            self.missing_at_start.push(format!("{what} started without {}", missing.join(",")));
        }
    }

    fn write_reg(&mut self, addr: u8, v: u8) {
        match addr {
            0x00 => {
                if self.mode() == Mode::SleepCold {
                    self.violations.push("FIFO written while the chip is asleep".into());
                }
                let p = self.regs[0x0D];
                self.fifo[p as usize] = v;
                self.regs[0x0D] = p.wrapping_add(1);
            }
            0x01 => {
                // LongRangeMode can only be modified in sleep mode: otherwise the write of that bit is ignored
                if self.mode() == Mode::SleepCold {
                    self.regs[0x01] = v;
                } else {
                    self.regs[0x01] = (v & 0x7F) | (self.regs[0x01] & 0x80);
                }
                if self.regs[0x01] & 0x80 != 0 {
                    self.programmed.insert("lora_mode");
                } else {
                    self.programmed.remove("lora_mode");
                }
                self.pending = None;
                match self.regs[0x01] & 7 {
                    3 => {
                        self.tx_started += 1;
                        self.check_start(&SX127X_NEEDED_TX, "TX");
                        self.start(3);
                    }
                    m @ (5 | 6) => {
                        self.rx_started += 1;
                        self.check_start(&SX127X_NEEDED_RX, "RX");
                        self.start(m);
                    }
                    7 => {
                        self.cad_started += 1;
                        self.check_start(&["lora_mode", "modulation", "frequency"], "CAD");
                        self.start(7);
                    }
                    _ => {}
                }
            }
            0x12 => self.regs[0x12] &= !v, // write 1 to clear
            0x42 => {}                     // read-only
            a => {
                self.regs[a as usize & 0x7F] = v;
                match a {
                    0x06..=0x08 => {
                        self.programmed.insert("frequency");
                    }
                    0x09 => {
                        self.programmed.insert("pa_config");
                    }
                    0x0E | 0x0F => {
                        self.programmed.insert("buffer_base");
                    }
                    0x1D | 0x1E => {
                        self.programmed.insert("modulation");
                        self.programmed.insert("packet_params");
                    }
                    0x39 => {
                        self.programmed.insert("sync_word");
                    }
                    _ => {}
                }
            }
        }
    }

    fn read_reg(&mut self, addr: u8) -> u8 {
        match addr {
            0x00 => {
                if self.mode() == Mode::SleepCold {
                    self.violations.push("FIFO read while the chip is asleep".into());
                }
                let p = self.regs[0x0D];
                self.regs[0x0D] = p.wrapping_add(1);
                self.fifo[p as usize]
            }
            a => self.regs[a as usize & 0x7F],
        }
    }
}

impl ChipModel for Sx127xChip {
    fn reset(&mut self) {
        self.por();
    }
    fn irq_wait(&mut self) -> bool {
        if !self.deferred {
            return true;
        }
        if self.spurious > 0 {
            self.spurious -= 1;
            return true;
        }
        if let Some(m) = self.pending.take() {
            self.complete(m);
        }
        // the host watches DIO0 and DIO1 (GenericSx127xInterfaceVariant with its secondary interrupt pin): an unmasked
        // flag reaches it only through the event RegDioMapping1 routes to one of those pins (datasheet table 18:
        // DIO0 00 RxDone / 01 TxDone / 10 CadDone; DIO1 00 RxTimeout / 01 FhssChangeChannel / 10 CadDetected)
        let flags = self.regs[0x12] & !self.regs[0x11];
        let map = self.regs[0x40];
        let dio0 = match map >> 6 {
            0 => 0x40,
            1 => 0x08,
            2 => 0x04,
            _ => 0,
        };
        let dio1 = match (map >> 4) & 3 {
            0 => 0x80,
            1 => 0x02,
            2 => 0x01,
            _ => 0,
        };
        flags & (dio0 | dio1) != 0
    }
    fn as_any(&mut self) -> &mut dyn std::any::Any {
        self
    }
    fn transact(&mut self, w: &[u8], read_len: usize) -> Vec<u8> {
        self.commands += 1;
        let Some(&a) = w.first() else { return vec![0; read_len] };
        let addr = a & 0x7F;
        if a & 0x80 != 0 {
            // burst write: FIFO stays on address 0, other registers auto-increment
            for (i, v) in w[1..].iter().enumerate() {
                let ad = if addr == 0 { 0 } else { addr.wrapping_add(i as u8) & 0x7F };
                self.write_reg(ad, *v);
            }
            vec![]
        } else {
            (0..read_len)
                .map(|i| {
                    let ad = if addr == 0 { 0 } else { addr.wrapping_add(i as u8) & 0x7F };
                    self.read_reg(ad)
                })
                .collect()
        }
    }
}
