//! Regional parameters written from RP002-1.0.x (not derived from the crate under test).
//! Where RP002 revisions differ, or the crate deliberately implements a subset (no FSK /
//! LR-FHSS), the entry is a *set* of admissible answers and oracles only require membership.

#[derive(Clone, Copy, Debug, PartialEq, Eq)]
pub struct Dr {
    pub sf: u8,
    pub bw: u32,
}

pub fn is_fixed(region: &str) -> bool {
    region == "US915" || region == "AU915"
}

pub fn band(region: &str) -> (u32, u32) {
    match region {
        "EU868" => (863_000_000, 870_000_000),
        "EU433" => (433_050_000, 434_790_000),
        "IN865" => (865_000_000, 867_000_000),
        "AS923_1" | "AS923_2" | "AS923_3" => (915_000_000, 928_000_000),
        "AS923_4" => (917_000_000, 920_000_000),
        "US915" => (902_000_000, 928_000_000),
        "AU915" => (915_000_000, 928_000_000),
        _ => panic!("region"),
    }
}

fn as923_offset(region: &str) -> u32 {
    match region {
        "AS923_2" => 1_800_000,
        "AS923_3" => 6_600_000,
        "AS923_4" => 5_900_000,
        _ => 0,
    }
}

/// LoRa data rates the region defines (FSK / LR-FHSS / RFU entries are None).
pub fn dr(region: &str, d: u8) -> Option<Dr> {
    let l = |sf, bw| Some(Dr { sf, bw });
    match region {
        "EU868" | "EU433" | "AS923_1" | "AS923_2" | "AS923_3" | "AS923_4" => match d {
            0..=5 => l(12 - d, 125_000),
            6 => l(7, 250_000),
            _ => None,
        },
        "IN865" => match d {
            0..=5 => l(12 - d, 125_000),
            _ => None,
        },
        "US915" => match d {
            0..=3 => l(10 - d, 125_000),
            4 => l(8, 500_000),
            8..=13 => l(20 - d, 500_000),
            _ => None,
        },
        "AU915" => match d {
            0..=5 => l(12 - d, 125_000),
            6 => l(8, 500_000),
            8..=13 => l(20 - d, 500_000),
            _ => None,
        },
        _ => None,
    }
}

/// Index of the data rate with this modulation, if the region defines one.
pub fn dr_index(region: &str, sf: u8, bw: u32) -> Vec<u8> {
    (0..16).filter(|d| dr(region, *d) == Some(Dr { sf, bw })).collect()
}

/// Admissible maximum MACPayload sizes (no dwell time, not repeater compatible).
pub fn max_payload(region: &str, d: u8) -> Vec<u8> {
    match region {
        "EU868" | "IN865" => match d {
            0..=2 => vec![59],
            3 => vec![123],
            4..=7 => vec![250],
            _ => vec![],
        },
        "EU433" => match d {
            0 | 1 => vec![59],
            2 => vec![59, 123],
            3 => vec![123],
            4..=7 => vec![250],
            _ => vec![],
        },
        "AS923_1" | "AS923_2" | "AS923_3" | "AS923_4" => match d {
            0 | 1 => vec![59],
            2 | 3 => vec![123],
            4..=7 => vec![250],
            _ => vec![],
        },
        "US915" => match d {
            0 => vec![19],
            1 => vec![61],
            2 => vec![133],
            3 | 4 => vec![250],
            8 => vec![41, 61],
            9 => vec![117, 137],
            10..=13 => vec![230, 250],
            _ => vec![],
        },
        "AU915" => match d {
            0..=2 => vec![59],
            3 => vec![123],
            4..=6 => vec![250],
            8 => vec![41, 61],
            9 => vec![117, 137],
            10..=13 => vec![230, 250],
            _ => vec![],
        },
        _ => vec![],
    }
}

pub fn max_rx1_offset(region: &str) -> u8 {
    match region {
        "EU868" | "EU433" | "AU915" => 5,
        "US915" => 3,
        _ => 7,
    }
}

/// Admissible RX1 data rates for (uplink data rate, RX1DROffset). Entries the region maps to a
/// non-LoRa rate are returned too (callers then only require "some region-defined LoRa rate").
pub fn rx1_dr(region: &str, up: u8, off: u8) -> Vec<u8> {
    match region {
        "EU868" | "EU433" => vec![up.saturating_sub(off)],
        "IN865" | "AS923_1" | "AS923_2" | "AS923_3" | "AS923_4" => {
            let eff: i16 = match off {
                0..=5 => off as i16,
                6 => -1,
                _ => -2,
            };
            let raw = (up as i16 - eff).max(0);
            // RP002-1.0.x: MIN(5, MAX(MinDR, up - eff)); earlier revisions tabulate up to DR7
            let mut v = vec![raw.min(5) as u8, raw.min(7) as u8];
            v.dedup();
            v
        }
        "US915" => {
            let base: i16 = match up {
                0..=4 => 10 + up as i16,
                5 | 6 => 5 + up as i16, // LR-FHSS uplinks
                _ => return vec![8],
            };
            let hi = if up <= 4 { 13 } else { 11 };
            vec![(base - off as i16).clamp(8, hi) as u8]
        }
        "AU915" => {
            if up <= 6 {
                vec![(8 + up as i16 - off as i16).clamp(8, 13) as u8]
            } else {
                vec![8]
            }
        }
        _ => vec![],
    }
}

pub fn rx2_default(region: &str) -> (u32, u8) {
    match region {
        "EU868" => (869_525_000, 0),
        "EU433" => (434_665_000, 0),
        "IN865" => (866_550_000, 2),
        "AS923_1" | "AS923_2" | "AS923_3" | "AS923_4" => (923_200_000 - as923_offset(region), 2),
        _ => (923_300_000, 8),
    }
}

/// Default (join) channels of dynamic plans.
pub fn default_channels(region: &str) -> Vec<u32> {
    match region {
        "EU868" => vec![868_100_000, 868_300_000, 868_500_000],
        "EU433" => vec![433_175_000, 433_375_000, 433_575_000],
        "IN865" => vec![865_062_500, 865_402_500, 865_985_000],
        r if r.starts_with("AS923") => vec![923_200_000 - as923_offset(r), 923_400_000 - as923_offset(r)],
        _ => vec![],
    }
}

/// Uplink frequency of fixed-plan channel `ch` (0..72).
pub fn fixed_uplink(region: &str, ch: usize) -> u32 {
    let (b125, b500) = if region == "US915" { (902_300_000, 903_000_000) } else { (915_200_000, 915_900_000) };
    if ch < 64 { b125 + 200_000 * ch as u32 } else { b500 + 1_600_000 * (ch as u32 - 64) }
}

pub fn fixed_channel_of(region: &str, freq: u32) -> Option<usize> {
    (0..72).find(|c| fixed_uplink(region, *c) == freq)
}

/// RX1 frequency paired with fixed-plan channel `ch`.
pub fn fixed_downlink(ch: usize) -> u32 {
    923_300_000 + 600_000 * (ch as u32 % 8)
}

/// Admissible regional maximum EIRP values (dBm).
pub fn max_eirp(region: &str) -> Vec<i16> {
    match region {
        "EU868" | "AS923_1" | "AS923_2" | "AS923_3" | "AS923_4" => vec![16],
        "EU433" => vec![12, 16],
        _ => vec![30],
    }
}

/// Admissible highest valid TXPower index.
pub fn max_txpower_index(region: &str) -> Vec<u8> {
    match region {
        "EU868" | "AS923_1" | "AS923_2" | "AS923_3" | "AS923_4" => vec![7],
        "EU433" => vec![5],
        "IN865" => vec![10],
        _ => vec![10, 14],
    }
}

/// ChMaskCntl values the region defines (others are RFU).
pub fn chmaskcntl_defined(region: &str, cntl: u8) -> bool {
    if is_fixed(region) { cntl <= 7 } else { cntl == 0 || cntl == 6 }
}

/// Join data rates admissible on fixed-plan channel `ch`.
pub fn fixed_join_dr(region: &str, ch: usize) -> Vec<u8> {
    match (region, ch < 64) {
        ("US915", true) => vec![0],
        ("US915", false) => vec![4],
        (_, true) => vec![0, 2],
        (_, false) => vec![6],
    }
}

/// Data rates a fixed-plan channel carries.
pub fn fixed_channel_drs(region: &str, ch: usize) -> Vec<u8> {
    match (region, ch < 64) {
        ("US915", true) => vec![0, 1, 2, 3],
        ("US915", false) => vec![4],
        (_, true) => vec![0, 1, 2, 3, 4, 5],
        (_, false) => vec![6],
    }
}
