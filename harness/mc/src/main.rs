//! Entry point: `verif <cNN> [--tier quick|thorough] [--replay file]`.
mod checks;
mod chips;
mod cmds;
mod adev;
mod ctx;
mod dev;
mod explore;
mod phy;
mod refcodec;
mod refcrypto;
mod refmac;
mod refregion;
mod talloc;

#[global_allocator]
static GLOBAL: talloc::TAlloc = talloc::TAlloc;

use ctx::Tier;

fn main() {
    let args: Vec<String> = std::env::args().collect();
    if args.len() < 2 {
        eprintln!("usage: verif <c01..c20|selftest> [--tier quick|thorough] [--replay file]");
        std::process::exit(2);
    }
    let mut tier = match std::env::var("VERIF_TIER").as_deref() {
        Ok("thorough") => Tier::Thorough,
        _ => Tier::Quick,
    };
    let mut replay: Option<String> = None;
    let mut i = 2;
    while i < args.len() {
        match args[i].as_str() {
            "--tier" => {
                i += 1;
                tier = match args.get(i).map(|s| s.as_str()) {
                    Some("quick") => Tier::Quick,
                    Some("thorough") => Tier::Thorough,
                    _ => {
                        eprintln!("bad --tier");
                        std::process::exit(2)
                    }
                };
            }
            "--replay" => {
                i += 1;
                replay = args.get(i).cloned();
            }
            a => {
                eprintln!("unknown argument {a}");
                std::process::exit(2);
            }
        }
        i += 1;
    }
    ctx::install_panic_hook();
    // machinery self-test: a failure here is exit 2, never a verdict
    if let Err(e) = ctx::catch(refcrypto::self_test) {
        eprintln!("MACHINERY: reference crypto self-test failed: {e}");
        std::process::exit(2);
    }
    let id = args[1].to_lowercase();
    let r = ctx::catch(|| checks::dispatch(&id, tier, replay.as_deref()));
    match r {
        Ok(()) => {
            eprintln!("MACHINERY: check {id} returned without verdict");
            std::process::exit(2);
        }
        Err(e) => {
            eprintln!("MACHINERY: check {id} crashed: {e}");
            std::process::exit(2);
        }
    }
}
