//! Thread-caching global allocator. glibc malloc serialises all rayon workers on `main_arena`
//! in this sandbox (measured: 12 of 16 cores in futex); the checks allocate many small
//! vectors per case, so small blocks are served from per-thread size-class free lists that
//! are refilled from 256 KiB slabs obtained from the system allocator.
use std::alloc::{GlobalAlloc, Layout, System};
use std::cell::UnsafeCell;

const MIN_SHIFT: usize = 4; // 16 bytes
const MAX_SHIFT: usize = 16; // 64 KiB
const NCLASS: usize = MAX_SHIFT - MIN_SHIFT + 1;
const SLAB: usize = 256 * 1024;

struct Lists(UnsafeCell<[*mut u8; NCLASS]>);

thread_local! {
    static LISTS: Lists = const { Lists(UnsafeCell::new([std::ptr::null_mut(); NCLASS])) };
}

pub struct TAlloc;

#[inline]
fn class_of(size: usize) -> usize {
    let s = size.max(1 << MIN_SHIFT).next_power_of_two();
    s.trailing_zeros() as usize - MIN_SHIFT
}

unsafe impl GlobalAlloc for TAlloc {
    unsafe fn alloc(&self, l: Layout) -> *mut u8 {
        if l.size() > (1 << MAX_SHIFT) || l.align() > 16 {
            return unsafe { System.alloc(l) };
        }
        let c = class_of(l.size());
        let r = LISTS.try_with(|t| unsafe {
            let lists = &mut *t.0.get();
            let head = lists[c];
            if !head.is_null() {
                lists[c] = *(head as *mut *mut u8);
                return head;
            }
            let bs = 1usize << (c + MIN_SHIFT);
            let n = (SLAB / bs).max(1);
            let slab = System.alloc(Layout::from_size_align_unchecked(n * bs, 16));
            if slab.is_null() {
                return slab;
            }
            // thread blocks 1..n onto the free list, hand out block 0
            let mut prev: *mut u8 = std::ptr::null_mut();
            for i in (1..n).rev() {
                let b = slab.add(i * bs);
                *(b as *mut *mut u8) = prev;
                prev = b;
            }
            lists[c] = prev;
            slab
        });
        match r {
            Ok(p) => p,
            // thread-local storage already torn down: fall back to a class-sized system block
            Err(_) => unsafe { System.alloc(Layout::from_size_align_unchecked(1usize << (c + MIN_SHIFT), 16)) },
        }
    }

    unsafe fn dealloc(&self, p: *mut u8, l: Layout) {
        if l.size() > (1 << MAX_SHIFT) || l.align() > 16 {
            return unsafe { System.dealloc(p, l) };
        }
        let c = class_of(l.size());
        let _ = LISTS.try_with(|t| unsafe {
            let lists = &mut *t.0.get();
            *(p as *mut *mut u8) = lists[c];
            lists[c] = p;
        });
        // on TLS teardown the block is leaked (process is exiting)
    }
}
