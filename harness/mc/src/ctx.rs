//! Shared run context: violation collection, known-findings matching, evidence writer,
//! panic capture. Exit codes: 0 held / only known findings, 1 unlisted violation, 2 machinery.
use serde_json::{Value, json};
use std::collections::BTreeMap;
use std::sync::Mutex;
use std::sync::atomic::{AtomicU64, Ordering};
use std::time::Instant;

#[derive(Clone, Copy, PartialEq, Eq, Debug)]
pub enum Tier {
    Quick,
    Thorough,
}

impl Tier {
    pub fn name(self) -> &'static str {
        match self {
            Tier::Quick => "quick",
            Tier::Thorough => "thorough",
        }
    }
    pub fn thorough(self) -> bool {
        self == Tier::Thorough
    }
}

/// Tier name reported in the evidence and on the summary line when it differs from the exploration
/// tier (quick tiers that run the thorough alphabet because it is cheap enough).
pub static TIER_LABEL: std::sync::OnceLock<&'static str> = std::sync::OnceLock::new();

/// Set when the thorough tier of a check was asked for whose quick tier already runs the thorough
/// alphabet: the check then explores deeper still.
pub static DEEP: std::sync::atomic::AtomicBool = std::sync::atomic::AtomicBool::new(false);

pub fn deep() -> bool {
    DEEP.load(std::sync::atomic::Ordering::Relaxed)
}

pub fn tier_label(t: Tier) -> &'static str {
    TIER_LABEL.get().copied().unwrap_or(t.name())
}

pub struct Viol {
    pub what: String,
    pub case: Value,
    pub count: u64,
    /// size measure used to keep the smallest case per signature
    pub weight: usize,
}

pub struct Ctx {
    pub prop: &'static str,
    pub tier: Tier,
    pub seed: u64,
    pub start: Instant,
    pub viols: Mutex<BTreeMap<String, Viol>>,
    pub evals: AtomicU64,
    pub root: String,
    /// number of violation reports so far (all signatures)
    pub total_viol: AtomicU64,
}

/// Process-level caps: a run that exceeds them ends as a machinery failure (exit 2), never as a verdict.
fn spawn_watchdog(prop: &'static str, tier: Tier) {
    let rss_cap_gb: u64 = std::env::var("VERIF_RSS_CAP_GB").ok().and_then(|s| s.parse().ok()).unwrap_or(24);
    let wall_cap_s: u64 = std::env::var("VERIF_WALL_CAP_S").ok().and_then(|s| s.parse().ok()).unwrap_or(if tier.thorough() { 6 * 3600 } else { 3600 });
    let start = Instant::now();
    std::thread::spawn(move || {
        loop {
            std::thread::sleep(std::time::Duration::from_millis(500));
            if start.elapsed().as_secs() > wall_cap_s {
                eprintln!("MACHINERY: {prop} exceeded its wall-clock cap of {wall_cap_s} s");
                std::process::exit(2);
            }
            if let Ok(t) = std::fs::read_to_string("/proc/self/statm")
                && let Some(pages) = t.split_whitespace().nth(1).and_then(|x| x.parse::<u64>().ok())
                && pages * 4096 > rss_cap_gb << 30
            {
                eprintln!("MACHINERY: {prop} exceeded its memory cap of {rss_cap_gb} GiB resident");
                std::process::exit(2);
            }
        }
    });
}

thread_local! {
    static LAST_PANIC: std::cell::RefCell<Option<String>> = const { std::cell::RefCell::new(None) };
}

pub fn install_panic_hook() {
    std::panic::set_hook(Box::new(|info| {
        let loc = info
            .location()
            .map(|l| {
                // strip absolute prefix so signatures are stable across checkouts
                let f = l.file();
                let f = f.find("/repo/").map(|i| &f[i + 6..]).unwrap_or(f);
                format!("{}:{}", f, l.line())
            })
            .unwrap_or_else(|| "?".into());
        let msg = if let Some(s) = info.payload().downcast_ref::<&str>() {
            s.to_string()
        } else if let Some(s) = info.payload().downcast_ref::<String>() {
            s.clone()
        } else {
            "<non-string panic>".into()
        };
        LAST_PANIC.with(|p| *p.borrow_mut() = Some(format!("{loc}: {msg}")));
        if std::env::var_os("VERIF_SHOW_PANICS").is_some() {
            eprintln!("panic: {loc}: {msg}");
        }
    }));
}

/// Runs `f` catching unwinds; on panic returns `Err("file:line: message")`.
pub fn catch<T>(f: impl FnOnce() -> T) -> Result<T, String> {
    LAST_PANIC.with(|p| *p.borrow_mut() = None);
    match std::panic::catch_unwind(std::panic::AssertUnwindSafe(f)) {
        Ok(v) => Ok(v),
        Err(_) => Err(LAST_PANIC.with(|p| p.borrow_mut().take()).unwrap_or_else(|| "panic".into())),
    }
}

/// `file:line` part of a captured panic string (for signatures).
pub fn panic_site(p: &str) -> String {
    let mut it = p.splitn(3, ':');
    let f = it.next().unwrap_or("?");
    let l = it.next().unwrap_or("?");
    // line numbers move under unrelated edits; keep file + a short message class instead
    let msg = it.next().unwrap_or("").trim();
    let class: String = msg
        .chars()
        .map(|c| if c.is_ascii_digit() { '#' } else { c })
        .take(48)
        .collect();
    let _ = l;
    format!("{f}|{class}")
}

impl Ctx {
    pub fn new(prop: &'static str, tier: Tier) -> Self {
        let seed = std::env::var("VERIF_SEED").ok().and_then(|s| s.parse().ok()).unwrap_or(0);
        let root = std::env::var("VERIF_ROOT").unwrap_or_else(|_| "/verif".into());
        spawn_watchdog(prop, tier);
        Ctx {
            prop,
            tier,
            seed,
            start: Instant::now(),
            viols: Mutex::new(BTreeMap::new()),
            evals: AtomicU64::new(0),
            root,
            total_viol: AtomicU64::new(0),
        }
    }

    pub fn tick(&self, n: u64) {
        self.evals.fetch_add(n, Ordering::Relaxed);
    }

    pub fn evals(&self) -> u64 {
        self.evals.load(Ordering::Relaxed)
    }

    /// Record a violation. `sig` identifies the root cause (input tuple / call site);
    /// the smallest `weight` case is kept per signature.
    pub fn violation(&self, sig: impl Into<String>, what: impl Into<String>, case: Value, weight: usize) {
        let sig = sig.into();
        self.total_viol.fetch_add(1, Ordering::Relaxed);
        let mut g = self.viols.lock().unwrap();
        match g.get_mut(&sig) {
            Some(v) => {
                v.count += 1;
                if weight < v.weight {
                    v.weight = weight;
                    v.what = what.into();
                    v.case = case;
                }
            }
            None => {
                g.insert(sig, Viol { what: what.into(), case, count: 1, weight });
            }
        }
    }

    /// So many violations have been reported that exploring further only costs time and memory: explorers stop
    /// expanding (the run ends with the violations found so far; evidence says that it stopped early).
    pub fn saturated(&self) -> bool {
        self.total_viol.load(Ordering::Relaxed) > 300_000
    }

    pub fn n_viol_sigs(&self) -> usize {
        self.viols.lock().unwrap().len()
    }

    /// Writes evidence, prints KNOWN-FINDING / VIOLATION lines and exits.
    /// `replayer`: re-evaluates a stored case and returns the signatures it produces; each new
    /// violation is replayed twice and must reproduce its signature, else exit 2.
    pub fn finish(
        self,
        level: &str,
        mut coverage: Value,
        assumptions: Vec<String>,
        replayer: Option<&dyn Fn(&Value) -> Vec<String>>,
    ) -> ! {
        let known = load_known(&self.root);
        let viols = self.viols.into_inner().unwrap();
        let mut unlisted = 0usize;
        let mut known_hit = 0usize;
        let mut lines = Vec::new();
        let mut vsum = Vec::new();
        std::fs::create_dir_all(format!("{}/replays", self.root)).ok();
        for (sig, v) in &viols {
            let listed = known.iter().find(|k| k.property == self.prop && k.status == "known" && sig_match(&k.signature, sig));
            if let Some(k) = listed {
                known_hit += 1;
                lines.push(format!("KNOWN-FINDING: property={} {} [{}] ({} cases)", self.prop, k.what, sig, v.count));
                vsum.push(json!({"signature": sig, "known": true, "count": v.count}));
            } else {
                if let Some(rp) = replayer {
                    for round in 0..2 {
                        let sigs = rp(&v.case);
                        if !sigs.iter().any(|s| s == sig) {
                            eprintln!(
                                "MACHINERY: violation {} did not reproduce on replay round {} (got {:?})",
                                sig, round, sigs
                            );
                            std::process::exit(2);
                        }
                    }
                }
                unlisted += 1;
                let fname = format!(
                    "{}/replays/{}-{}.json",
                    self.root,
                    self.prop,
                    sanitize(sig)
                );
                let doc = json!({"property": self.prop, "signature": sig, "what": v.what, "count": v.count, "case": v.case});
                std::fs::write(&fname, serde_json::to_string_pretty(&doc).unwrap()).ok();
                lines.push(format!("VIOLATION property={} replay={}", self.prop, fname));
                eprintln!("  violation [{}]: {} ({} cases)", sig, v.what, v.count);
                vsum.push(json!({"signature": sig, "known": false, "count": v.count, "what": v.what}));
            }
        }
        let wall = self.start.elapsed().as_secs_f64();
        if let Some(o) = coverage.as_object_mut() {
            o.insert("violation_signatures".into(), Value::Array(vsum));
            o.insert("known_findings_matched".into(), json!(known_hit));
        }
        let ev = json!({
            "property_id": self.prop,
            "tier": tier_label(self.tier),
            "alphabet_tier": if deep() { "deep" } else { self.tier.name() },
            "seed": self.seed,
            "level": level,
            "coverage": coverage,
            "assumptions": assumptions,
            "wall_s": (wall * 1000.0).round() / 1000.0,
            "violations": unlisted,
        });
        // (VERIF_EVIDENCE_DIR: where a run against a deliberately broken tree leaves its evidence, so that the committed
        // files always describe the unchanged tree)
        let evdir = std::env::var("VERIF_EVIDENCE_DIR").unwrap_or_else(|_| format!("{}/evidence", self.root));
        std::fs::create_dir_all(&evdir).ok();
        let path = format!("{evdir}/{}.json", self.prop);
        if let Err(e) = std::fs::write(&path, serde_json::to_string_pretty(&ev).unwrap()) {
            eprintln!("MACHINERY: cannot write evidence {path}: {e}");
            std::process::exit(2);
        }
        for l in &lines {
            println!("{l}");
        }
        println!(
            "{} {} tier={} evaluations={} wall={:.1}s known_findings={} unlisted_violations={}",
            self.prop,
            if unlisted == 0 { "OK" } else { "FAIL" },
            tier_label(self.tier),
            self.evals.load(Ordering::Relaxed),
            wall,
            known_hit,
            unlisted
        );
        std::process::exit(if unlisted == 0 { 0 } else { 1 });
    }
}

fn sanitize(s: &str) -> String {
    let mut o: String = s.chars().map(|c| if c.is_ascii_alphanumeric() || c == '-' || c == '.' { c } else { '_' }).collect();
    o.truncate(120);
    o
}

pub struct Known {
    pub property: String,
    pub signature: String,
    pub status: String,
    pub what: String,
}

/// A known signature matches exactly, or by prefix when it ends with `*`.
fn sig_match(pat: &str, sig: &str) -> bool {
    if let Some(p) = pat.strip_suffix('*') {
        sig.starts_with(p)
    } else {
        pat == sig
    }
}

pub fn load_known(root: &str) -> Vec<Known> {
    let path = format!("{root}/known_findings.json");
    let Ok(txt) = std::fs::read_to_string(&path) else {
        return vec![];
    };
    let v: Value = match serde_json::from_str(&txt) {
        Ok(v) => v,
        Err(e) => {
            eprintln!("MACHINERY: {path} unreadable: {e}");
            std::process::exit(2);
        }
    };
    let mut out = vec![];
    for e in v["findings"].as_array().cloned().unwrap_or_default() {
        out.push(Known {
            property: e["property"].as_str().unwrap_or("").into(),
            signature: e["signature"].as_str().unwrap_or("").into(),
            status: e["status"].as_str().unwrap_or("").into(),
            what: e["what"].as_str().unwrap_or("").into(),
        });
    }
    out
}

pub fn hex(b: &[u8]) -> String {
    b.iter().map(|x| format!("{x:02x}")).collect()
}

pub fn unhex(s: &str) -> Vec<u8> {
    (0..s.len() / 2).map(|i| u8::from_str_radix(&s[2 * i..2 * i + 2], 16).unwrap()).collect()
}
