//! Executable reference model of what C08 states about MAC command handling: the effect a
//! fully acknowledged request must have, and which requests the regional rules make
//! unambiguously invalid. Written from LoRaWAN 1.0.x §5 and RP002 (via refregion).
use crate::refregion as rr;
use lorawan_device::verif::{VerifChannel, VerifMac};

#[derive(Clone, Debug, PartialEq, Eq)]
pub enum Req {
    /// a contiguous block of LinkADRReq: (dr, txpower, mask, cntl, nbtrans) each
    LinkAdrBlock(Vec<(u8, u8, u16, u8, u8)>),
    RxParamSetup { dl: u8, freq: u32 },
    DevStatus,
    NewChannel { idx: u8, freq: u32, drrange: u8 },
    RxTimingSetup { del: u8 },
    DlChannel { idx: u8, freq: u32 },
    /// commands the property does not speak about (answers unjudged)
    Other(u8),
}

impl Req {
    pub fn cid(&self) -> u8 {
        match self {
            Req::LinkAdrBlock(_) => 3,
            Req::RxParamSetup { .. } => 5,
            Req::DevStatus => 6,
            Req::NewChannel { .. } => 7,
            Req::RxTimingSetup { .. } => 8,
            Req::DlChannel { .. } => 0x0A,
            Req::Other(c) => *c,
        }
    }
    /// number of answers expected (a block is answered once per request)
    pub fn answers(&self) -> usize {
        match self {
            Req::LinkAdrBlock(b) => b.len(),
            Req::Other(_) => 0,
            _ => 1,
        }
    }
}

pub fn answer_len(cid: u8) -> Option<usize> {
    match cid {
        3 | 5 | 7 | 0x0A => Some(2),
        6 => Some(3),
        8 => Some(1),
        2 | 4 | 9 | 0x0D => Some(1), // LinkCheckReq / DutyCycleAns / TXParamSetupAns / DeviceTimeReq: no payload
        _ => None,
    }
}

/// Splits a downlink command stream into requests (leading well-formed prefix only).
pub fn parse_requests(region: &str, b: &[u8]) -> Vec<Req> {
    let fixed = rr::is_fixed(region);
    let mut out: Vec<Req> = vec![];
    let mut i = 0;
    while i < b.len() {
        let cid = b[i];
        let len = match cid {
            2 => 2,
            3 => 4,
            4 => 1,
            5 => 4,
            6 => 0,
            7 => 5,
            8 => 1,
            9 => 1,
            0x0A => 4,
            0x0D => 5,
            _ => break,
        };
        if i + 1 + len > b.len() {
            break;
        }
        let p = &b[i + 1..i + 1 + len];
        let f3 = |x: &[u8]| u32::from_le_bytes([x[0], x[1], x[2], 0]) * 100;
        match cid {
            3 => {
                let item = (p[0] >> 4, p[0] & 0x0f, u16::from_le_bytes([p[1], p[2]]), (p[3] >> 4) & 7, p[3] & 0x0f);
                if let Some(Req::LinkAdrBlock(v)) = out.last_mut() {
                    v.push(item);
                } else {
                    out.push(Req::LinkAdrBlock(vec![item]));
                }
                i += 1 + len;
                continue;
            }
            5 => out.push(Req::RxParamSetup { dl: p[0], freq: f3(&p[1..4]) }),
            6 => out.push(Req::DevStatus),
            7 if !fixed => out.push(Req::NewChannel { idx: p[0], freq: f3(&p[1..4]), drrange: p[4] }),
            8 => out.push(Req::RxTimingSetup { del: p[0] & 0x0f }),
            0x0A if !fixed => out.push(Req::DlChannel { idx: p[0], freq: f3(&p[1..4]) }),
            c => out.push(Req::Other(c)),
        }
        // a non-LinkADR command ends a block: make sure the next LinkADRReq starts a new one
        if let Some(Req::LinkAdrBlock(_)) = out.last() {
        } else if cid != 3 {
            // marker handled by pushing a different variant above
        }
        i += 1 + len;
    }
    out
}

/// The judged part of the MAC state.
#[derive(Clone, Debug, PartialEq, Eq)]
pub struct MState {
    pub data_rate: u8,
    /// admissible values of the commanded EIRP (None = never commanded)
    pub tx_power: Vec<Option<u8>>,
    pub mask: [u8; 9],
    pub rx1_dr_offset: u8,
    pub rx2_data_rate: Vec<Option<u8>>,
    pub rx2_frequency: Option<u32>,
    pub rx1_delay: u32,
    pub channels: [Option<VerifChannel>; 16],
}

impl MState {
    pub fn of(s: &VerifMac) -> MState {
        MState {
            data_rate: s.data_rate,
            tx_power: vec![s.tx_power],
            mask: s.region.channel_mask,
            rx1_dr_offset: s.rx1_dr_offset,
            rx2_data_rate: vec![s.rx2_data_rate],
            rx2_frequency: s.rx2_frequency,
            rx1_delay: s.rx1_delay,
            channels: s.region.channels,
        }
    }

    /// Differences between the model and the device (names of fields), mask compared only on
    /// bits that denote existing channels.
    pub fn diff(&self, region: &str, s: &VerifMac) -> Vec<String> {
        let mut v = vec![];
        if self.data_rate != s.data_rate {
            v.push(format!("data_rate model {} device {}", self.data_rate, s.data_rate));
        }
        if !self.tx_power.contains(&s.tx_power) {
            v.push(format!("tx_power model {:?} device {:?}", self.tx_power, s.tx_power));
        }
        if self.rx1_dr_offset != s.rx1_dr_offset {
            v.push(format!("rx1_dr_offset model {} device {}", self.rx1_dr_offset, s.rx1_dr_offset));
        }
        if !self.rx2_data_rate.contains(&s.rx2_data_rate) {
            v.push(format!("rx2_data_rate model {:?} device {:?}", self.rx2_data_rate, s.rx2_data_rate));
        }
        if self.rx2_frequency != s.rx2_frequency {
            v.push(format!("rx2_frequency model {:?} device {:?}", self.rx2_frequency, s.rx2_frequency));
        }
        if self.rx1_delay != s.rx1_delay {
            v.push(format!("rx1_delay model {} device {}", self.rx1_delay, s.rx1_delay));
        }
        if self.channels != s.region.channels {
            v.push("channels".to_string());
        }
        let relevant = |i: usize| -> bool { if rr::is_fixed(region) { i < 72 } else { i < 16 && self.channels[i].is_some() } };
        for i in 0..72 {
            if relevant(i) && (self.mask[i / 8] ^ s.region.channel_mask[i / 8]) & (1 << (i % 8)) != 0 {
                v.push(format!("channel_mask bit {i}: model {:02x?} device {:02x?}", self.mask, s.region.channel_mask));
                break;
            }
        }
        v
    }
}

pub fn tx_power_values(region: &str, idx: u8) -> Vec<Option<u8>> {
    let mut v = vec![];
    for e in rr::max_eirp(region) {
        let p = e - 2 * idx as i16;
        if p >= 0 {
            v.push(Some(p as u8));
            if region == "US915" {
                v.push(Some((p as u8).min(21)));
            }
        }
    }
    v
}

fn mask_after_block(region: &str, start: &[u8; 9], block: &[(u8, u8, u16, u8, u8)], chans: &[Option<VerifChannel>; 16]) -> Option<[u8; 9]> {
    let mut m = *start;
    for &(_, _, mask, cntl, _) in block {
        if !rr::chmaskcntl_defined(region, cntl) {
            return None;
        }
        let lo = mask as u8;
        let hi = (mask >> 8) as u8;
        if rr::is_fixed(region) {
            match cntl {
                0..=3 => {
                    m[2 * cntl as usize] = lo;
                    m[2 * cntl as usize + 1] = hi;
                }
                4 => m[8] = lo,
                5 => {
                    for i in 0..8 {
                        m[i] = if lo & (1 << i) != 0 { 0xFF } else { 0 };
                    }
                    m[8] = lo;
                }
                6 => {
                    for b in m.iter_mut().take(8) {
                        *b = 0xFF;
                    }
                    m[8] = lo;
                }
                _ => {
                    for b in m.iter_mut().take(8) {
                        *b = 0;
                    }
                    m[8] = lo;
                }
            }
        } else {
            match cntl {
                0 => {
                    m[0] = lo;
                    m[1] = hi;
                }
                _ => {
                    // 6: all defined channels on
                    for i in 0..16 {
                        if chans[i].is_some() {
                            m[i / 8] |= 1 << (i % 8);
                        }
                    }
                }
            }
        }
    }
    Some(m)
}

fn usable(region: &str, m: &[u8; 9], dr: u8, chans: &[Option<VerifChannel>; 16]) -> bool {
    if rr::is_fixed(region) {
        match rr::dr(region, dr) {
            Some(d) if d.bw == 500_000 => m[8] != 0,
            Some(_) => m[..8].iter().any(|b| *b != 0),
            None => false,
        }
    } else {
        (0..16).any(|i| chans[i].is_some() && m[i / 8] & (1 << (i % 8)) != 0)
    }
}

/// Why a request is unambiguously invalid in state `st` (None = valid or debatable).
pub fn must_nak(region: &str, st: &MState, r: &Req) -> Option<&'static str> {
    match r {
        Req::LinkAdrBlock(b) => {
            let &(dr, txp, _, _, _) = b.last().unwrap();
            if b.iter().any(|x| !rr::chmaskcntl_defined(region, x.3)) {
                return Some("rfu-chmaskcntl");
            }
            if dr != 15 && (rr::dr(region, dr).is_none() || dr > 7) {
                // uplink rates only; LR-FHSS / FSK indices are "defined but unimplemented": debatable
                let debatable = matches!((region, dr), ("EU868" | "EU433" | "IN865" | "AS923_1" | "AS923_2" | "AS923_3" | "AS923_4", 7) | ("EU868", 8..=11) | ("US915", 5 | 6) | ("AU915", 7));
                if !debatable {
                    return Some("undefined-datarate");
                }
            }
            if txp != 15 && txp > *rr::max_txpower_index(region).iter().max().unwrap() {
                return Some("undefined-txpower");
            }
            let m = mask_after_block(region, &st.mask, b, &st.channels)?;
            let eff_dr = if dr == 15 { st.data_rate } else { dr };
            if rr::dr(region, eff_dr).is_some() && !usable(region, &m, eff_dr, &st.channels) {
                return Some("mask-leaves-no-usable-channel");
            }
            None
        }
        Req::RxParamSetup { dl, freq } => {
            let (lo, hi) = rr::band(region);
            if *freq < lo || *freq > hi {
                return Some("rx2-frequency-out-of-band");
            }
            if (dl >> 4) & 7 > rr::max_rx1_offset(region) {
                return Some("rx1-offset-above-regional-maximum");
            }
            let d = dl & 0x0f;
            if d != 15 && rr::dr(region, d).is_none() {
                let debatable = matches!((region, d), ("EU868" | "EU433" | "IN865" | "AS923_1" | "AS923_2" | "AS923_3" | "AS923_4", 7) | ("IN865", 6) | ("EU868", 8..=11) | ("US915", 5 | 6) | ("AU915", 7));
                if !debatable {
                    return Some("undefined-rx2-datarate");
                }
            }
            None
        }
        Req::NewChannel { idx, freq, drrange } => {
            let nd = rr::default_channels(region).len() as u8;
            if *idx < nd {
                return Some("default-channel-is-read-only");
            }
            if *idx >= 16 {
                return Some("channel-index-out-of-range");
            }
            let (lo, hi) = rr::band(region);
            if *freq != 0 && (*freq < lo || *freq > hi) {
                return Some("channel-frequency-out-of-band");
            }
            if *freq != 0 {
                let (mn, mx) = (drrange & 0x0f, drrange >> 4);
                if mn > mx {
                    return Some("inverted-datarate-range");
                }
                if (mn..=mx).any(|d| d > 7 && rr::dr(region, d).is_none() && !(region == "EU868" && (8..=11).contains(&d))) {
                    return Some("datarate-range-undefined");
                }
            }
            None
        }
        Req::DlChannel { idx, freq } => {
            if *idx >= 16 || st.channels[*idx as usize].is_none() {
                return Some("downlink-frequency-for-undefined-channel");
            }
            let (lo, hi) = rr::band(region);
            if *freq < lo || *freq > hi {
                return Some("downlink-frequency-out-of-band");
            }
            None
        }
        _ => None,
    }
}

/// Applies the commanded effect of a fully acknowledged request to the model.
pub fn apply(region: &str, st: &mut MState, r: &Req) {
    match r {
        Req::LinkAdrBlock(b) => {
            let &(dr, txp, _, _, _) = b.last().unwrap();
            if dr != 15 {
                st.data_rate = dr;
            }
            if txp != 15 {
                st.tx_power = tx_power_values(region, txp);
            }
            if let Some(m) = mask_after_block(region, &st.mask, b, &st.channels) {
                st.mask = m;
            }
        }
        Req::RxParamSetup { dl, freq } => {
            st.rx2_frequency = Some(*freq);
            st.rx1_dr_offset = (dl >> 4) & 7;
            let d = dl & 0x0f;
            if d == 15 {
                // RFU value: keeping the current rate or storing 15 is not judged
                let mut v = st.rx2_data_rate.clone();
                v.push(Some(15));
                st.rx2_data_rate = v;
            } else {
                st.rx2_data_rate = vec![Some(d)];
            }
        }
        Req::RxTimingSetup { del } => {
            st.rx1_delay = if (2..=15).contains(del) { *del as u32 * 1000 } else { 1000 };
        }
        Req::NewChannel { idx, freq, drrange } => {
            let i = *idx as usize;
            if i < 16 {
                if *freq == 0 {
                    st.channels[i] = None;
                    st.mask[i / 8] &= !(1 << (i % 8));
                } else {
                    st.channels[i] = Some(VerifChannel { frequency: *freq, dr_range: *drrange, dl_frequency: None });
                    st.mask[i / 8] |= 1 << (i % 8);
                }
            }
        }
        Req::DlChannel { idx, freq } => {
            let i = *idx as usize;
            if i < 16
                && let Some(mut c) = st.channels[i]
            {
                c.dl_frequency = if *freq == c.frequency { None } else { Some(*freq) };
                st.channels[i] = Some(c);
            }
        }
        Req::DevStatus | Req::Other(_) => {}
    }
}

/// Full-acceptance status byte of an answer.
pub fn full_ack(cid: u8) -> Option<u8> {
    match cid {
        3 | 5 => Some(0x07),
        7 | 0x0A => Some(0x03),
        _ => None,
    }
}
