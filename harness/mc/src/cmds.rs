//! Downlink MAC command value domains (shared by C04 / C08 / C09).
use serde::{Deserialize, Serialize};

#[derive(Clone, Debug, Serialize, Deserialize, PartialEq, Eq, Hash)]
pub struct Cmd {
    pub name: String,
    pub bytes: Vec<u8>,
}

fn c(name: &str, bytes: Vec<u8>) -> Cmd {
    Cmd { name: name.into(), bytes }
}

pub fn freq_bytes(hz: u32) -> [u8; 3] {
    let v = (hz / 100).to_le_bytes();
    [v[0], v[1], v[2]]
}

/// 16-bit mask patterns: 0, each single bit, each single zero, all ones, low/high byte, pairs.
pub fn masks(full: bool) -> Vec<u16> {
    let mut v = vec![0x0000, 0xFFFF, 0x00FF, 0xFF00, 0x0007, 0x0003, 0x0001, 0x0100, 0x8000];
    if full {
        for i in 0..16 {
            v.push(1 << i);
            v.push(!(1u16 << i));
        }
        v.extend([0x0006, 0x0018, 0x5555, 0xAAAA]);
    }
    v.sort();
    v.dedup();
    v
}

/// Frequencies of interest for a region: 0, band edges +-100 Hz, mid band, max, default RX2.
pub fn freqs(region: &str) -> Vec<u32> {
    let (lo, hi, rx2): (u32, u32, u32) = match region {
        "EU868" => (863_000_000, 870_000_000, 869_525_000),
        "EU433" => (433_050_000, 434_790_000, 434_665_000),
        "IN865" => (865_000_000, 867_000_000, 866_550_000),
        "AS923_1" => (915_000_000, 928_000_000, 923_200_000),
        "AS923_2" => (915_000_000, 928_000_000, 921_400_000),
        "AS923_3" => (915_000_000, 928_000_000, 916_500_000),
        "AS923_4" => (917_000_000, 920_000_000, 917_300_000),
        "US915" => (902_000_000, 928_000_000, 923_300_000),
        _ => (915_000_000, 928_000_000, 923_300_000),
    };
    vec![0, lo - 100, lo, (lo + hi) / 2 / 100 * 100, hi, hi + 100, 0xFFFFFF * 100, rx2, 100]
}

pub fn link_adr(dr: u8, txp: u8, mask: u16, cntl: u8, nbtrans: u8, rfu: bool) -> Cmd {
    let red = ((rfu as u8) << 7) | ((cntl & 7) << 4) | (nbtrans & 0x0f);
    c("LinkADRReq", vec![0x03, (dr << 4) | (txp & 0x0f), mask as u8, (mask >> 8) as u8, red])
}

/// Full value domain of single commands (thorough) or a reduced one (quick).
pub fn single_commands(region: &str, full: bool) -> Vec<Cmd> {
    let mut v = vec![];
    // LinkADRReq
    let drs: Vec<u8> = (0..16).collect();
    let txps: Vec<u8> = if full { (0..16).collect() } else { vec![0, 1, 7, 8, 10, 14, 15] };
    let nbs: &[u8] = if full { &[0, 1, 15] } else { &[1] };
    for &dr in &drs {
        for &txp in &txps {
            for cntl in 0..8u8 {
                for &m in &masks(full) {
                    for &nb in nbs {
                        for rfu in if full { vec![false, true] } else { vec![false] } {
                            v.push(link_adr(dr, txp, m, cntl, nb, rfu));
                        }
                    }
                }
            }
        }
    }
    // RXParamSetupReq: all 256 DLSettings x frequencies
    for dl in 0..=255u8 {
        for f in freqs(region) {
            let fb = freq_bytes(f);
            v.push(c("RXParamSetupReq", vec![0x05, dl, fb[0], fb[1], fb[2]]));
        }
    }
    // RXTimingSetupReq / TXParamSetupReq / DutyCycleReq: all 256
    for x in 0..=255u8 {
        v.push(c("RXTimingSetupReq", vec![0x08, x]));
        v.push(c("TXParamSetupReq", vec![0x09, x]));
        v.push(c("DutyCycleReq", vec![0x04, x]));
    }
    // NewChannelReq: index 0..255 x frequencies x all 256 DrRange bytes (quick: boundary ranges)
    let idxs: Vec<u8> = if full { (0..=255).collect() } else { vec![0, 1, 2, 3, 7, 8, 15, 16, 17, 71, 72, 255] };
    let ranges: Vec<u8> = if full { (0..=255).collect() } else { vec![0x00, 0x50, 0x05, 0x55, 0x60, 0x70, 0xF0, 0xFF, 0x52, 0x77] };
    for &i in &idxs {
        for f in freqs(region) {
            let fb = freq_bytes(f);
            for &r in &ranges {
                v.push(c("NewChannelReq", vec![0x07, i, fb[0], fb[1], fb[2], r]));
            }
            v.push(c("DlChannelReq", vec![0x0A, i, fb[0], fb[1], fb[2]]));
        }
    }
    v.push(c("DevStatusReq", vec![0x06]));
    for m in [0u8, 1, 255] {
        v.push(c("LinkCheckAns", vec![0x02, m, m]));
        v.push(c("DeviceTimeAns", vec![0x0D, m, m, m, m, m]));
    }
    // every CID with 0..5 trailing bytes
    for cid in 0..=255u8 {
        for n in 0..=5usize {
            for fill in [0x00u8, 0xFF] {
                let mut b = vec![cid];
                b.extend(std::iter::repeat_n(fill, n));
                v.push(c("RawCid", b));
            }
        }
    }
    v
}

/// Blocks of 2-3 LinkADRReq (atomic block handling).
pub fn link_adr_blocks(full: bool) -> Vec<Cmd> {
    let mut v = vec![];
    let ms: Vec<u16> = if full { vec![0x0000, 0xFFFF, 0x0001, 0x00FF, 0xFF00] } else { vec![0x0000, 0xFFFF, 0x0001] };
    for c1 in 0..8u8 {
        for c2 in 0..8u8 {
            for &m1 in &ms {
                for &m2 in &ms {
                    for dr in [0u8, 3, 4, 5, 6, 8, 15] {
                        let mut b = link_adr(0, 0, m1, c1, 1, false).bytes;
                        b.extend(link_adr(dr, 15, m2, c2, 1, false).bytes);
                        v.push(c("LinkADRReq-block2", b.clone()));
                        if full && c1 == c2 {
                            b.extend(link_adr(dr, 1, m1, 0, 1, false).bytes);
                            v.push(c("LinkADRReq-block3", b));
                        }
                    }
                }
            }
        }
    }
    v
}

#[derive(Clone, Debug, Serialize, Deserialize, PartialEq, Eq, Hash)]
pub struct JaSpec {
    pub dl_settings: u8,
    pub rx_delay: u8,
    pub cflist: Option<Vec<u8>>,
}

/// JoinAccept contents: all 256 DLSettings x RxDelay 0..15 x CFList variants.
pub fn join_accepts(region: &str, full: bool) -> Vec<JaSpec> {
    let mut cfs: Vec<Option<Vec<u8>>> = vec![None];
    let f = freqs(region);
    let mk0 = |fs: [u32; 5], ty: u8| {
        let mut b = vec![];
        for x in fs {
            b.extend(freq_bytes(x));
        }
        b.push(ty);
        Some(b)
    };
    cfs.push(mk0([f[3], f[3] + 200_000, f[3] + 400_000, f[3] + 600_000, f[3] + 800_000], 0));
    cfs.push(mk0([0, 0, 0, 0, 0], 0));
    cfs.push(mk0([f[1], f[5], f[6], 100, f[3]], 0));
    let mk1 = |m: [u8; 9], ty: u8| {
        let mut b = m.to_vec();
        b.extend([0u8; 6]);
        b.push(ty);
        Some(b)
    };
    cfs.push(mk1([0; 9], 1));
    cfs.push(mk1([0xff; 9], 1));
    cfs.push(mk1([0, 0, 0, 0, 0, 0, 0, 0, 0xff], 1));
    cfs.push(mk1([1, 0, 0, 0, 0, 0, 0, 0, 0], 1));
    cfs.push(mk1([0, 0xff, 0, 0, 0, 0, 0, 0, 2], 1));
    cfs.push(mk1([0, 0, 0, 0, 0, 0, 0, 0xff, 0x80], 1));
    if full {
        for ty in [2u8, 3, 0x80, 0xFF] {
            cfs.push(mk1([0xAA; 9], ty));
        }
    } else {
        cfs.push(mk1([0xAA; 9], 0xFF));
    }
    let mut v = vec![];
    let delays: Vec<u8> = if full { (0..=15).collect() } else { vec![0, 1, 2, 15] };
    for dl in 0..=255u8 {
        for &d in &delays {
            for cf in &cfs {
                if !full && d != 1 && cf.is_some() {
                    continue;
                }
                v.push(JaSpec { dl_settings: dl, rx_delay: d, cflist: cf.clone() });
            }
        }
    }
    v
}
