//! Independent AES-128 (FIPS-197) and AES-CMAC (RFC 4493), written for this harness.
//! Shares no code with the `aes` / `cmac` crates used by the library under test.

fn xtime(a: u8) -> u8 {
    (a << 1) ^ if a & 0x80 != 0 { 0x1b } else { 0 }
}

fn gmul(mut a: u8, mut b: u8) -> u8 {
    let mut p = 0u8;
    for _ in 0..8 {
        if b & 1 != 0 {
            p ^= a;
        }
        a = xtime(a);
        b >>= 1;
    }
    p
}

struct Tables {
    sbox: [u8; 256],
    inv: [u8; 256],
    /// m[k][x] = x * k in GF(2^8) for k in {2,3,9,11,13,14} (indices 0..6), computed by gmul
    m: [[u8; 256]; 6],
}

fn tables() -> &'static Tables {
    use std::sync::OnceLock;
    static T: OnceLock<Tables> = OnceLock::new();
    T.get_or_init(|| {
        // S-box from the definition: multiplicative inverse in GF(2^8) followed by the affine map.
        let mut sbox = [0u8; 256];
        let mut inv = [0u8; 256];
        for x in 0..256usize {
            let xi = if x == 0 {
                0
            } else {
                let mut r = 0u8;
                for y in 1..256usize {
                    if gmul(x as u8, y as u8) == 1 {
                        r = y as u8;
                        break;
                    }
                }
                r
            };
            let mut s = xi;
            let mut v = xi;
            for _ in 0..4 {
                v = v.rotate_left(1);
                s ^= v;
            }
            s ^= 0x63;
            sbox[x] = s;
            inv[s as usize] = x as u8;
        }
        let mut m = [[0u8; 256]; 6];
        for (i, k) in [2u8, 3, 9, 11, 13, 14].iter().enumerate() {
            for x in 0..256usize {
                m[i][x] = gmul(x as u8, *k);
            }
        }
        Tables { sbox, inv, m }
    })
}

#[derive(Clone)]
pub struct Aes128 {
    rk: [[u8; 16]; 11],
}

impl Aes128 {
    pub fn new(key: &[u8; 16]) -> Self {
        let t = tables();
        let mut w = [[0u8; 4]; 44];
        for i in 0..4 {
            w[i].copy_from_slice(&key[4 * i..4 * i + 4]);
        }
        let mut rcon = 1u8;
        for i in 4..44 {
            let mut tmp = w[i - 1];
            if i % 4 == 0 {
                tmp.rotate_left(1);
                for b in tmp.iter_mut() {
                    *b = t.sbox[*b as usize];
                }
                tmp[0] ^= rcon;
                rcon = xtime(rcon);
            }
            for j in 0..4 {
                w[i][j] = w[i - 4][j] ^ tmp[j];
            }
        }
        let mut rk = [[0u8; 16]; 11];
        for r in 0..11 {
            for c in 0..4 {
                rk[r][4 * c..4 * c + 4].copy_from_slice(&w[4 * r + c]);
            }
        }
        Aes128 { rk }
    }

    fn add(s: &mut [u8; 16], k: &[u8; 16]) {
        for i in 0..16 {
            s[i] ^= k[i];
        }
    }

    pub fn encrypt(&self, block: &[u8; 16]) -> [u8; 16] {
        let t = tables();
        let mut s = *block;
        Self::add(&mut s, &self.rk[0]);
        for r in 1..=10 {
            for b in s.iter_mut() {
                *b = t.sbox[*b as usize];
            }
            // shift rows (state is column-major: s[4*c + r])
            let o = s;
            for c in 0..4 {
                for row in 0..4 {
                    s[4 * c + row] = o[4 * ((c + row) % 4) + row];
                }
            }
            if r != 10 {
                for c in 0..4 {
                    let a = [s[4 * c], s[4 * c + 1], s[4 * c + 2], s[4 * c + 3]];
                    let (m2, m3) = (&t.m[0], &t.m[1]);
                    s[4 * c] = m2[a[0] as usize] ^ m3[a[1] as usize] ^ a[2] ^ a[3];
                    s[4 * c + 1] = a[0] ^ m2[a[1] as usize] ^ m3[a[2] as usize] ^ a[3];
                    s[4 * c + 2] = a[0] ^ a[1] ^ m2[a[2] as usize] ^ m3[a[3] as usize];
                    s[4 * c + 3] = m3[a[0] as usize] ^ a[1] ^ a[2] ^ m2[a[3] as usize];
                }
            }
            Self::add(&mut s, &self.rk[r]);
        }
        s
    }

    pub fn decrypt(&self, block: &[u8; 16]) -> [u8; 16] {
        let t = tables();
        let mut s = *block;
        Self::add(&mut s, &self.rk[10]);
        for r in (0..10).rev() {
            // inverse shift rows
            let o = s;
            for c in 0..4 {
                for row in 0..4 {
                    s[4 * ((c + row) % 4) + row] = o[4 * c + row];
                }
            }
            for b in s.iter_mut() {
                *b = t.inv[*b as usize];
            }
            Self::add(&mut s, &self.rk[r]);
            if r != 0 {
                for c in 0..4 {
                    let a = [s[4 * c], s[4 * c + 1], s[4 * c + 2], s[4 * c + 3]];
                    let (m9, m11, m13, m14) = (&t.m[2], &t.m[3], &t.m[4], &t.m[5]);
                    let a = [a[0] as usize, a[1] as usize, a[2] as usize, a[3] as usize];
                    s[4 * c] = m14[a[0]] ^ m11[a[1]] ^ m13[a[2]] ^ m9[a[3]];
                    s[4 * c + 1] = m9[a[0]] ^ m14[a[1]] ^ m11[a[2]] ^ m13[a[3]];
                    s[4 * c + 2] = m13[a[0]] ^ m9[a[1]] ^ m14[a[2]] ^ m11[a[3]];
                    s[4 * c + 3] = m11[a[0]] ^ m13[a[1]] ^ m9[a[2]] ^ m14[a[3]];
                }
            }
        }
        s
    }

    /// AES-CMAC (RFC 4493), full 16-byte tag.
    pub fn cmac(&self, msg: &[u8]) -> [u8; 16] {
        fn dbl(b: &[u8; 16]) -> [u8; 16] {
            let mut o = [0u8; 16];
            for i in 0..16 {
                o[i] = (b[i] << 1) | if i < 15 { b[i + 1] >> 7 } else { 0 };
            }
            if b[0] & 0x80 != 0 {
                o[15] ^= 0x87;
            }
            o
        }
        let l = self.encrypt(&[0u8; 16]);
        let k1 = dbl(&l);
        let k2 = dbl(&k1);
        let n = if msg.is_empty() { 1 } else { msg.len().div_ceil(16) };
        let complete = !msg.is_empty() && msg.len() % 16 == 0;
        let mut x = [0u8; 16];
        for i in 0..n - 1 {
            for j in 0..16 {
                x[j] ^= msg[16 * i + j];
            }
            x = self.encrypt(&x);
        }
        let mut last = [0u8; 16];
        let tail = &msg[16 * (n - 1)..];
        if complete {
            last.copy_from_slice(tail);
            for j in 0..16 {
                last[j] ^= k1[j];
            }
        } else {
            last[..tail.len()].copy_from_slice(tail);
            last[tail.len()] = 0x80;
            for j in 0..16 {
                last[j] ^= k2[j];
            }
        }
        for j in 0..16 {
            x[j] ^= last[j];
        }
        self.encrypt(&x)
    }
}

fn h(s: &str) -> Vec<u8> {
    (0..s.len() / 2).map(|i| u8::from_str_radix(&s[2 * i..2 * i + 2], 16).unwrap()).collect()
}

/// Start-up self test against published vectors; a failure is a machinery error.
pub fn self_test() {
    // FIPS-197 Appendix C.1
    let k: [u8; 16] = h("000102030405060708090a0b0c0d0e0f").try_into().unwrap();
    let p: [u8; 16] = h("00112233445566778899aabbccddeeff").try_into().unwrap();
    let c: [u8; 16] = h("69c4e0d86a7b0430d8cdb78070b4c55a").try_into().unwrap();
    let a = Aes128::new(&k);
    assert_eq!(a.encrypt(&p), c, "FIPS-197 C.1 encrypt");
    assert_eq!(a.decrypt(&c), p, "FIPS-197 C.1 decrypt");
    // SP 800-38A F.1.1
    let k: [u8; 16] = h("2b7e151628aed2a6abf7158809cf4f3c").try_into().unwrap();
    let a = Aes128::new(&k);
    let p: [u8; 16] = h("6bc1bee22e409f96e93d7e117393172a").try_into().unwrap();
    let c: [u8; 16] = h("3ad77bb40d7a3660a89ecaf32466ef97").try_into().unwrap();
    assert_eq!(a.encrypt(&p), c);
    assert_eq!(a.decrypt(&c), p);
    // RFC 4493 examples 1-4
    let m = h("6bc1bee22e409f96e93d7e117393172aae2d8a571e03ac9c9eb76fac45af8e5130c81c46a35ce411e5fbc1191a0a52eff69f2445df4f9b17ad2b417be66c3710");
    assert_eq!(a.cmac(&m[..0]).to_vec(), h("bb1d6929e95937287fa37d129b756746"));
    assert_eq!(a.cmac(&m[..16]).to_vec(), h("070a16b46b4d4144f79bdd9dd04a287c"));
    assert_eq!(a.cmac(&m[..40]).to_vec(), h("dfa66747de9ae63030ca32611497c827"));
    assert_eq!(a.cmac(&m[..64]).to_vec(), h("51f0bebf7e3b9d92fc49741779363cfe"));
}
