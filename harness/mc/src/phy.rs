//! Environment for lora-phy: SPI device backed by a chip model, interface variant and delay
//! mocks with fault injection at every position, transaction log.
use embedded_hal_async::spi::{ErrorType, Operation, SpiDevice};
use lora_phy::DelayNs;
use lora_phy::mod_params::RadioError;
use lora_phy::mod_traits::InterfaceVariant;
use std::cell::RefCell;
use std::rc::Rc;

#[derive(Debug)]
pub struct SpiFault;
impl embedded_hal::spi::Error for SpiFault {
    fn kind(&self) -> embedded_hal::spi::ErrorKind {
        embedded_hal::spi::ErrorKind::Other
    }
}

/// One SPI transaction: bytes clocked out, bytes clocked in.
#[derive(Clone, Debug, PartialEq, Eq, Hash)]
pub struct Txn {
    pub w: Vec<u8>,
    pub r: Vec<u8>,
}

pub trait ChipModel {
    /// Reacts to one NSS-framed transaction: `w` = bytes written first, `read_len` = bytes then read.
    fn transact(&mut self, w: &[u8], read_len: usize) -> Vec<u8>;
    /// Hardware reset line pulsed.
    fn reset(&mut self) {}
    /// The driver waits for the interrupt line: time passes on the chip. Returns whether the
    /// line fires (false: the wait never completes).
    fn irq_wait(&mut self) -> bool {
        true
    }
    /// Level of the BUSY line (SX126x: high for as long as the chip sleeps).
    fn busy(&self) -> bool {
        false
    }
    fn as_any(&mut self) -> &mut dyn std::any::Any;
}

#[derive(Clone, Debug, PartialEq, Eq, Hash)]
pub enum IvOp {
    Reset,
    Busy,
    Irq,
    RfRx,
    RfTx,
    RfOff,
    Delay(u32),
}

pub struct PhyInner {
    pub chip: Box<dyn ChipModel>,
    pub log: Vec<Txn>,
    pub iv_log: Vec<IvOp>,
    /// position counter over all environment calls (SPI transactions, busy waits, IRQ waits, ...)
    pub pos: usize,
    /// the environment call at this position fails once (transient fault)
    pub fault_at: Option<usize>,
    /// the IRQ / busy wait at this position stays pending forever (to place a drop there)
    pub pend_at: Option<usize>,
    pub faulted: Option<(usize, &'static str)>,
    /// a wait that can never complete was entered (why)
    pub stuck: Option<&'static str>,
    /// the wait at `pend_at` was reached (the caller's drop lands there)
    pub pended: Option<(usize, &'static str)>,
    /// kind of every environment position consumed so far
    pub kinds: Vec<&'static str>,
    /// a call that consumes environment positions beyond this one does not return (panics; set by C18)
    pub budget_end: Option<usize>,
}

impl PhyInner {
    fn step(&mut self, what: &'static str) -> bool {
        let p = self.pos;
        if let Some(b) = self.budget_end
            && p > b
        {
            self.budget_end = None;
            panic!("environment-call budget exceeded: the call does not return");
        }
        self.pos += 1;
        self.kinds.push(what);
        if self.fault_at == Some(p) {
            self.faulted = Some((p, what));
            true
        } else {
            false
        }
    }
}

#[derive(Clone)]
pub struct Env(pub Rc<RefCell<PhyInner>>);

impl Env {
    pub fn new(chip: Box<dyn ChipModel>) -> Env {
        Env(Rc::new(RefCell::new(PhyInner { chip, log: vec![], iv_log: vec![], pos: 0, fault_at: None, pend_at: None, faulted: None, stuck: None, pended: None, kinds: vec![], budget_end: None })))
    }
    pub fn spi(&self) -> MockSpi {
        MockSpi(self.0.clone())
    }
    pub fn iv(&self) -> MockIv {
        MockIv(self.0.clone())
    }
    pub fn delay(&self) -> MockDelay {
        MockDelay(self.0.clone())
    }
    pub fn take_log(&self) -> Vec<Txn> {
        std::mem::take(&mut self.0.borrow_mut().log)
    }
    pub fn with_chip<T: 'static, R>(&self, f: impl FnOnce(&mut T) -> R) -> R {
        let mut g = self.0.borrow_mut();
        let c = g.chip.as_any().downcast_mut::<T>().expect("chip type");
        f(c)
    }
}

pub struct MockSpi(pub Rc<RefCell<PhyInner>>);

impl ErrorType for MockSpi {
    type Error = SpiFault;
}

impl MockSpi {
    /// Ok(false): the transaction is still outstanding (the caller's drop lands before it)
    fn run(&mut self, ops: &mut [Operation<'_, u8>]) -> Result<bool, SpiFault> {
        let mut g = self.0.borrow_mut();
        let p = g.pos;
        if g.step("spi") {
            return Err(SpiFault);
        }
        if g.pend_at == Some(p) {
            g.pended = Some((p, "spi"));
            return Ok(false);
        }
        let mut w = vec![];
        let mut rl = 0;
        for op in ops.iter() {
            match op {
                Operation::Write(b) => w.extend_from_slice(b),
                Operation::Read(b) => rl += b.len(),
                Operation::Transfer(r, wr) => {
                    w.extend_from_slice(wr);
                    rl += r.len();
                }
                Operation::TransferInPlace(b) => {
                    w.extend_from_slice(b);
                }
                Operation::DelayNs(_) => {}
            }
        }
        let resp = g.chip.transact(&w, rl);
        let mut cur = resp.iter().copied();
        for op in ops.iter_mut() {
            match op {
                Operation::Read(b) => {
                    for x in b.iter_mut() {
                        *x = cur.next().unwrap_or(0);
                    }
                }
                Operation::Transfer(r, _) => {
                    for x in r.iter_mut() {
                        *x = cur.next().unwrap_or(0);
                    }
                }
                _ => {}
            }
        }
        g.log.push(Txn { w, r: resp });
        Ok(true)
    }
}

impl SpiDevice<u8> for MockSpi {
    async fn transaction(&mut self, operations: &mut [Operation<'_, u8>]) -> Result<(), SpiFault> {
        if !self.run(operations)? {
            forever().await;
        }
        Ok(())
    }
}

pub struct MockIv(pub Rc<RefCell<PhyInner>>);

/// A future that never completes (a wait that is still outstanding when the caller drops it).
async fn forever() {
    std::future::pending::<()>().await
}

impl InterfaceVariant for MockIv {
    async fn reset(&mut self, _delay: &mut impl DelayNs) -> Result<(), RadioError> {
        let mut g = self.0.borrow_mut();
        g.iv_log.push(IvOp::Reset);
        if g.step("reset") {
            return Err(RadioError::Reset);
        }
        g.chip.reset();
        Ok(())
    }
    async fn wait_on_busy(&mut self) -> Result<(), RadioError> {
        let pend = {
            let mut g = self.0.borrow_mut();
            g.iv_log.push(IvOp::Busy);
            let p = g.pos;
            if g.step("busy") {
                return Err(RadioError::Busy);
            }
            if g.chip.busy() {
                g.stuck = Some("BUSY line of a sleeping chip");
                true
            } else if g.pend_at == Some(p) {
                g.pended = Some((p, "busy"));
                true
            } else {
                false
            }
        };
        if pend {
            forever().await;
        }
        Ok(())
    }
    async fn await_irq(&mut self) -> Result<(), RadioError> {
        let pend = {
            let mut g = self.0.borrow_mut();
            g.iv_log.push(IvOp::Irq);
            let p = g.pos;
            let fired = g.chip.irq_wait();
            if g.step("irq") {
                return Err(RadioError::Irq);
            }
            if g.pend_at == Some(p) {
                g.pended = Some((p, "irq"));
                true
            } else if !fired {
                g.stuck = Some("interrupt line that never fires");
                true
            } else {
                false
            }
        };
        if pend {
            forever().await;
        }
        Ok(())
    }
    async fn enable_rf_switch_rx(&mut self) -> Result<(), RadioError> {
        let mut g = self.0.borrow_mut();
        g.iv_log.push(IvOp::RfRx);
        if g.step("rfswitch") { Err(RadioError::RfSwitchRx) } else { Ok(()) }
    }
    async fn enable_rf_switch_tx(&mut self) -> Result<(), RadioError> {
        let mut g = self.0.borrow_mut();
        g.iv_log.push(IvOp::RfTx);
        if g.step("rfswitch") { Err(RadioError::RfSwitchTx) } else { Ok(()) }
    }
    async fn disable_rf_switch(&mut self) -> Result<(), RadioError> {
        let mut g = self.0.borrow_mut();
        g.iv_log.push(IvOp::RfOff);
        if g.step("rfswitch") { Err(RadioError::RfSwitchRx) } else { Ok(()) }
    }
}

pub struct MockDelay(pub Rc<RefCell<PhyInner>>);
impl DelayNs for MockDelay {
    async fn delay_ns(&mut self, ns: u32) {
        let pend = {
            let mut g = self.0.borrow_mut();
            g.iv_log.push(IvOp::Delay(ns));
            let p = g.pos;
            g.pos += 1;
            g.kinds.push("delay");
            if g.pend_at == Some(p) {
                g.pended = Some((p, "delay"));
                true
            } else {
                false
            }
        };
        if pend {
            forever().await;
        }
    }
}

/// A chip that only stores what it is told: a flat register answer function. Used by the
/// register-encoding checks (C15, C17) where no behaviour is needed.
pub struct PassiveChip {
    /// answer for a read transaction, given the written bytes
    pub answer: Box<dyn FnMut(&[u8], usize) -> Vec<u8>>,
}

impl ChipModel for PassiveChip {
    fn transact(&mut self, w: &[u8], read_len: usize) -> Vec<u8> {
        (self.answer)(w, read_len)
    }
    fn as_any(&mut self) -> &mut dyn std::any::Any {
        self
    }
}

pub fn passive(answer: impl FnMut(&[u8], usize) -> Vec<u8> + 'static) -> Env {
    Env::new(Box::new(PassiveChip { answer: Box::new(answer) }))
}
