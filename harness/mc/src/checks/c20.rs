//! C20 — a persisted session restores losslessly and never rewinds counters.
//! A snapshot/restore is performed at every state of a BFS over session histories (crash
//! point = every state); the restored device runs in lock-step with the original; structurally
//! mutated documents must be refused or yield a session on which everything stays panic-free.
use crate::checks::c07::base_downlinks;
use crate::checks::{load_case, replay_exit};
use crate::ctx::{Ctx, Tier, catch, hex, panic_site};
use crate::dev::*;
use crate::explore::{self, System, V};
use lorawan_device::mac::Session;
use lorawan_device::verif::{VerifMac, VerifMacState, VerifSession};
use rayon::prelude::*;
use serde::{Deserialize, Serialize};
use serde_json::{Value, json};
use std::collections::HashSet;
use std::sync::Mutex;
use std::sync::atomic::{AtomicU64, Ordering};

fn session_of(s: &VerifMac) -> Option<VerifSession> {
    match s.state {
        VerifMacState::Joined(j) => Some(j),
        _ => None,
    }
}

/// Events applied to both twins after the restore.
fn probe_events() -> Vec<Ev> {
    let fresh = Frame::Down { fcnt: Fcnt::Rel(1), confirmed: true, ack: false, fopts: vec![0x06], port: Some(3), payload: vec![1, 2, 3], tamper: Tamper::None };
    vec![
        Ev::Cycle { confirmed: false, port: 1, len: 2, rx1: None, rx2: None },
        Ev::Cycle { confirmed: true, port: 2, len: 1, rx1: Some(Frame::ReplayAccepted(0)), rx2: Some(Frame::ReplayAccepted(1)) },
        Ev::Cycle { confirmed: false, port: 1, len: 1, rx1: Some(fresh), rx2: None },
        Ev::Cycle { confirmed: false, port: 1, len: 1, rx1: None, rx2: None },
    ]
}

fn observe(core: &mut NbCore<14, 0>, e: &Ev) -> (Vec<Vec<u8>>, Vec<Resp>, Vec<(u8, Vec<u8>)>, Option<VerifSession>, Option<String>) {
    let mut tx = vec![];
    let mut resps = vec![];
    let mut dls = vec![];
    let mut panic = None;
    for m in core.apply(e) {
        if let Resp::Panic(p) = &m.resp {
            panic = Some(p.clone());
        }
        for op in &m.ops {
            if let RadioOp::Tx { bytes, .. } = op {
                tx.push(bytes.clone());
            }
        }
        // window times depend on the (unpersisted) MAC configuration: compare the kind only
        resps.push(match m.resp {
            Resp::TimeoutRequest(_) => Resp::TimeoutRequest(0),
            r => r,
        });
        dls.extend(m.downlinks);
    }
    (tx, resps, dls, session_of(&core.snap()), panic)
}

/// The persistence checks at one state of the original device.
fn persist_checks(orig: &mut NbCore<14, 0>, cfg: &DevCfg, history_replay: &dyn Fn() -> NbCore<14, 0>) -> Vec<V> {
    let mut out = vec![];
    let Some(sess) = orig.dev.get_session() else { return out };
    let before = session_of(&orig.snap()).unwrap();
    let doc = match catch(|| serde_json::to_string(sess)) {
        Ok(Ok(d)) => d,
        Ok(Err(e)) => return vec![V { sig: "C20|serialise-error".into(), what: e.to_string() }],
        Err(p) => return vec![V { sig: format!("C20|panic|serialise|{}", panic_site(&p)), what: p }],
    };
    let restored: Session = match catch(|| serde_json::from_str::<Session>(&doc)) {
        Ok(Ok(s)) => s,
        Ok(Err(e)) => return vec![V { sig: "C20|own-document-rejected".into(), what: format!("{e}: {doc}") }],
        Err(p) => return vec![V { sig: format!("C20|panic|deserialise|{}", panic_site(&p)), what: p }],
    };
    // (i) re-serialisation is identical
    match serde_json::to_string(&restored) {
        Ok(d2) if d2 != doc => out.push(V { sig: "C20|reserialised-document-differs".into(), what: format!("{doc}\n{d2}") }),
        Err(e) => out.push(V { sig: "C20|serialise-error".into(), what: e.to_string() }),
        _ => {}
    }
    // (i') the same document through the other ways an application may hand it over: a reader / byte slice (keys
    // cannot be borrowed), a generic JSON value (members re-ordered alphabetically), and with the members of every
    // object in reverse order — a JSON object is unordered
    let same = |name: &str, r: Result<Result<Session, String>, String>| -> Option<V> {
        match r {
            Err(p) => Some(V { sig: format!("C20|panic|deserialise-{name}|{}", panic_site(&p)), what: p }),
            Ok(Err(e)) => Some(V { sig: format!("C20|own-document-rejected|{name}"), what: format!("{e}: {doc}") }),
            Ok(Ok(s2)) => match serde_json::to_string(&s2) {
                Ok(d2) if d2 == doc => None,
                Ok(d2) => Some(V { sig: format!("C20|restored-session-differs|{name}"), what: format!("original {doc}
restored {d2}") }),
                Err(e) => Some(V { sig: "C20|serialise-error".into(), what: e.to_string() }),
            },
        }
    };
    fn reversed(v: &Value) -> String {
        match v {
            Value::Object(m) => format!("{{{}}}", m.iter().rev().map(|(k, x)| format!("{}:{}", Value::String(k.clone()), reversed(x))).collect::<Vec<_>>().join(",")),
            Value::Array(a) => format!("[{}]", a.iter().map(reversed).collect::<Vec<_>>().join(",")),
            x => x.to_string(),
        }
    }
    let generic: Option<Value> = serde_json::from_str(&doc).ok();
    out.extend(same("from_reader", catch(|| serde_json::from_reader::<_, Session>(doc.as_bytes()).map_err(|e| e.to_string()))));
    out.extend(same("from_slice", catch(|| serde_json::from_slice::<Session>(doc.as_bytes()).map_err(|e| e.to_string()))));
    if let Some(g) = generic {
        let g2 = g.clone();
        out.extend(same("from_value", catch(move || serde_json::from_value::<Session>(g2).map_err(|e| e.to_string()))));
        let rev = reversed(&g);
        out.extend(same("members-in-reverse-order", catch(|| serde_json::from_str::<Session>(&rev).map_err(|e| e.to_string()))));
    }
    if !out.is_empty() {
        return out;
    }
    // (ii) every field survives
    let mut twin: NbCore<14, 0> = NbCore::new(&DevCfg::abp(&cfg.region));
    twin.dev.set_session(restored);
    let after = session_of(&twin.snap()).unwrap();
    if after != before {
        let mut f = vec![];
        if after.fcnt_up != before.fcnt_up {
            f.push("fcnt_up");
        }
        if after.fcnt_down != before.fcnt_down {
            f.push("fcnt_down");
        }
        if after.adr_ack_cnt != before.adr_ack_cnt {
            f.push("adr_ack_cnt");
        }
        if after.pending != before.pending || after.pending_len != before.pending_len {
            f.push("pending_answers");
        }
        if after.owed_ack != before.owed_ack {
            f.push("owed_ack");
        }
        if after.confirmed != before.confirmed {
            f.push("confirmed");
        }
        if after.nwkskey != before.nwkskey || after.appskey != before.appskey || after.devaddr != before.devaddr {
            f.push("identity");
        }
        out.push(V { sig: format!("C20|field-lost|{}", f.join("+")), what: format!("before {before:?}\nafter  {after:?}") });
        return out;
    }
    // (ii') the async front-end restores through its constructor: the same session must come out of it
    let mut atwin: Option<crate::adev::ACore<14, 0>> = None;
    match catch(|| serde_json::from_str::<Session>(&doc)) {
        Ok(Ok(s2)) => {
            let mut acfg = DevCfg::abp(&cfg.region);
            acfg.fcnt_down = Some(before.fcnt_down);
            let at: crate::adev::ACore<14, 0> = crate::adev::ACore::with_session(&acfg, false, Some(s2));
            let after_a = session_of(&at.snap());
            if after_a != Some(before) {
                out.push(V { sig: "C20|field-lost|async-constructor".into(), what: format!("before {before:?}\nafter  {after_a:?}") });
                return out;
            }
            atwin = Some(at);
        }
        _ => {}
    }
    // (iii) twin lock-step: a second copy of the original (replayed history) vs the restored device
    let mut a = history_replay();
    let snap = a.snap();
    // (an application may just as well configure its device first and hand the session in afterwards: the session's
    // installation leaves the data rate and the ADR switch alone)
    if let Ok(Ok(s3)) = catch(|| serde_json::from_str::<Session>(&doc)) {
        let mut t2: NbCore<14, 0> = NbCore::new(&DevCfg::abp(&cfg.region));
        t2.dev.set_datarate(dr_of(snap.data_rate));
        t2.dev.set_adr(snap.adr_enabled);
        t2.dev.set_session(s3);
        let s2 = t2.snap();
        if s2.data_rate != snap.data_rate || s2.adr_enabled != snap.adr_enabled || session_of(&s2) != Some(before) {
            out.push(V {
                sig: "C20|set_session-disturbs-the-configuration".into(),
                what: format!("configured data rate {} / ADR {} before set_session; afterwards data rate {} / ADR {}, session {:?}", snap.data_rate, snap.adr_enabled, s2.data_rate, s2.adr_enabled, session_of(&s2)),
            });
            return out;
        }
    }
    // the async twin takes part in the first probe (a plain uplink) when its ADR flag needs no change (switching ADR
    // off resets the ADR counter by design and the async front-end has no set_session to undo that)
    if let Some(at) = atwin.as_mut() {
        if snap.adr_enabled {
            at.dev.set_datarate(dr_of(snap.data_rate));
        } else {
            atwin = None;
        }
    }
    twin.dev.set_datarate(dr_of(snap.data_rate));
    twin.dev.set_adr(snap.adr_enabled);
    // set_adr(false) resets the ADR counter by design: re-install the session afterwards
    if !snap.adr_enabled
        && let Ok(Ok(s2)) = catch(|| serde_json::from_str::<Session>(&doc))
    {
        twin.dev.set_session(s2);
    }
    twin.net = a.net.clone();
    for (i, e) in probe_events().iter().enumerate() {
        let oa = observe(&mut a, e);
        let ob = observe(&mut twin, e);
        if let Some(p) = oa.4.as_ref().or(ob.4.as_ref()) {
            out.push(V { sig: format!("C20|panic|after-restore|{}", panic_site(p)), what: p.clone() });
            return out;
        }
        if i == 0
            && let Some(at) = atwin.as_mut()
            && let Ev::Cycle { confirmed, port, len, .. } = e
        {
            let st = at.apply(&crate::adev::AEv::Send { confirmed: *confirmed, port: *port, len: *len, script: Default::default() });
            let txa: Vec<Vec<u8>> = st.map(|s| s.ops.iter().filter_map(|o| if let crate::adev::AOp::Tx { bytes, .. } = o { Some(bytes.clone()) } else { None }).collect()).unwrap_or_default();
            if txa != oa.0 {
                out.push(V {
                    sig: "C20|restored-device-uplink-differs|async-constructor".into(),
                    what: format!("original sends {:?}, a device constructed around the restored session sends {:?}", oa.0.iter().map(|b| hex(b)).collect::<Vec<_>>(), txa.iter().map(|b| hex(b)).collect::<Vec<_>>()),
                });
                return out;
            }
        }
        if oa.0 != ob.0 {
            out.push(V {
                sig: format!("C20|restored-device-uplink-differs|probe{i}"),
                what: format!("original sends {:?}, restored sends {:?}", oa.0.iter().map(|b| hex(b)).collect::<Vec<_>>(), ob.0.iter().map(|b| hex(b)).collect::<Vec<_>>()),
            });
            return out;
        }
        if oa.1 != ob.1 || oa.2 != ob.2 {
            out.push(V { sig: format!("C20|restored-device-response-differs|probe{i}"), what: format!("original {:?} {:?}, restored {:?} {:?}", oa.1, oa.2, ob.1, ob.2) });
            return out;
        }
        if oa.3 != ob.3 {
            out.push(V { sig: format!("C20|restored-device-session-differs|probe{i}"), what: format!("original {:?}\nrestored {:?}", oa.3, ob.3) });
            return out;
        }
    }
    out
}

pub struct Sys {
    core: NbCore<14, 0>,
    cfg: DevCfg,
    hist: Vec<Ev>,
    outcome: String,
    pub last_doc: Option<String>,
}

impl Sys {
    pub fn new(cfg: &DevCfg) -> Self {
        Sys { core: NbCore::new(cfg), cfg: cfg.clone(), hist: vec![], outcome: String::new(), last_doc: None }
    }
}

fn alphabet(region: &str) -> Vec<Ev> {
    let mut v = vec![
        Ev::Cycle { confirmed: false, port: 1, len: 1, rx1: None, rx2: None },
        Ev::Cycle { confirmed: true, port: 1, len: 3, rx1: None, rx2: None },
    ];
    for f in base_downlinks(region) {
        v.push(Ev::Cycle { confirmed: false, port: 1, len: 1, rx1: Some(f.clone()), rx2: None });
    }
    // pending answers of 3, 6, ... 15 bytes (k DevStatusAns), through FOpts and port 0
    for k in [1usize, 3, 5] {
        v.push(Ev::Cycle {
            confirmed: false,
            port: 1,
            len: 1,
            rx1: None,
            rx2: Some(Frame::Down { fcnt: Fcnt::Rel(1), confirmed: k == 5, ack: false, fopts: vec![], port: Some(0), payload: vec![0x06; k], tamper: Tamper::None }),
        });
    }
    // sticky + one-shot mix filling the budget exactly
    v.push(Ev::Cycle {
        confirmed: false,
        port: 1,
        len: 1,
        rx1: Some(Frame::Down { fcnt: Fcnt::Rel(2), confirmed: false, ack: false, fopts: vec![], port: Some(0), payload: vec![0x08, 0x02, 0x06, 0x06, 0x06, 0x06, 0x08, 0x03, 0x08, 0x04], tamper: Tamper::None }),
        rx2: None,
    });
    // answers that overflow the 15-byte budget while a sticky one fits (RXTimingSetupAns + 5 DevStatusAns = 16 bytes;
    // RXParamSetupAns + RXTimingSetupAns + 5 DevStatusAns): what the overflow leaves behind in RAM is not in the document
    for pl in [vec![0x08u8, 0x02, 0x06, 0x06, 0x06, 0x06, 0x06], vec![0x06, 0x06, 0x06, 0x06, 0x08, 0x03, 0x06, 0x06]] {
        v.push(Ev::Cycle {
            confirmed: false,
            port: 1,
            len: 1,
            rx1: Some(Frame::Down { fcnt: Fcnt::Rel(1), confirmed: false, ack: false, fopts: vec![], port: Some(0), payload: pl, tamper: Tamper::None }),
            rx2: None,
        });
    }
    // the network's very first downlink carries counter 0 (only acceptable while no downlink has been seen)
    v.push(Ev::Cycle {
        confirmed: false,
        port: 1,
        len: 1,
        rx1: Some(Frame::Down { fcnt: Fcnt::Abs(0), confirmed: true, ack: false, fopts: vec![], port: Some(2), payload: vec![7], tamper: Tamper::None }),
        rx2: None,
    });
    v.push(Ev::SetAdr(false));
    v
}

impl System for Sys {
    type Ev = Ev;
    type Key = (VerifMac, String);

    fn enabled(&self) -> Vec<Ev> {
        alphabet(&self.cfg.region)
    }

    fn step(&mut self, ev: &Ev) -> Vec<V> {
        let mut out = vec![];
        for m in self.core.apply(ev) {
            if let Resp::Panic(p) = &m.resp {
                out.push(V { sig: format!("C20|panic|{}", panic_site(p)), what: p.clone() });
                return out;
            }
            self.outcome = short_resp(&m.resp);
        }
        self.hist.push(ev.clone());
        let cfg = self.cfg.clone();
        let hist = self.hist.clone();
        let replay = move || {
            let mut c: NbCore<14, 0> = NbCore::new(&cfg);
            for e in &hist {
                c.apply(e);
            }
            c
        };
        self.last_doc = self.core.dev.get_session().and_then(|s| serde_json::to_string(s).ok());
        out.extend(persist_checks(&mut self.core, &self.cfg, &replay));
        out
    }

    fn key(&self) -> Self::Key {
        (self.core.snap(), format!("{:?}", self.core.st()))
    }
    fn alive(&self) -> bool {
        self.core.dead.is_none()
    }
    fn outcome(&self) -> String {
        self.outcome.clone()
    }
}

// ------------------------------------------------------------------ the async front-end as the original

/// Histories on the async device (uplinks with / without downlinks that leave an ACK owed or a sticky answer, and
/// uplinks during which one radio call fails); at every state the session is persisted, a second async device is
/// constructed around the restored session, and both run the same probe uplinks.
pub struct SysA {
    core: crate::adev::ACore<14, 0>,
    cfg: DevCfg,
    class_c: bool,
    hist: Vec<crate::adev::AEv>,
    outcome: String,
}

impl SysA {
    pub fn new(cfg: &DevCfg, class_c: bool) -> Self {
        SysA { core: crate::adev::ACore::new(cfg, class_c), cfg: cfg.clone(), class_c, hist: vec![], outcome: String::new() }
    }
}

fn a_alphabet() -> Vec<crate::adev::AEv> {
    use crate::adev::{AEv, Script};
    let dl = |confirmed: bool, fopts: Vec<u8>| Frame::Down { fcnt: Fcnt::Rel(1), confirmed, ack: false, fopts, port: Some(1), payload: vec![5], tamper: Tamper::None };
    let send = |confirmed: bool, script: Script| AEv::Send { confirmed, port: 1, len: 1, script };
    let mut v = vec![
        send(false, Script::default()),
        send(true, Script::default()),
        send(false, Script { rx1: Some(dl(true, vec![])), ..Default::default() }),
        send(false, Script { rx2: Some(dl(false, vec![0x08, 0x02])), ..Default::default() }),
        send(false, Script { rx1: Some(dl(true, vec![0x06])), ..Default::default() }),
    ];
    // one radio call of the uplink fails (tx, RX1 set-up, RX1, ...)
    for k in 0..4usize {
        v.push(send(false, Script { fault_at: Some(k), ..Default::default() }));
    }
    v
}

fn a_tx(st: &Option<crate::adev::AStep>) -> (Vec<Vec<u8>>, String, Option<VerifSession>) {
    match st {
        Some(s) => (
            s.ops.iter().filter_map(|o| if let crate::adev::AOp::Tx { bytes, .. } = o { Some(bytes.clone()) } else { None }).collect(),
            crate::adev::short_aresp(&s.resp),
            session_of(&s.after),
        ),
        None => (vec![], "dead".into(), None),
    }
}

impl System for SysA {
    type Ev = crate::adev::AEv;
    type Key = (VerifMac, usize);

    fn enabled(&self) -> Vec<Self::Ev> {
        a_alphabet()
    }

    fn step(&mut self, ev: &Self::Ev) -> Vec<V> {
        use crate::adev::{ACore, AEv, AResp, Script};
        let mut out = vec![];
        match self.core.apply(ev) {
            Some(st) => {
                if let AResp::Panic(p) = &st.resp {
                    return vec![V { sig: format!("C20|async|panic|{}", panic_site(p)), what: p.clone() }];
                }
                self.outcome = crate::adev::short_aresp(&st.resp);
            }
            None => return out,
        }
        self.hist.push(ev.clone());
        let Some(sess) = self.core.dev.get_session() else { return out };
        let Ok(doc) = serde_json::to_string(sess) else { return vec![V { sig: "C20|serialise-error".into(), what: "async".into() }] };
        let restored: Session = match catch(|| serde_json::from_str::<Session>(&doc)) {
            Ok(Ok(s)) => s,
            Ok(Err(e)) => return vec![V { sig: "C20|own-document-rejected".into(), what: format!("{e}: {doc}") }],
            Err(p) => return vec![V { sig: format!("C20|panic|deserialise|{}", panic_site(&p)), what: p }],
        };
        // the original, replayed, and a device constructed around the restored session
        let mut a: ACore<14, 0> = ACore::new(&self.cfg, self.class_c);
        for e in &self.hist {
            a.apply(e);
        }
        let snap = a.snap();
        let mut b: ACore<14, 0> = ACore::with_session(&self.cfg, self.class_c, Some(restored));
        b.dev.set_datarate(dr_of(snap.data_rate));
        b.inner.borrow_mut().net = a.net();
        let fresh = Frame::Down { fcnt: Fcnt::Rel(1), confirmed: true, ack: false, fopts: vec![0x06], port: Some(3), payload: vec![1, 2, 3], tamper: Tamper::None };
        let probes = [
            AEv::Send { confirmed: false, port: 1, len: 2, script: Script::default() },
            AEv::Send { confirmed: true, port: 2, len: 1, script: Script::default() },
            AEv::Send { confirmed: false, port: 1, len: 1, script: Script { rx1: Some(fresh), ..Default::default() } },
            AEv::Send { confirmed: false, port: 1, len: 1, script: Script::default() },
        ];
        for (i, e) in probes.iter().enumerate() {
            let oa = a_tx(&a.apply(e));
            let ob = a_tx(&b.apply(e));
            if oa.0 != ob.0 {
                out.push(V {
                    sig: format!("C20|async|restored-device-uplink-differs|probe{i}"),
                    what: format!("original sends {:?}, a device constructed around the restored session sends {:?} (document {doc})", oa.0.iter().map(|x| hex(x)).collect::<Vec<_>>(), ob.0.iter().map(|x| hex(x)).collect::<Vec<_>>()),
                });
                return out;
            }
            if oa.1 != ob.1 {
                out.push(V { sig: format!("C20|async|restored-device-response-differs|probe{i}"), what: format!("original {} restored {}", oa.1, ob.1) });
                return out;
            }
            if oa.2 != ob.2 {
                out.push(V { sig: format!("C20|async|restored-device-session-differs|probe{i}"), what: format!("original {:?}\nrestored {:?}", oa.2, ob.2) });
                return out;
            }
        }
        out
    }

    fn key(&self) -> Self::Key {
        (self.core.snap(), 0)
    }
    fn alive(&self) -> bool {
        self.core.dead.is_none()
    }
    fn outcome(&self) -> String {
        self.outcome.clone()
    }
}

// ------------------------------------------------------------------ malformed documents

/// All single structural mutations of a JSON document (as texts).
pub fn mutations(doc: &Value) -> Vec<(String, String)> {
    let mut out = vec![];
    fn paths(v: &Value, cur: Vec<String>, acc: &mut Vec<Vec<String>>) {
        acc.push(cur.clone());
        match v {
            Value::Object(m) => {
                for (k, c) in m {
                    let mut n = cur.clone();
                    n.push(k.clone());
                    paths(c, n, acc);
                }
            }
            Value::Array(a) => {
                // first, middle and last element are representative of array members
                let idx: Vec<usize> = if a.is_empty() { vec![] } else { vec![0, a.len() / 2, a.len() - 1] };
                for i in idx {
                    let mut n = cur.clone();
                    n.push(format!("#{i}"));
                    paths(&a[i], n, acc);
                }
            }
            _ => {}
        }
    }
    fn get_mut<'a>(v: &'a mut Value, p: &[String]) -> Option<&'a mut Value> {
        let mut cur = v;
        for k in p {
            cur = if let Some(i) = k.strip_prefix('#') { cur.get_mut(i.parse::<usize>().ok()?)? } else { cur.get_mut(k.as_str())? };
        }
        Some(cur)
    }
    let mut ps = vec![];
    paths(doc, vec![], &mut ps);
    for p in ps {
        if p.is_empty() {
            continue;
        }
        let label = p.join("/");
        let orig = {
            let mut d = doc.clone();
            get_mut(&mut d, &p).cloned()
        };
        let Some(orig) = orig else { continue };
        // replacements
        let mut repl: Vec<(&str, Value)> = vec![("null", Value::Null), ("string", json!("x")), ("bool", json!(true)), ("object", json!({})), ("array", json!([]))];
        if orig.is_number() || orig.is_null() {
            for (n, val) in [
                ("-1", json!(-1)),
                ("0", json!(0)),
                ("15", json!(15)),
                ("16", json!(16)),
                ("255", json!(255)),
                ("256", json!(256)),
                ("u32max", json!(4294967295u64)),
                ("2^32", json!(4294967296u64)),
                ("1.5", json!(1.5)),
            ] {
                repl.push((n, val));
            }
        }
        if let Value::Array(a) = &orig {
            let mut s = a.clone();
            s.pop();
            repl.push(("shorter", Value::Array(s)));
            let mut l = a.clone();
            l.push(json!(0));
            repl.push(("longer", Value::Array(l)));
        }
        for (n, val) in repl {
            if val == orig {
                continue;
            }
            let mut d = doc.clone();
            if let Some(slot) = get_mut(&mut d, &p) {
                *slot = val;
                out.push((format!("{label}={n}"), d.to_string()));
            }
        }
        // deletion of object members
        if !p.last().unwrap().starts_with('#') {
            let mut d = doc.clone();
            let (parent, key) = p.split_at(p.len() - 1);
            if let Some(Value::Object(m)) = get_mut(&mut d, parent) {
                m.remove(&key[0]);
                out.push((format!("{label}=deleted"), d.to_string()));
            }
        }
    }
    // duplicate top-level fields (text level: serde_json::Value cannot hold duplicates)
    if let Value::Object(m) = doc {
        let text = doc.to_string();
        for (k, v) in m {
            let dup = format!("{{\"{k}\":{},{}", v, &text[1..]);
            out.push((format!("{k}=duplicated"), dup));
        }
    }
    out
}

// ------------------------------------------------------------------ positional forms
//
// serde lets a struct be written as a map (what serde_json produces) or as a sequence of its members in declaration
// order (what non-self-describing formats produce; serde_json accepts it for derived and hand-written visitors
// alike). The member order is read off the serialised text with a small order-preserving parser.

#[derive(Clone, Debug, PartialEq)]
enum J {
    Atom(String),
    Arr(Vec<J>),
    Obj(Vec<(String, J)>),
}

fn parse_j(b: &[u8], i: &mut usize) -> J {
    let ws = |i: &mut usize| {
        while *i < b.len() && (b[*i] as char).is_whitespace() {
            *i += 1;
        }
    };
    ws(i);
    match b[*i] {
        b'{' => {
            *i += 1;
            let mut m = vec![];
            loop {
                ws(i);
                if b[*i] == b'}' {
                    *i += 1;
                    break;
                }
                if b[*i] == b',' {
                    *i += 1;
                    continue;
                }
                let J::Atom(k) = parse_j(b, i) else { panic!("key") };
                ws(i);
                assert_eq!(b[*i], b':');
                *i += 1;
                let v = parse_j(b, i);
                m.push((k.trim_matches('"').to_string(), v));
            }
            J::Obj(m)
        }
        b'[' => {
            *i += 1;
            let mut a = vec![];
            loop {
                ws(i);
                if b[*i] == b']' {
                    *i += 1;
                    break;
                }
                if b[*i] == b',' {
                    *i += 1;
                    continue;
                }
                a.push(parse_j(b, i));
            }
            J::Arr(a)
        }
        b'"' => {
            let st = *i;
            *i += 1;
            while b[*i] != b'"' {
                if b[*i] == b'\\' {
                    *i += 1;
                }
                *i += 1;
            }
            *i += 1;
            J::Atom(String::from_utf8_lossy(&b[st..*i]).into_owned())
        }
        _ => {
            let st = *i;
            while *i < b.len() && !matches!(b[*i], b',' | b'}' | b']') && !(b[*i] as char).is_whitespace() {
                *i += 1;
            }
            J::Atom(String::from_utf8_lossy(&b[st..*i]).into_owned())
        }
    }
}

fn j_text(j: &J) -> String {
    match j {
        J::Atom(a) => a.clone(),
        J::Arr(a) => format!("[{}]", a.iter().map(j_text).collect::<Vec<_>>().join(",")),
        J::Obj(m) => format!("{{{}}}", m.iter().map(|(k, v)| format!("\"{k}\":{}", j_text(v))).collect::<Vec<_>>().join(",")),
    }
}

/// Every object of the tree (by path), written positionally - alone and all together -, then every number inside a
/// positional object replaced by boundary values.
pub fn positional_mutations(text: &str) -> Vec<(String, String)> {
    let root = parse_j(text.as_bytes(), &mut 0);
    fn obj_paths(j: &J, cur: Vec<usize>, acc: &mut Vec<Vec<usize>>) {
        match j {
            J::Obj(m) => {
                acc.push(cur.clone());
                for (i, (_, v)) in m.iter().enumerate() {
                    let mut n = cur.clone();
                    n.push(i);
                    obj_paths(v, n, acc);
                }
            }
            J::Arr(a) => {
                for (i, v) in a.iter().enumerate().take(1) {
                    let mut n = cur.clone();
                    n.push(i);
                    obj_paths(v, n, acc);
                }
            }
            _ => {}
        }
    }
    fn at<'a>(j: &'a mut J, p: &[usize]) -> &'a mut J {
        let mut cur = j;
        for &i in p {
            cur = match cur {
                J::Obj(m) => &mut m[i].1,
                J::Arr(a) => &mut a[i],
                x => x,
            };
        }
        cur
    }
    fn flatten(j: &mut J, deep: bool) {
        if let J::Obj(m) = j {
            let mut vals: Vec<J> = m.iter().map(|(_, v)| v.clone()).collect();
            if deep {
                for v in vals.iter_mut() {
                    flatten(v, true);
                }
            }
            *j = J::Arr(vals);
        }
    }
    let mut ps = vec![];
    obj_paths(&root, vec![], &mut ps);
    let mut out = vec![];
    let mut forms: Vec<(String, J)> = vec![];
    for p in &ps {
        let mut d = root.clone();
        flatten(at(&mut d, p), false);
        forms.push((format!("positional@{p:?}"), d));
    }
    let mut all = root.clone();
    flatten(&mut all, true);
    forms.push(("positional@all".into(), all));
    for (label, d) in forms {
        out.push((label.clone(), j_text(&d)));
        // numbers (and nulls) directly inside positional sequences
        fn num_paths(j: &J, cur: Vec<usize>, in_seq: bool, acc: &mut Vec<Vec<usize>>) {
            match j {
                J::Atom(a) if in_seq && (a == "null" || a.parse::<f64>().is_ok()) => acc.push(cur),
                J::Arr(a) if a.len() <= 12 => {
                    for (i, v) in a.iter().enumerate() {
                        let mut n = cur.clone();
                        n.push(i);
                        num_paths(v, n, true, acc);
                    }
                }
                J::Obj(m) => {
                    for (i, (_, v)) in m.iter().enumerate() {
                        let mut n = cur.clone();
                        n.push(i);
                        num_paths(v, n, false, acc);
                    }
                }
                _ => {}
            }
        }
        let mut nps = vec![];
        num_paths(&d, vec![], false, &mut nps);
        for np in nps {
            for val in ["-1", "0", "14", "15", "16", "17", "255", "256", "4294967295", "4294967296", "null", "true"] {
                let mut e = d.clone();
                *at(&mut e, &np) = J::Atom(val.into());
                out.push((format!("{label}+{np:?}={val}"), j_text(&e)));
            }
        }
    }
    out
}

/// A mutated document must be refused, or yield a session on which everything stays panic-free.
pub fn eval_doc(region: &str, text: &str) -> Vec<(String, String)> {
    let r = catch(|| serde_json::from_str::<Session>(text));
    let sess = match r {
        Err(p) => return vec![(format!("C20|panic|deserialise-malformed|{}", panic_site(&p)), format!("{p}: {text}"))],
        Ok(Err(_)) => return vec![],
        Ok(Ok(s)) => s,
    };
    let mut core: NbCore<14, 0> = NbCore::new(&DevCfg::abp(region));
    core.dev.set_session(sess);
    let mut v = vec![];
    if let Err(p) = catch(|| {
        let _ = core.snap();
        let _ = core.dev.get_session().map(serde_json::to_string);
    }) {
        v.push((format!("C20|panic|malformed-session-snapshot|{}", panic_site(&p)), format!("{p}: {text}")));
        return v;
    }
    core.net.ref_last = session_of(&core.snap()).and_then(|s| s.fcnt_down);
    for e in probe_events() {
        for m in core.apply(&e) {
            if let Resp::Panic(p) = &m.resp {
                v.push((format!("C20|panic|malformed-session-in-use|{}", panic_site(p)), format!("{p}: {text}")));
                return v;
            }
        }
    }
    v
}

#[derive(Clone, Debug, Serialize, Deserialize)]
pub struct DocCase {
    pub region: String,
    pub text: String,
    pub label: String,
}

fn replay_case(c: &Value) -> Vec<String> {
    if c.get("history").is_some()
        && let Some(ac) = c["cfg"].get("async_cfg")
    {
        let cfg: DevCfg = serde_json::from_value(ac.clone()).expect("cfg");
        let class_c = c["cfg"]["class_c"].as_bool().unwrap_or(false);
        let hist: Vec<crate::adev::AEv> = serde_json::from_value(c["history"].clone()).expect("history");
        return explore::replay(&|| SysA::new(&cfg, class_c), &hist);
    }
    if c.get("history").is_some() {
        let cfg: DevCfg = serde_json::from_value(c["cfg"].clone()).expect("cfg");
        let hist: Vec<Ev> = serde_json::from_value(c["history"].clone()).expect("history");
        return explore::replay(&|| Sys::new(&cfg), &hist);
    }
    let dc: DocCase = serde_json::from_value(c.clone()).expect("case");
    eval_doc(&dc.region, &dc.text).into_iter().map(|x| x.0).collect()
}

pub fn run(tier: Tier, replay: Option<&str>) {
    if let Some(path) = replay {
        replay_exit("C20", path, replay_case(&load_case(path)));
    }
    let ctx = Ctx::new("C20", tier);
    let th = tier.thorough();
    let depth = if crate::ctx::deep() { 6 } else if th { 4 } else { 3 };
    let mut cfgs = vec![];
    for region in if th { vec!["EU868", "US915", "AS923_1"] } else { vec!["EU868", "US915"] } {
        for (fu, fd) in [(None, None), (Some(0xFFFEu32), Some(Some(0xFFFEu32))), (Some(0xFFFF_FFFE), Some(Some(0))), (Some(0x1_0000), Some(Some(0xFFFF_BFFF))), (Some(5), Some(None))] {
            let mut c = DevCfg::abp(region);
            c.fcnt_up = fu;
            c.fcnt_down = fd;
            cfgs.push(c);
        }
        // sessions in the middle of the ADR acknowledgement request / back-off
        for cnt in [63u32, 64, 95, 96] {
            let mut c = DevCfg::abp(region);
            c.dr = Some(if region == "US915" { 3 } else { 5 });
            c.adr_ack_cnt = Some(cnt);
            cfgs.push(c);
        }
    }
    // The start documents with patched counters are the harness's way into a state, not documents the stack wrote: a
    // stack that refuses one of them (it may: 'malformed documents are refused') loses that start state, nothing else.
    // The documents of a fresh session and of every state reached from it are the stack's own and must restore.
    let n_cfgs = cfgs.len();
    cfgs.retain(|c| {
        let patched = c.fcnt_up.is_some() || c.fcnt_down.is_some() || c.adr_ack_cnt.is_some();
        !patched || catch(|| patched_session_cfg(c)).is_ok()
    });
    let start_documents_refused = n_cfgs - cfgs.len();
    let mut states = 0u64;
    let mut transitions = 0u64;
    let mut capped = false;
    let mut outcomes: std::collections::BTreeMap<String, u64> = Default::default();
    for cfg in &cfgs {
        let cj = serde_json::to_value(cfg).unwrap();
        let st = explore::bfs(&ctx, &cj, &|| Sys::new(cfg), depth, 500_000);
        states += st.states;
        transitions += st.transitions;
        capped |= st.capped;
        for (k, v) in st.outcomes {
            *outcomes.entry(k).or_insert(0) += v;
        }
    }
    // ---- the async front-end as the original (with and without Class C)
    for class_c in [false, true] {
        let cfg = DevCfg::abp("EU868");
        let cj = json!({"async_cfg": serde_json::to_value(&cfg).unwrap(), "class_c": class_c});
        let st = explore::bfs(&ctx, &cj, &|| SysA::new(&cfg, class_c), depth, 500_000);
        states += st.states;
        transitions += st.transitions;
        capped |= st.capped;
        for (k, v) in st.outcomes {
            *outcomes.entry(format!("async:{k}")).or_insert(0) += v;
        }
    }
    // ---- malformed documents: mutate documents of reached states
    let docs: Mutex<HashSet<String>> = Mutex::new(HashSet::new());
    for cfg in &cfgs {
        // documents along a few representative histories (incl. full pending answers, owed ACK, boundary counters)
        let al = alphabet(&cfg.region);
        for h in [vec![], vec![al[0].clone()], vec![al[3].clone()], vec![al[al.len() - 3].clone()], vec![al[al.len() - 2].clone()], vec![al[4].clone(), al[1].clone()]] {
            let mut s = Sys::new(cfg);
            for e in &h {
                s.step(e);
            }
            if let Some(sess) = s.core.dev.get_session()
                && let Ok(d) = serde_json::to_string(sess)
            {
                docs.lock().unwrap().insert(d);
            }
        }
    }
    let docs: Vec<String> = docs.into_inner().unwrap().into_iter().collect();
    let muts = AtomicU64::new(0);
    let accepted = AtomicU64::new(0);
    docs.par_iter().for_each(|d| {
        let v: Value = serde_json::from_str(d).unwrap();
        let mut singles = mutations(&v);
        singles.extend(positional_mutations(d));
        for (label, text) in &singles {
            for (sig, what) in eval_doc("EU868", text) {
                ctx.violation(sig, what, serde_json::to_value(DocCase { region: "EU868".into(), text: text.clone(), label: label.clone() }).unwrap(), 1);
            }
            if matches!(catch(|| serde_json::from_str::<Session>(text).is_ok()), Ok(true)) {
                accepted.fetch_add(1, Ordering::Relaxed);
            }
            muts.fetch_add(1, Ordering::Relaxed);
            ctx.tick(1);
        }
    });
    if th {
        // pairs of mutations on a few documents
        docs.iter().take(4).collect::<Vec<_>>().par_iter().for_each(|d| {
            let v: Value = serde_json::from_str(d).unwrap();
            for (l1, t1) in mutations(&v) {
                let Ok(v1) = serde_json::from_str::<Value>(&t1) else { continue };
                for (l2, t2) in mutations(&v1).into_iter().step_by(3) {
                    for (sig, what) in eval_doc("EU868", &t2) {
                        ctx.violation(sig, what, serde_json::to_value(DocCase { region: "EU868".into(), text: t2.clone(), label: format!("{l1} & {l2}") }).unwrap(), 2);
                    }
                    muts.fetch_add(1, Ordering::Relaxed);
                    ctx.tick(1);
                }
            }
        });
    }
    let coverage = json!({
        "states": states,
        "start_documents_refused": start_documents_refused,
        "transitions": transitions,
        "traces_validated_against_impl": transitions,
        "samples": [
            {"cfg": serde_json::to_value(&cfgs[(cfgs.len() - 1).min(1)]).unwrap(), "history": serde_json::to_value(&alphabet("EU868")[..2]).unwrap()},
            {"document": docs.first().cloned().unwrap_or_default()},
        ],
        "evaluations": ctx.evals(),
        "distinct_nontrivial": states + muts.load(Ordering::Relaxed),
        "rule": "BFS over histories on the async front-end as the original (uplinks, downlinks that leave an ACK owed or a sticky answer, uplinks during which the 1st..4th radio call fails; with and without Class C): at every state the session is persisted, a second async device is constructed around the restored session and both run four probe uplinks (frames, responses, sessions compared); downlinks whose answers overflow the 15-byte budget while a sticky answer fits are in the nb alphabet; BFS over session histories on the real device (plain / confirmed uplinks, downlinks that queue sticky and one-shot answers, owed ACKs, 3..15 bytes of pending answers through port 0, set_adr) from sessions whose counters start at 16/32-bit boundaries, with/without a downlink seen (incl. a first downlink with counter 0) and with the ADR counter at 63 / 64 / 95 / 96; at EVERY reached state the session is serialised with serde_json, deserialised, re-serialised (identical document), compared field by field through the snapshot hook - after nb set_session and after the async constructor new_with_session, whose next uplink must also be the original's -, and a fresh device given the restored session runs in lock-step with the original for four probe transactions (uplink, replays of the last two accepted downlinks, a fresh confirmed downlink with a MAC command, uplink). Malformed documents: every single structural mutation (delete / duplicate / null / wrong type / boundary numbers / arrays one shorter or longer / non-byte elements) of the documents of representative states; the positional (sequence) form of every struct of the document - each alone and all together - and, on those, every number replaced by boundary values; pairs in thorough",
        "bfs_depth": depth,
        "documents_mutated": docs.len(),
        "mutated_documents_evaluated": muts.load(Ordering::Relaxed),
        "mutated_documents_accepted_by_deserialiser": accepted.load(Ordering::Relaxed),
        "outcomes": outcomes,
        "exhaustive": !capped,
        "capped": capped,
    });
    let replayer = |cj: &Value| -> Vec<String> { replay_case(cj) };
    ctx.finish(
        "model_checking",
        coverage,
        vec![
            "data rate and ADR flag are not part of the session: they are carried over through the public setters; the channel plan is not persisted at all, so radio configurations are not compared, only frame bytes, responses, delivered downlinks and session snapshots".into(),
            "the original side of the lock-step comparison is a replay of the same history on a second real device".into(),
        ],
        Some(&replayer),
    );
}
