//! C10 — receive windows follow the regional parameters in force when the uplink was sent.
//! Exhaustive sweep over configurations installed through authentic downlinks, on both
//! front-ends, judged against the independent regional tables.
use crate::adev::*;
use crate::checks::{load_case, replay_exit};
use crate::cmds;
use crate::ctx::{Ctx, Tier, panic_site};
use crate::dev::*;
use crate::refregion as rr;
use lorawan_device::verif::{VerifMac, VerifMacState};
use rayon::prelude::*;
use serde::{Deserialize, Serialize};
use serde_json::{Value, json};
use std::sync::atomic::{AtomicU64, Ordering};

#[derive(Clone, Debug, Serialize, Deserialize)]
pub struct Case {
    pub front: String,
    pub dev: DevCfg,
    /// uplink data rate set through set_datarate (None = default)
    pub dr: Option<u8>,
    /// RXParamSetupReq to install first: (DLSettings, frequency)
    pub rxparam: Option<(u8, u32)>,
    /// RXTimingSetupReq delay
    pub rxdelay: Option<u8>,
    /// NewChannelReq (index, frequency) sent before the DlChannelReq
    #[serde(default)]
    pub newchannel: Option<(u8, u32)>,
    /// DlChannelReq (index, frequency)
    pub dlchannel: Option<(u8, u32)>,
    /// NewChannelReq (index, frequency) sent after the DlChannelReq: redefines the channel
    #[serde(default)]
    pub redefine: Option<(u8, u32)>,
    /// further command downlinks (raw FOpts), delivered after the ones above
    #[serde(default)]
    pub extra: Vec<Vec<u8>>,
    pub draw: u32,
    /// join transaction instead of a data uplink
    pub join: bool,
    /// nb only: change the data rate between TX and the windows to this value
    pub dr_between: Option<u8>,
    pub tx_done_ms: u32,
}

struct Obs {
    tx: Option<(i8, Rf)>,
    rx: Vec<Rf>,
    rxc: Vec<Rf>,
    /// nb: TimeoutRequest values after TX done / async: Timer::at arguments
    times: Vec<u64>,
    before: VerifMac,
}

fn down(fopts: Vec<u8>) -> Frame {
    Frame::Down { fcnt: Fcnt::Rel(1), confirmed: false, ack: false, fopts, port: None, payload: vec![], tamper: Tamper::None }
}

fn setup_cmds(c: &Case) -> Vec<Vec<u8>> {
    let mut v = vec![];
    if let Some((dl, f)) = c.rxparam {
        let fb = cmds::freq_bytes(f);
        v.push(vec![0x05, dl, fb[0], fb[1], fb[2]]);
    }
    if let Some(d) = c.rxdelay {
        v.push(vec![0x08, d]);
    }
    if let Some((i, f)) = c.newchannel {
        let fb = cmds::freq_bytes(f);
        v.insert(0, vec![0x07, i, fb[0], fb[1], fb[2], 0x50]);
    }
    if let Some((i, f)) = c.dlchannel {
        let fb = cmds::freq_bytes(f);
        v.push(vec![0x0A, i, fb[0], fb[1], fb[2]]);
    }
    if let Some((i, f)) = c.redefine {
        let fb = cmds::freq_bytes(f);
        v.push(vec![0x07, i, fb[0], fb[1], fb[2], 0x50]);
    }
    v.extend(c.extra.iter().cloned());
    v
}

fn observe_nb(c: &Case) -> Result<Obs, String> {
    let mut core: NbCore<14, 0> = NbCore::new(&c.dev);
    core.tx_done_ms = c.tx_done_ms;
    for cmd in setup_cmds(c) {
        for m in core.apply(&Ev::Cycle { confirmed: false, port: 1, len: 1, rx1: Some(down(cmd.clone())), rx2: None }) {
            if let Resp::Panic(p) = m.resp {
                return Err(p);
            }
        }
    }
    if let Some(d) = c.dr {
        core.apply(&Ev::SetDr(d));
    }
    core.apply(&Ev::Rng(if c.join { vec![0x1234, c.draw] } else { vec![c.draw] }));
    let before = core.snap();
    let mut tx = None;
    let mut rx = vec![];
    let mut times = vec![];
    let mut evs = vec![if c.join { Ev::Join } else { Ev::Send { confirmed: false, port: 1, len: 1 } }, Ev::TxDone];
    if let Some(d) = c.dr_between {
        evs.push(Ev::SetDr(d));
    }
    evs.extend([Ev::Timeout, Ev::Timeout, Ev::Timeout, Ev::Timeout]);
    for e in evs {
        for m in core.apply(&e) {
            if let Resp::Panic(p) = m.resp {
                return Err(p);
            }
            for op in &m.ops {
                match op {
                    RadioOp::Tx { pw, rf, .. } => tx = Some((*pw, rf.clone())),
                    RadioOp::RxReq { rf, .. } => rx.push(rf.clone()),
                    _ => {}
                }
            }
            if let (Resp::TimeoutRequest(t), Ev::TxDone | Ev::Timeout) = (&m.resp, &e) {
                times.push(*t as u64);
            }
        }
    }
    Ok(Obs { tx, rx, rxc: vec![], times, before })
}

fn observe_async(c: &Case) -> Result<Obs, String> {
    let class_c = c.front == "async-c";
    let mut core: ACore<14, 0> = ACore::new(&c.dev, class_c);
    core.inner.borrow_mut().tx_done_ms = c.tx_done_ms;
    for cmd in setup_cmds(c) {
        let st = core.apply(&AEv::Send { confirmed: false, port: 1, len: 1, script: Script { rx1: Some(down(cmd.clone())), ..Default::default() } });
        if let Some(AStep { resp: AResp::Panic(p), .. }) = st {
            return Err(p);
        }
    }
    if let Some(d) = c.dr {
        core.apply(&AEv::SetDr(d));
    }
    core.apply(&AEv::Rng(if c.join { vec![0x1234, c.draw] } else { vec![c.draw] }));
    let before = core.snap();
    let ev = if c.join { AEv::Join(Script::default()) } else { AEv::Send { confirmed: false, port: 1, len: 1, script: Script::default() } };
    let Some(st) = core.apply(&ev) else { return Err("dead".into()) };
    if let AResp::Panic(p) = st.resp {
        return Err(p);
    }
    let mut tx = None;
    let mut rx = vec![];
    let mut rxc = vec![];
    let mut times = vec![];
    for op in &st.ops {
        match op {
            AOp::Tx { pw, rf, .. } => tx = Some((*pw, rf.clone())),
            AOp::SetupRx { rf, single_ms: Some(_), .. } => rx.push(rf.clone()),
            AOp::SetupRx { rf, single_ms: None, .. } => rxc.push(rf.clone()),
            AOp::TimerAt(t) => times.push(*t),
            _ => {}
        }
    }
    Ok(Obs { tx, rx, rxc, times, before })
}

fn lora_defined(region: &str, sf: u8, bw: u32) -> bool {
    !rr::dr_index(region, sf, bw).is_empty()
}

pub fn eval(c: &Case) -> Vec<(String, String)> {
    let region = c.dev.region.as_str();
    let front = c.front.as_str();
    let obs = if front == "nb" { observe_nb(c) } else { observe_async(c) };
    let o = match obs {
        Err(p) => return vec![(format!("C10|{front}|panic|{}", panic_site(&p)), p)],
        Ok(o) => o,
    };
    let mut v = vec![];
    let Some((_, tx)) = &o.tx else {
        return vec![(format!("C10|{front}|no-transmission"), "the transaction handed nothing to the radio".into())];
    };
    if o.rx.len() != 2 {
        return vec![(format!("C10|{front}|window-count"), format!("{} receive windows were opened", o.rx.len()))];
    }
    let kind = if c.join { "join" } else { "data" };
    let rk = if rr::is_fixed(region) { "fixed" } else { "dynamic" };
    // --- the uplink actually used
    let up_drs: Vec<u8> = rr::dr_index(region, tx.sf, tx.bw).into_iter().filter(|d| *d <= 7).collect();
    // --- RX1 frequency
    let want_rx1_freq: Option<u32> = if rr::is_fixed(region) {
        rr::fixed_channel_of(region, tx.freq).map(rr::fixed_downlink)
    } else {
        // downlink frequency of the channel whose uplink frequency was used
        o.before.region.channels.iter().flatten().find(|ch| ch.frequency == tx.freq).map(|ch| ch.dl_frequency.unwrap_or(ch.frequency))
    };
    // a channel redefined by NewChannelReq starts without a downlink frequency of its own (the reference
    // model of C08 and Semtech's stack agree): its RX1 is on the new uplink frequency
    let want_rx1_freq = match c.redefine {
        Some((_, f3)) if tx.freq == f3 => Some(f3),
        _ => want_rx1_freq,
    };
    match want_rx1_freq {
        Some(f) if f != o.rx[0].freq => v.push((
            format!("C10|{front}|rx1-frequency|{rk}|{kind}"),
            format!("uplink on {} Hz, RX1 opened on {} Hz, paired downlink frequency is {} Hz", tx.freq, o.rx[0].freq, f),
        )),
        _ => {}
    }
    // --- RX1 data rate
    let off = o.before.rx1_dr_offset;
    // the offset in force is the negotiated one: a RXParamSetupReq whose three fields are all valid for the
    // region must have been applied
    if let Some((dl, f)) = c.rxparam {
        let (want_off, rx2dr) = ((dl >> 4) & 7, dl & 0x0F);
        let (lo, hi) = rr::band(region);
        let (_, def_dr) = rr::rx2_default(region);
        if want_off <= rr::max_rx1_offset(region) && rx2dr == def_dr && f >= lo && f <= hi && off != want_off {
            v.push((format!("C10|{front}|valid-rx1-offset-not-in-force|{rk}"), format!("RXParamSetupReq with RX1DROffset {want_off} (regional maximum {}), default RX2 data rate and an in-band frequency: offset in force is {off}", rr::max_rx1_offset(region))));
        }
    }
    let got1 = rr::dr_index(region, o.rx[0].sf, o.rx[0].bw);
    let mut want1: Vec<u8> = vec![];
    for u in &up_drs {
        want1.extend(rr::rx1_dr(region, *u, off));
    }
    let want1_lora: Vec<u8> = want1.iter().copied().filter(|d| rr::dr(region, *d).is_some()).collect();
    if got1.is_empty() {
        v.push((format!("C10|{front}|rx1-undefined-datarate|{rk}|{kind}"), format!("RX1 uses SF{}/{} Hz which the region does not define", o.rx[0].sf, o.rx[0].bw)));
    } else if !up_drs.is_empty() && want1_lora.len() == want1.len() && !want1.is_empty() && !got1.iter().any(|g| want1_lora.contains(g)) {
        // (strict only when every admissible table entry is a LoRa rate the region defines)
        v.push((
            format!("C10|{front}|rx1-datarate|{rk}|{kind}"),
            format!("uplink DR{:?} (SF{}/{}), RX1DROffset {off}: RX1 opened at DR{:?}, regional table gives DR{:?}", up_drs, tx.sf, tx.bw, got1, want1),
        ));
    }
    // --- RX2
    let (def_f, def_dr) = rr::rx2_default(region);
    let want2_f = o.before.rx2_frequency.unwrap_or(def_f);
    let want2_dr = o.before.rx2_data_rate.unwrap_or(def_dr);
    if o.rx[1].freq != want2_f {
        v.push((format!("C10|{front}|rx2-frequency|{rk}|{kind}"), format!("RX2 opened on {} Hz, negotiated/default is {} Hz", o.rx[1].freq, want2_f)));
    }
    match rr::dr(region, want2_dr) {
        Some(d) => {
            if (o.rx[1].sf, o.rx[1].bw) != (d.sf, d.bw) {
                v.push((
                    format!("C10|{front}|rx2-datarate|{rk}|{kind}"),
                    format!("RX2 opened at SF{}/{}, negotiated/default DR{want2_dr} is SF{}/{}", o.rx[1].sf, o.rx[1].bw, d.sf, d.bw),
                ));
            }
        }
        None => {
            if !lora_defined(region, o.rx[1].sf, o.rx[1].bw) {
                v.push((format!("C10|{front}|rx2-undefined-datarate|{rk}|{kind}"), format!("SF{}/{}", o.rx[1].sf, o.rx[1].bw)));
            }
        }
    }
    // --- size limits bound to the windows (what C05/C07 rely on)
    for (w, r) in o.rx.iter().enumerate() {
        let idx = rr::dr_index(region, r.sf, r.bw);
        let ok = idx.iter().any(|d| rr::max_payload(region, *d).contains(&r.max_len));
        if !idx.is_empty() && !ok {
            v.push((
                format!("C10|{front}|window-size-limit|{rk}"),
                format!("RX{} at DR{:?} carries max MACPayload {} (regional: {:?})", w + 1, idx, r.max_len, idx.iter().map(|d| rr::max_payload(region, *d)).collect::<Vec<_>>()),
            ));
        }
    }
    // --- Class C listening between the windows uses the RX2 parameters
    for r in &o.rxc {
        if r.freq != o.rx[1].freq || r.sf != o.rx[1].sf || r.bw != o.rx[1].bw {
            v.push((
                format!("C10|{front}|classc-not-rx2-parameters|{rk}"),
                format!("continuous reception on {} Hz SF{}/{} while RX2 is {} Hz SF{}/{}", r.freq, r.sf, r.bw, o.rx[1].freq, o.rx[1].sf, o.rx[1].bw),
            ));
        }
    }
    // --- timing
    let d1: u64 = if c.join { 5000 } else { o.before.rx1_delay as u64 };
    let want_d1: u64 = if c.join {
        5000
    } else {
        match c.rxdelay {
            Some(d) if (2..=15).contains(&(d & 0x0f)) => (d & 0x0f) as u64 * 1000,
            Some(_) => 1000,
            None => 1000,
        }
    };
    if !c.join && d1 != want_d1 {
        v.push((format!("C10|{front}|rx1-delay-not-installed"), format!("RXTimingSetupReq {:?}: delay in force {d1} ms, expected {want_d1} ms", c.rxdelay)));
    }
    let ts = c.tx_done_ms as u64;
    if front == "nb" {
        let off = c.dev.offset_ms as i64;
        if o.times.len() >= 3 {
            // (the millisecond clock is a u32 that wraps after 49.7 days: all times are modulo 2^32)
            let m = |x: i64| x.rem_euclid(1 << 32);
            let t1 = o.times[0] as i64;
            let ok1 = t1 == m((ts + want_d1) as i64 + off) || t1 == m((ts + want_d1) as i64 - off);
            if !ok1 {
                v.push((
                    format!("C10|nb|rx1-time|{kind}"),
                    format!("RX1 requested at {t1} ms; TX ended at {ts} ms, delay {want_d1} ms, declared offset {off} ms"),
                ));
            }
            // times: [t1, close1, t2, close2]
            let t2 = o.times[2] as i64;
            if t2 != m(t1 + 1000) {
                v.push((format!("C10|nb|rx2-time|{kind}"), format!("RX2 requested at {t2} ms, RX1 at {t1} ms (must be RX1 + 1000 ms)")));
            }
        } else {
            v.push((format!("C10|nb|timeouts-missing|{kind}"), format!("timeout requests {:?}", o.times)));
        }
    } else {
        let lead = c.dev.offset_ms.unsigned_abs() as u64;
        let want = [ts + want_d1 - lead.min(ts + want_d1), ts + want_d1 + 1000 - lead.min(ts + want_d1)];
        if o.times != want {
            v.push((
                format!("C10|{front}|window-times|{kind}"),
                format!("timer waits {:?}; expected {:?} (TX end {ts}, delay {want_d1}, lead {lead})", o.times, want),
            ));
        }
    }
    v
}

pub fn run(tier: Tier, replay: Option<&str>) {
    if let Some(path) = replay {
        let c: Case = serde_json::from_value(load_case(path)).expect("case");
        replay_exit("C10", path, eval(&c).into_iter().map(|x| x.0).collect());
    }
    let ctx = Ctx::new("C10", tier);
    let th = tier.thorough();
    let regions: Vec<&str> = if th { REGIONS.to_vec() } else { vec!["EU868", "US915", "AS923_1", "AU915"] };
    let fronts = ["nb", "async", "async-c"];
    let mut cases: Vec<Case> = vec![];
    for region in &regions {
        let fixed = rr::is_fixed(region);
        let drs: Vec<u8> = (0..8).filter(|d| rr::dr(region, *d).is_some()).collect();
        // data rates the crate implements: EU868 has no DR6 (set_datarate to an unimplemented rate is an invalid application argument)
        let drs: Vec<u8> = drs.into_iter().filter(|d| !(*region == "EU868" && *d == 6)).collect();
        let (def_f, def_dr) = rr::rx2_default(region);
        let draws: Vec<u32> = if fixed { (0..64).collect() } else { (0..8).collect() };
        for front in fronts {
            let base = |dev: DevCfg| Case { front: front.into(), dev, dr: None, rxparam: None, rxdelay: None, newchannel: None, dlchannel: None, redefine: None, extra: vec![], draw: 0, join: false, dr_between: None, tx_done_ms: 0 };
            let abp = DevCfg::abp(region);
            // P1: data rate x RX1 offset x channel choice
            for &d in &drs {
                for off in 0..=7u8 {
                    if off > rr::max_rx1_offset(region) && !th {
                        continue;
                    }
                    for &draw in &draws {
                        if !th && front != "nb" && draw % 8 != 0 {
                            continue;
                        }
                        cases.push(Case { dr: Some(d), rxparam: Some(((off << 4) | def_dr, def_f)), draw, ..base(abp.clone()) });
                    }
                }
            }
            // P2: RX delay x board timing x TX end time
            for del in 0..=15u8 {
                for offs in [0i32, 15, 50, 100] {
                    for ts in [0u32, 7, 1000] {
                        let mut dev = abp.clone();
                        dev.offset_ms = offs;
                        cases.push(Case { rxdelay: Some(del), tx_done_ms: ts, ..base(dev.clone()) });
                        if front != "nb" && offs > 5 && ts == 0 {
                            // async boards may declare a window buffer that differs from the lead time
                            dev.duration_ms = 5;
                            cases.push(Case { rxdelay: Some(del), tx_done_ms: ts, ..base(dev) });
                        }
                    }
                }
            }
            // P2b (nb): TX end times in the upper half of the u32 millisecond clock and next to its wrap
            if front == "nb" {
                for del in [1u8, 2, 15] {
                    for offs in [0i32, 50] {
                        for ts in [0x7FFF_FC00u32, 0x7FFF_FFFF, 0x8000_0000, 3_000_000_000, 0xFFFF_F000, 0xFFFF_FFFF] {
                            let mut dev = abp.clone();
                            dev.offset_ms = offs;
                            cases.push(Case { rxdelay: Some(del), tx_done_ms: ts, ..base(dev) });
                        }
                    }
                }
            }
            // P3: RX2 overrides
            for dr2 in 0..16u8 {
                for f in [def_f, cmds::freqs(region)[3]] {
                    for &d in &[drs[0], *drs.last().unwrap()] {
                        cases.push(Case { dr: Some(d), rxparam: Some((dr2, f)), ..base(abp.clone()) });
                    }
                }
            }
            // P4: DlChannelReq mappings (dynamic plans)
            if !fixed {
                for idx in 0..4u8 {
                    for f in [cmds::freqs(region)[3], cmds::freqs(region)[2]] {
                        for draw in 0..8u32 {
                            cases.push(Case { dlchannel: Some((idx, f)), draw, ..base(abp.clone()) });
                        }
                    }
                }
            }
            // P8: create a channel, give it a downlink frequency, redefine it: the uplinks on the new frequency
            // have their RX1 there as well
            if !fixed {
                let fq = cmds::freqs(region);
                for idx in [3u8, 8] {
                    for draw in 0..16u32 {
                        cases.push(Case { newchannel: Some((idx, fq[3])), dlchannel: Some((idx, fq[2])), redefine: Some((idx, fq[3] + 400_000)), draw, ..base(abp.clone()) });
                    }
                }
            }
            // P9: the mask is left with only an extra channel, the extra channel is then deleted: the next uplink
            // falls back to the default channels, whose negotiated downlink frequencies are still in force
            if !fixed {
                let fq = cmds::freqs(region);
                for idx in 0..rr::default_channels(region).len() as u8 {
                    for draw in 0..8u32 {
                        cases.push(Case {
                            newchannel: Some((3, fq[3])),
                            dlchannel: Some((idx, fq[2])),
                            extra: vec![cmds::link_adr(15, 15, 0x0008, 0, 1, false).bytes, vec![0x07, 3, 0, 0, 0, 0x50]],
                            draw,
                            ..base(abp.clone())
                        });
                    }
                }
            }
            // P7: a re-join on a default channel whose downlink frequency was remapped (dynamic plans)
            if !fixed {
                for idx in 0..3u8 {
                    for f in [cmds::freqs(region)[3], cmds::freqs(region)[2]] {
                        for draw in 0..8u32 {
                            cases.push(Case { dlchannel: Some((idx, f)), join: true, draw, ..base(abp.clone()) });
                        }
                    }
                }
            }
            // P5: joins (fixed plans: join bias settings and every channel)
            let biases: Vec<Option<(u8, usize)>> = if fixed { vec![None, Some((1, 1)), Some((2, 1)), Some((8, 1)), Some((2, 8))] } else { vec![None] };
            for b in biases {
                for draw in 0..64u32 {
                    if !fixed && draw >= 8 {
                        continue;
                    }
                    let mut dev = DevCfg::otaa(region);
                    dev.bias = b;
                    for offs in [0i32, 50] {
                        dev.offset_ms = offs;
                        cases.push(Case { join: true, draw, ..base(dev.clone()) });
                    }
                }
            }
            // P6 (nb): a data rate change between TX and the windows must not move them
            if front == "nb" {
                for &d in &drs {
                    for &d2 in &drs {
                        cases.push(Case { dr: Some(d), dr_between: Some(d2), ..base(abp.clone()) });
                    }
                }
            }
        }
    }
    let nontrivial = AtomicU64::new(0);
    cases.par_iter().for_each(|c| {
        let v = eval(c);
        if c.rxparam.is_some() || c.rxdelay.is_some() || c.dlchannel.is_some() || c.join {
            nontrivial.fetch_add(1, Ordering::Relaxed);
        }
        for (sig, what) in v {
            ctx.violation(sig, what, serde_json::to_value(c).unwrap(), 0);
        }
        ctx.tick(1);
    });
    let coverage = json!({
        "evaluations": ctx.evals(),
        "distinct_nontrivial": nontrivial.load(Ordering::Relaxed),
        "rule": "eight full sub-products per region and front-end (nb, async, async+Class C), each case a fresh real device brought into the configuration by authentic RXParamSetupReq / RXTimingSetupReq / DlChannelReq downlinks and set_datarate: (P1) every region-defined uplink data rate x RX1DROffset 0..7 x first RNG draw (all 64 for the 72-channel plans); (P2) RXTimingSetupReq delay 0..15 x board offset/lead {0,15,50,100} x TX end time; (P2b, nb) TX end times around 2^31 ms and the 2^32 ms wrap of the clock x delay x offset; (P3) all 16 RX2 data rate values x 2 frequencies x lowest/highest uplink rate; (P4) DlChannelReq on channels 0..3 x 2 frequencies x draws; (P5) joins under join-bias settings x draws; (P6, nb) set_datarate between TX and the windows; (P7) a re-join on a default channel after DlChannelReq remapped its downlink frequency; (P8) NewChannelReq, DlChannelReq, then a NewChannelReq redefining the same channel; (P9) DlChannelReq on a default channel, the mask reduced to an extra channel, that channel deleted (fallback to the default channels). non-trivial = cases with an installed override or a join",
        "samples": [serde_json::to_value(&cases[0]).unwrap(), serde_json::to_value(&cases[cases.len() / 2]).unwrap(), serde_json::to_value(cases.last().unwrap()).unwrap()],
        "exhaustive": true,
        "regions": regions,
    });
    let replayer = |cj: &Value| -> Vec<String> {
        let c: Case = serde_json::from_value(cj.clone()).unwrap();
        eval(&c).into_iter().map(|x| x.0).collect()
    };
    ctx.finish(
        "exploration",
        coverage,
        vec![
            "regional tables: /verif/harness/mc/src/refregion.rs (RP002-1.0.x; set-valued where revisions differ)".into(),
            "where the RX1 table yields a rate the stack does not implement (FSK/LR-FHSS) only 'some region-defined LoRa rate' is required".into(),
            "nb: the sign convention of the declared window offset is not fixed by the documentation; either sign is accepted".into(),
            "the uplink channel/data rate 'actually used' are read from the TxConfig handed to the radio".into(),
        ],
        Some(&replayer),
    );
}

#[allow(dead_code)]
fn _unused(_: VerifMacState) {}
