//! C10 — receive windows follow the regional parameters in force when the uplink was sent.
//! Exhaustive sweep over configurations installed through authentic downlinks, on both
//! front-ends, judged against the independent regional tables.
use crate::adev::*;
use crate::checks::{load_case, replay_exit};
use crate::cmds;
use crate::ctx::{Ctx, Tier, panic_site};
use crate::dev::*;
use crate::explore::{self, System, V};
use crate::refregion as rr;
use lorawan_device::verif::{VerifMac, VerifMacState, VerifNbState};
use rayon::prelude::*;
use serde::{Deserialize, Serialize};
use serde_json::{Value, json};
use std::sync::atomic::{AtomicU64, Ordering};

#[derive(Clone, Debug, Serialize, Deserialize)]
pub struct Case {
    pub front: String,
    pub dev: DevCfg,
    /// uplink data rate set through set_datarate (None = default)
    pub dr: Option<u8>,
    /// RXParamSetupReq to install first: (DLSettings, frequency)
    pub rxparam: Option<(u8, u32)>,
    /// RXTimingSetupReq delay
    pub rxdelay: Option<u8>,
    /// NewChannelReq (index, frequency) sent before the DlChannelReq
    #[serde(default)]
    pub newchannel: Option<(u8, u32)>,
    /// DlChannelReq (index, frequency)
    pub dlchannel: Option<(u8, u32)>,
    /// NewChannelReq (index, frequency) sent after the DlChannelReq: redefines the channel
    #[serde(default)]
    pub redefine: Option<(u8, u32)>,
    /// further command downlinks (raw FOpts), delivered after the ones above
    #[serde(default)]
    pub extra: Vec<Vec<u8>>,
    pub draw: u32,
    /// join transaction instead of a data uplink
    pub join: bool,
    /// nb only: change the data rate between TX and the windows to this value
    pub dr_between: Option<u8>,
    pub tx_done_ms: u32,
    /// join cases: this many unanswered join attempts come first (`draw` then scripts the first of them; the
    /// join-channel walk of the fixed plans reaches the 500 kHz channels only on later attempts)
    #[serde(default)]
    pub prior_joins: usize,
}

struct Obs {
    tx: Option<(i8, Rf)>,
    rx: Vec<Rf>,
    rxc: Vec<Rf>,
    /// nb: TimeoutRequest values after TX done / async: Timer::at arguments
    times: Vec<u64>,
    before: VerifMac,
}

fn down(fopts: Vec<u8>) -> Frame {
    Frame::Down { fcnt: Fcnt::Rel(1), confirmed: false, ack: false, fopts, port: None, payload: vec![], tamper: Tamper::None }
}

fn setup_cmds(c: &Case) -> Vec<Vec<u8>> {
    let mut v = vec![];
    if let Some((dl, f)) = c.rxparam {
        let fb = cmds::freq_bytes(f);
        v.push(vec![0x05, dl, fb[0], fb[1], fb[2]]);
    }
    if let Some(d) = c.rxdelay {
        v.push(vec![0x08, d]);
    }
    if let Some((i, f)) = c.newchannel {
        let fb = cmds::freq_bytes(f);
        v.insert(0, vec![0x07, i, fb[0], fb[1], fb[2], 0x50]);
    }
    if let Some((i, f)) = c.dlchannel {
        let fb = cmds::freq_bytes(f);
        v.push(vec![0x0A, i, fb[0], fb[1], fb[2]]);
    }
    if let Some((i, f)) = c.redefine {
        let fb = cmds::freq_bytes(f);
        v.push(vec![0x07, i, fb[0], fb[1], fb[2], 0x50]);
    }
    v.extend(c.extra.iter().cloned());
    v
}

fn observe_nb(c: &Case) -> Result<Obs, String> {
    let mut core: NbCore<14, 0> = NbCore::new(&c.dev);
    core.tx_done_ms = c.tx_done_ms;
    for cmd in setup_cmds(c) {
        for m in core.apply(&Ev::Cycle { confirmed: false, port: 1, len: 1, rx1: Some(down(cmd.clone())), rx2: None }) {
            if let Resp::Panic(p) = m.resp {
                return Err(p);
            }
        }
    }
    if let Some(d) = c.dr {
        core.apply(&Ev::SetDr(d));
    }
    core.apply(&Ev::Rng(if c.join { vec![0x1234, c.draw] } else { vec![c.draw] }));
    for _ in 0..c.prior_joins {
        for m in core.apply(&Ev::JoinCycle { rx1: None, rx2: None }) {
            if let Resp::Panic(p) = m.resp {
                return Err(p);
            }
        }
    }
    let before = core.snap();
    let mut tx = None;
    let mut rx = vec![];
    let mut times = vec![];
    let mut evs = vec![if c.join { Ev::Join } else { Ev::Send { confirmed: false, port: 1, len: 1 } }, Ev::TxDone];
    if let Some(d) = c.dr_between {
        evs.push(Ev::SetDr(d));
    }
    evs.extend([Ev::Timeout, Ev::Timeout, Ev::Timeout, Ev::Timeout]);
    for e in evs {
        for m in core.apply(&e) {
            if let Resp::Panic(p) = m.resp {
                return Err(p);
            }
            for op in &m.ops {
                match op {
                    RadioOp::Tx { pw, rf, .. } => tx = Some((*pw, rf.clone())),
                    RadioOp::RxReq { rf, .. } => rx.push(rf.clone()),
                    _ => {}
                }
            }
            if let (Resp::TimeoutRequest(t), Ev::TxDone | Ev::Timeout) = (&m.resp, &e) {
                times.push(*t as u64);
            }
        }
    }
    Ok(Obs { tx, rx, rxc: vec![], times, before })
}

fn observe_async(c: &Case) -> Result<Obs, String> {
    let class_c = c.front == "async-c";
    let mut core: ACore<14, 0> = ACore::new(&c.dev, class_c);
    core.inner.borrow_mut().tx_done_ms = c.tx_done_ms;
    for cmd in setup_cmds(c) {
        let st = core.apply(&AEv::Send { confirmed: false, port: 1, len: 1, script: Script { rx1: Some(down(cmd.clone())), ..Default::default() } });
        if let Some(AStep { resp: AResp::Panic(p), .. }) = st {
            return Err(p);
        }
    }
    if let Some(d) = c.dr {
        core.apply(&AEv::SetDr(d));
    }
    core.apply(&AEv::Rng(if c.join { vec![0x1234, c.draw] } else { vec![c.draw] }));
    for _ in 0..c.prior_joins {
        if let Some(AStep { resp: AResp::Panic(p), .. }) = core.apply(&AEv::Join(Script::default())) {
            return Err(p);
        }
    }
    let before = core.snap();
    let ev = if c.join { AEv::Join(Script::default()) } else { AEv::Send { confirmed: false, port: 1, len: 1, script: Script::default() } };
    let Some(st) = core.apply(&ev) else { return Err("dead".into()) };
    if let AResp::Panic(p) = st.resp {
        return Err(p);
    }
    let mut tx = None;
    let mut rx = vec![];
    let mut rxc = vec![];
    let mut times = vec![];
    for op in &st.ops {
        match op {
            AOp::Tx { pw, rf, .. } => tx = Some((*pw, rf.clone())),
            AOp::SetupRx { rf, single_ms: Some(_), .. } => rx.push(rf.clone()),
            AOp::SetupRx { rf, single_ms: None, .. } => rxc.push(rf.clone()),
            AOp::TimerAt(t) => times.push(*t),
            _ => {}
        }
    }
    Ok(Obs { tx, rx, rxc, times, before })
}

fn lora_defined(region: &str, sf: u8, bw: u32) -> bool {
    !rr::dr_index(region, sf, bw).is_empty()
}

pub fn eval(c: &Case) -> Vec<(String, String)> {
    let region = c.dev.region.as_str();
    let front = c.front.as_str();
    let obs = if front == "nb" { observe_nb(c) } else { observe_async(c) };
    let o = match obs {
        Err(p) => return vec![(format!("C10|{front}|panic|{}", panic_site(&p)), p)],
        Ok(o) => o,
    };
    let mut v = vec![];
    let Some((_, tx)) = &o.tx else {
        return vec![(format!("C10|{front}|no-transmission"), "the transaction handed nothing to the radio".into())];
    };
    if o.rx.len() != 2 {
        return vec![(format!("C10|{front}|window-count"), format!("{} receive windows were opened", o.rx.len()))];
    }
    let kind = if c.join { "join" } else { "data" };
    let rk = if rr::is_fixed(region) { "fixed" } else { "dynamic" };
    // --- the uplink actually used
    let up_drs: Vec<u8> = rr::dr_index(region, tx.sf, tx.bw).into_iter().filter(|d| *d <= 7).collect();
    // --- RX1 frequency
    let want_rx1_freq: Option<u32> = if rr::is_fixed(region) {
        rr::fixed_channel_of(region, tx.freq).map(rr::fixed_downlink)
    } else {
        // downlink frequency of the channel whose uplink frequency was used
        o.before.region.channels.iter().flatten().find(|ch| ch.frequency == tx.freq).map(|ch| ch.dl_frequency.unwrap_or(ch.frequency))
    };
    // a channel redefined by NewChannelReq starts without a downlink frequency of its own (the reference
    // model of C08 and Semtech's stack agree): its RX1 is on the new uplink frequency
    let want_rx1_freq = match c.redefine {
        Some((_, f3)) if tx.freq == f3 => Some(f3),
        _ => want_rx1_freq,
    };
    match want_rx1_freq {
        Some(f) if f != o.rx[0].freq => v.push((
            format!("C10|{front}|rx1-frequency|{rk}|{kind}"),
            format!("uplink on {} Hz, RX1 opened on {} Hz, paired downlink frequency is {} Hz", tx.freq, o.rx[0].freq, f),
        )),
        _ => {}
    }
    // --- the data rate actually used is one the channel forces (fixed plans: 125 kHz vs 500 kHz channels, join rates)
    if rr::is_fixed(region)
        && let Some(ch) = rr::fixed_channel_of(region, tx.freq)
    {
        let forced = if c.join { rr::fixed_join_dr(region, ch) } else { rr::fixed_channel_drs(region, ch) };
        if !up_drs.iter().any(|d| forced.contains(d)) {
            v.push((
                format!("C10|{front}|uplink-datarate-not-the-channels|{rk}|{kind}"),
                format!("{kind} uplink on channel {ch} ({} Hz) at SF{}/{} Hz (DR{up_drs:?}); the channel forces DR{forced:?}, which the windows have to follow", tx.freq, tx.sf, tx.bw),
            ));
        }
    }
    // --- RX1 data rate
    let off = o.before.rx1_dr_offset;
    // the offset in force is the negotiated one: a RXParamSetupReq whose three fields are all valid for the
    // region must have been applied
    if let Some((dl, f)) = c.rxparam {
        let (want_off, rx2dr) = ((dl >> 4) & 7, dl & 0x0F);
        let (lo, hi) = rr::band(region);
        let (_, def_dr) = rr::rx2_default(region);
        if want_off <= rr::max_rx1_offset(region) && rx2dr == def_dr && f >= lo && f <= hi && off != want_off {
            v.push((format!("C10|{front}|valid-rx1-offset-not-in-force|{rk}"), format!("RXParamSetupReq with RX1DROffset {want_off} (regional maximum {}), default RX2 data rate and an in-band frequency: offset in force is {off}", rr::max_rx1_offset(region))));
        }
    }
    let got1 = rr::dr_index(region, o.rx[0].sf, o.rx[0].bw);
    let mut want1: Vec<u8> = vec![];
    for u in &up_drs {
        want1.extend(rr::rx1_dr(region, *u, off));
    }
    let want1_lora: Vec<u8> = want1.iter().copied().filter(|d| rr::dr(region, *d).is_some()).collect();
    if got1.is_empty() {
        v.push((format!("C10|{front}|rx1-undefined-datarate|{rk}|{kind}"), format!("RX1 uses SF{}/{} Hz which the region does not define", o.rx[0].sf, o.rx[0].bw)));
    } else if !up_drs.is_empty() && want1_lora.len() == want1.len() && !want1.is_empty() && !got1.iter().any(|g| want1_lora.contains(g)) {
        // (strict only when every admissible table entry is a LoRa rate the region defines)
        v.push((
            format!("C10|{front}|rx1-datarate|{rk}|{kind}"),
            format!("uplink DR{:?} (SF{}/{}), RX1DROffset {off}: RX1 opened at DR{:?}, regional table gives DR{:?}", up_drs, tx.sf, tx.bw, got1, want1),
        ));
    }
    // --- RX2
    let (def_f, def_dr) = rr::rx2_default(region);
    let want2_f = o.before.rx2_frequency.unwrap_or(def_f);
    let want2_dr = o.before.rx2_data_rate.unwrap_or(def_dr);
    if o.rx[1].freq != want2_f {
        v.push((format!("C10|{front}|rx2-frequency|{rk}|{kind}"), format!("RX2 opened on {} Hz, negotiated/default is {} Hz", o.rx[1].freq, want2_f)));
    }
    match rr::dr(region, want2_dr) {
        Some(d) => {
            if (o.rx[1].sf, o.rx[1].bw) != (d.sf, d.bw) {
                v.push((
                    format!("C10|{front}|rx2-datarate|{rk}|{kind}"),
                    format!("RX2 opened at SF{}/{}, negotiated/default DR{want2_dr} is SF{}/{}", o.rx[1].sf, o.rx[1].bw, d.sf, d.bw),
                ));
            }
        }
        None => {
            if !lora_defined(region, o.rx[1].sf, o.rx[1].bw) {
                v.push((format!("C10|{front}|rx2-undefined-datarate|{rk}|{kind}"), format!("SF{}/{}", o.rx[1].sf, o.rx[1].bw)));
            }
        }
    }
    // --- size limits bound to the windows (what C05/C07 rely on)
    for (w, r) in o.rx.iter().enumerate() {
        let idx = rr::dr_index(region, r.sf, r.bw);
        let ok = idx.iter().any(|d| rr::max_payload(region, *d).contains(&r.max_len));
        if !idx.is_empty() && !ok {
            v.push((
                format!("C10|{front}|window-size-limit|{rk}"),
                format!("RX{} at DR{:?} carries max MACPayload {} (regional: {:?})", w + 1, idx, r.max_len, idx.iter().map(|d| rr::max_payload(region, *d)).collect::<Vec<_>>()),
            ));
        }
    }
    // --- Class C listening between the windows uses the RX2 parameters
    for r in &o.rxc {
        if r.freq != o.rx[1].freq || r.sf != o.rx[1].sf || r.bw != o.rx[1].bw {
            v.push((
                format!("C10|{front}|classc-not-rx2-parameters|{rk}"),
                format!("continuous reception on {} Hz SF{}/{} while RX2 is {} Hz SF{}/{}", r.freq, r.sf, r.bw, o.rx[1].freq, o.rx[1].sf, o.rx[1].bw),
            ));
        }
    }
    // --- timing
    let d1: u64 = if c.join { 5000 } else { o.before.rx1_delay as u64 };
    let want_d1: u64 = if c.join {
        5000
    } else {
        match c.rxdelay {
            Some(d) if (2..=15).contains(&(d & 0x0f)) => (d & 0x0f) as u64 * 1000,
            Some(_) => 1000,
            None => 1000,
        }
    };
    if !c.join && d1 != want_d1 {
        v.push((format!("C10|{front}|rx1-delay-not-installed"), format!("RXTimingSetupReq {:?}: delay in force {d1} ms, expected {want_d1} ms", c.rxdelay)));
    }
    let ts = c.tx_done_ms as u64;
    if front == "nb" {
        let off = c.dev.offset_ms as i64;
        if o.times.len() >= 3 {
            // (the millisecond clock is a u32 that wraps after 49.7 days: all times are modulo 2^32)
            let m = |x: i64| x.rem_euclid(1 << 32);
            let t1 = o.times[0] as i64;
            let ok1 = t1 == m((ts + want_d1) as i64 + off) || t1 == m((ts + want_d1) as i64 - off);
            if !ok1 {
                v.push((
                    format!("C10|nb|rx1-time|{kind}"),
                    format!("RX1 requested at {t1} ms; TX ended at {ts} ms, delay {want_d1} ms, declared offset {off} ms"),
                ));
            }
            // times: [t1, close1, t2, close2]
            let t2 = o.times[2] as i64;
            if t2 != m(t1 + 1000) {
                v.push((format!("C10|nb|rx2-time|{kind}"), format!("RX2 requested at {t2} ms, RX1 at {t1} ms (must be RX1 + 1000 ms)")));
            }
        } else {
            v.push((format!("C10|nb|timeouts-missing|{kind}"), format!("timeout requests {:?}", o.times)));
        }
    } else {
        let lead = c.dev.offset_ms.unsigned_abs() as u64;
        let want = [ts + want_d1 - lead.min(ts + want_d1), ts + want_d1 + 1000 - lead.min(ts + want_d1)];
        if o.times != want {
            v.push((
                format!("C10|{front}|window-times|{kind}"),
                format!("timer waits {:?}; expected {:?} (TX end {ts}, delay {want_d1}, lead {lead})", o.times, want),
            ));
        }
    }
    v
}

pub fn run(tier: Tier, replay: Option<&str>) {
    if let Some(path) = replay {
        let cj = load_case(path);
        replay_exit("C10", path, replay_any(&cj));
    }
    let ctx = Ctx::new("C10", tier);
    let th = tier.thorough();
    let regions: Vec<&str> = if th { REGIONS.to_vec() } else { vec!["EU868", "US915", "AS923_1", "AU915"] };
    let fronts = ["nb", "async", "async-c"];
    let mut cases: Vec<Case> = vec![];
    for region in &regions {
        let fixed = rr::is_fixed(region);
        let drs: Vec<u8> = (0..8).filter(|d| rr::dr(region, *d).is_some()).collect();
        // data rates the crate implements: EU868 has no DR6 (set_datarate to an unimplemented rate is an invalid application argument)
        let drs: Vec<u8> = drs.into_iter().filter(|d| !(*region == "EU868" && *d == 6)).collect();
        let (def_f, def_dr) = rr::rx2_default(region);
        let draws: Vec<u32> = if fixed { (0..64).collect() } else { (0..8).collect() };
        for front in fronts {
            let base = |dev: DevCfg| Case { front: front.into(), dev, dr: None, rxparam: None, rxdelay: None, newchannel: None, dlchannel: None, redefine: None, extra: vec![], draw: 0, join: false, dr_between: None, tx_done_ms: 0, prior_joins: 0 };
            let abp = DevCfg::abp(region);
            // P1: data rate x RX1 offset x channel choice
            for &d in &drs {
                for off in 0..=7u8 {
                    if off > rr::max_rx1_offset(region) && !th {
                        continue;
                    }
                    for &draw in &draws {
                        if !th && front != "nb" && draw % 8 != 0 {
                            continue;
                        }
                        cases.push(Case { dr: Some(d), rxparam: Some(((off << 4) | def_dr, def_f)), draw, ..base(abp.clone()) });
                    }
                }
            }
            // P2: RX delay x board timing x TX end time
            for del in 0..=15u8 {
                for offs in [0i32, 15, 50, 100] {
                    for ts in [0u32, 7, 1000] {
                        let mut dev = abp.clone();
                        dev.offset_ms = offs;
                        cases.push(Case { rxdelay: Some(del), tx_done_ms: ts, ..base(dev.clone()) });
                        if front != "nb" && offs > 5 && ts == 0 {
                            // async boards may declare a window buffer that differs from the lead time
                            dev.duration_ms = 5;
                            cases.push(Case { rxdelay: Some(del), tx_done_ms: ts, ..base(dev) });
                        }
                    }
                }
            }
            // P2b (nb): TX end times in the upper half of the u32 millisecond clock and next to its wrap
            if front == "nb" {
                for del in [1u8, 2, 15] {
                    for offs in [0i32, 50] {
                        for ts in [0x7FFF_FC00u32, 0x7FFF_FFFF, 0x8000_0000, 3_000_000_000, 0xFFFF_F000, 0xFFFF_FFFF] {
                            let mut dev = abp.clone();
                            dev.offset_ms = offs;
                            cases.push(Case { rxdelay: Some(del), tx_done_ms: ts, ..base(dev) });
                        }
                    }
                }
            }
            // P2c (nb): boards whose receive windows stay open until / beyond the start of RX2
            if front == "nb" {
                for dur in [999u32, 1000, 1001, 1500, 2500] {
                    for del in [1u8, 2] {
                        for offs in [0i32, 50] {
                            let mut dev = abp.clone();
                            dev.offset_ms = offs;
                            dev.duration_ms = dur;
                            cases.push(Case { rxdelay: Some(del), tx_done_ms: 1000, ..base(dev.clone()) });
                            cases.push(Case { rxdelay: Some(del), dr: Some(*drs.last().unwrap()), tx_done_ms: 1000, ..base(dev) });
                        }
                    }
                }
            }
            // P3: RX2 overrides
            for dr2 in 0..16u8 {
                for f in [def_f, cmds::freqs(region)[3]] {
                    for &d in &[drs[0], *drs.last().unwrap()] {
                        cases.push(Case { dr: Some(d), rxparam: Some((dr2, f)), ..base(abp.clone()) });
                    }
                }
            }
            // P4: DlChannelReq mappings (dynamic plans)
            if !fixed {
                for idx in 0..4u8 {
                    for f in [cmds::freqs(region)[3], cmds::freqs(region)[2]] {
                        for draw in 0..8u32 {
                            cases.push(Case { dlchannel: Some((idx, f)), draw, ..base(abp.clone()) });
                        }
                    }
                }
            }
            // P8: create a channel, give it a downlink frequency, redefine it: the uplinks on the new frequency
            // have their RX1 there as well
            if !fixed {
                let fq = cmds::freqs(region);
                for idx in [3u8, 8] {
                    for draw in 0..16u32 {
                        cases.push(Case { newchannel: Some((idx, fq[3])), dlchannel: Some((idx, fq[2])), redefine: Some((idx, fq[3] + 400_000)), draw, ..base(abp.clone()) });
                    }
                }
            }
            // P9: the mask is left with only an extra channel, the extra channel is then deleted: the next uplink
            // falls back to the default channels, whose negotiated downlink frequencies are still in force
            if !fixed {
                let fq = cmds::freqs(region);
                for idx in 0..rr::default_channels(region).len() as u8 {
                    for draw in 0..8u32 {
                        cases.push(Case {
                            newchannel: Some((3, fq[3])),
                            dlchannel: Some((idx, fq[2])),
                            extra: vec![cmds::link_adr(15, 15, 0x0008, 0, 1, false).bytes, vec![0x07, 3, 0, 0, 0, 0x50]],
                            draw,
                            ..base(abp.clone())
                        });
                    }
                }
            }
            // P7: a re-join on a default channel whose downlink frequency was remapped (dynamic plans)
            if !fixed {
                for idx in 0..3u8 {
                    for f in [cmds::freqs(region)[3], cmds::freqs(region)[2]] {
                        for draw in 0..8u32 {
                            cases.push(Case { dlchannel: Some((idx, f)), join: true, draw, ..base(abp.clone()) });
                        }
                    }
                }
            }
            // P5: joins (fixed plans: join bias settings and every channel)
            let biases: Vec<Option<(u8, usize)>> = if fixed { vec![None, Some((1, 1)), Some((2, 1)), Some((8, 1)), Some((2, 8))] } else { vec![None] };
            for b in biases {
                for draw in 0..64u32 {
                    if !fixed && draw >= 8 {
                        continue;
                    }
                    let mut dev = DevCfg::otaa(region);
                    dev.bias = b;
                    for offs in [0i32, 50] {
                        dev.offset_ms = offs;
                        cases.push(Case { join: true, draw, ..base(dev.clone()) });
                    }
                }
            }
            // P5b: the n-th join attempt after n-1 unanswered ones (fixed plans: the walk over all 72 join channels)
            if fixed {
                for b in [None, Some((1u8, 1usize)), Some((8, 1)), Some((2, 8))] {
                    for draw in 0..64u32 {
                        for prior in 1..=9usize {
                            let mut dev = DevCfg::otaa(region);
                            dev.bias = b;
                            cases.push(Case { join: true, draw, prior_joins: prior, ..base(dev.clone()) });
                        }
                    }
                }
            }
            // P6 (nb): a data rate change between TX and the windows must not move them
            if front == "nb" {
                for &d in &drs {
                    for &d2 in &drs {
                        cases.push(Case { dr: Some(d), dr_between: Some(d2), ..base(abp.clone()) });
                    }
                }
            }
        }
    }
    let nontrivial = AtomicU64::new(0);
    cases.par_iter().for_each(|c| {
        let v = eval(c);
        if c.rxparam.is_some() || c.rxdelay.is_some() || c.dlchannel.is_some() || c.join {
            nontrivial.fetch_add(1, Ordering::Relaxed);
        }
        for (sig, what) in v {
            ctx.violation(sig, what, serde_json::to_value(c).unwrap(), 0);
        }
        ctx.tick(1);
    });
    // --- history layer
    let depth = if crate::ctx::deep() { 5 } else if th { 4 } else { 3 };
    let mut states = 0u64;
    let mut transitions = 0u64;
    let mut capped = false;
    let mut outcomes: std::collections::BTreeMap<String, u64> = Default::default();
    let mut hist_cfgs = vec![];
    for region in &regions {
        for front in fronts {
            for otaa in [false, true] {
                for offs in [0i32, 50] {
                    if offs != 0 && (otaa || !th) {
                        continue;
                    }
                    let mut dev = if otaa { DevCfg::otaa(region) } else { DevCfg::abp(region) };
                    dev.offset_ms = offs;
                    if front == "nb" {
                        dev.clock_start = Some(0xFFFF_E000);
                    }
                    hist_cfgs.push(HistCfg { front: front.into(), dev: dev.clone() });
                    if !otaa && offs == 0 && front != "nb" && *region == "EU868" {
                        // an application that leaves received downlinks in the (one-entry) queue through the next uplink
                        let mut d = dev.clone();
                        d.hold_downlinks = true;
                        hist_cfgs.push(HistCfg { front: front.into(), dev: d });
                    }
                    // fixed plans joined under a join bias: the first data uplinks stay on the preferred sub-band at a
                    // forced data rate - the windows follow the rate actually used, not the configured one
                    if otaa && rr::is_fixed(region) && offs == 0 {
                        for bias in [(2u8, 1usize), (2, 8)] {
                            let mut d = dev.clone();
                            d.bias = Some(bias);
                            hist_cfgs.push(HistCfg { front: front.into(), dev: d });
                        }
                    }
                }
            }
        }
    }
    for hc in &hist_cfgs {
        let cj = serde_json::to_value(hc).unwrap();
        let st = explore::bfs(&ctx, &json!({"hist": cj}), &|| WSys::new(&hc.front, &hc.dev), depth, 600_000);
        states += st.states;
        transitions += st.transitions;
        capped |= st.capped;
        for (k, v) in st.outcomes {
            *outcomes.entry(k).or_insert(0) += v;
        }
    }
    let coverage = json!({
        "states": states,
        "transitions": transitions,
        "traces_validated_against_impl": transitions,
        "history_depth": depth,
        "history_configurations": hist_cfgs.len(),
        "history_outcomes": outcomes,
        "capped": capped,
        "evaluations": ctx.evals(),
        "distinct_nontrivial": nontrivial.load(Ordering::Relaxed),
        "rule": "(H) BFS over histories on one device instance per region x front-end x {ABP, OTAA, OTAA under a join bias with 1 / 8 retries (72-channel plans)}: uplinks (first RNG draw from a set), uplinks answered in RX1 or RX2 by RXParamSetupReq (valid: offset 1 / regional maximum, another RX2 data rate and frequency, back to the defaults; invalid in one field: RX2 data rate 14 (RFU in every region), out-of-band frequency, offset above the regional maximum), RXTimingSetupReq 0 / 2 / 15 (also together with application payload, on async devices whose application leaves downlinks in the queue through the next uplink), DlChannelReq (also refused ones: out of band, zero), NewChannelReq create / redefine / delete, LinkADRReq (mask down to the extra channel, all channels, lowest data rate), set_datarate lowest / highest, (nb) set_datarate between TX and the windows, (async) a radio call of the uplink failing once, (Class C) a continuous reception between the windows reporting an error, unanswered join attempts and (re-)joins whose accept carries other DLSettings / RxDelay in RX1 or RX2; every transaction that transmits is judged against a reference model of the parameters in force (updated only by requests that are unambiguously valid) and the regional tables: RX1 frequency and data rate, RX2 frequency and data rate, Class C parameters, window size limits, window times (nb clock started shortly before its 2^32 ms wrap); states = distinct (device snapshot minus counters and keys, front-end state, reference model). Plus eight full sub-products per region and front-end (nb, async, async+Class C), each case a fresh real device brought into the configuration by authentic RXParamSetupReq / RXTimingSetupReq / DlChannelReq downlinks and set_datarate: (P1) every region-defined uplink data rate x RX1DROffset 0..7 x first RNG draw (all 64 for the 72-channel plans); (P2) RXTimingSetupReq delay 0..15 x board offset/lead {0,15,50,100} x TX end time; (P2b, nb) TX end times around 2^31 ms and the 2^32 ms wrap of the clock x delay x offset; (P2c, nb) boards whose receive windows last 999 / 1000 / 1001 / 1500 / 2500 ms (RX1 still open when RX2 is due); (P3) all 16 RX2 data rate values x 2 frequencies x lowest/highest uplink rate; (P4) DlChannelReq on channels 0..3 x 2 frequencies x draws; (P5) joins under join-bias settings x draws; (P6, nb) set_datarate between TX and the windows; (P7) a re-join on a default channel after DlChannelReq remapped its downlink frequency; (P8) NewChannelReq, DlChannelReq, then a NewChannelReq redefining the same channel; (P9) DlChannelReq on a default channel, the mask reduced to an extra channel, that channel deleted (fallback to the default channels). non-trivial = cases with an installed override or a join",
        "samples": [serde_json::to_value(&cases[0]).unwrap(), serde_json::to_value(&cases[cases.len() / 2]).unwrap(), serde_json::to_value(cases.last().unwrap()).unwrap()],
        "exhaustive": !capped,
        "regions": regions,
    });
    let replayer = |cj: &Value| -> Vec<String> { replay_any(cj) };
    ctx.finish(
        "model_checking",
        coverage,
        vec![
            "regional tables: /verif/harness/mc/src/refregion.rs (RP002-1.0.x; set-valued where revisions differ)".into(),
            "where the RX1 table yields a rate the stack does not implement (FSK/LR-FHSS) only 'some region-defined LoRa rate' is required".into(),
            "nb: the sign convention of the declared window offset is not fixed by the documentation; either sign is accepted".into(),
            "the uplink channel/data rate 'actually used' are read from the TxConfig handed to the radio".into(),
        ],
        Some(&replayer),
    );
}

// ------------------------------------------------------------------------------------------------
// History layer: BFS over sequences of window-relevant commands, data-rate changes, (re-)joins and
// uplinks on one device instance; every transaction that transmits is judged against a reference
// model of the parameters in force (updated only by requests that are unambiguously valid for the
// region) and the regional tables.
// ------------------------------------------------------------------------------------------------

#[derive(Clone, Debug, Serialize, Deserialize, PartialEq, Eq, Hash)]
pub enum WEv {
    Up { draw: u32 },
    /// uplink transaction answered by a downlink that carries `bytes` in FOpts, in RX1 or RX2
    Cmd { label: String, bytes: Vec<u8>, window: u8 },
    SetDr(u8),
    /// nb: uplink during which the application changes the data rate between TX and the windows
    UpDrBetween { d: u8 },
    JoinTry { draw: u32 },
    JoinOk { dl_settings: u8, rx_delay: u8, window: u8 },
    /// async: uplink during which the `k`-th radio call fails once (a failed continuous reception between the
    /// windows must not move them)
    UpFault { k: usize },
    /// async + Class C: the continuous reception before RX1 (1) / before RX2 (2) reports an error
    UpRxcError { which: u8 },
}

#[derive(Clone, Debug, PartialEq, Eq, Hash)]
pub enum ChanM {
    Undefined,
    /// uplink frequency, admissible RX1 frequencies
    Known(u32, Vec<u32>),
    /// the statement does not say what a (re-)join does to it: the snapshot decides
    Unknown,
}

#[derive(Clone, Debug, PartialEq, Eq, Hash)]
pub struct WModel {
    off: u8,
    rx2_dr: u8,
    rx2_f: u32,
    delay_ms: u64,
    chans: Vec<ChanM>,
    /// off / RX2 / delay are the regional defaults (nothing negotiated yet in this session)
    defaults: bool,
}

impl WModel {
    fn fresh(region: &str) -> WModel {
        let (f, d) = rr::rx2_default(region);
        let mut chans = vec![ChanM::Undefined; 16];
        if !rr::is_fixed(region) {
            for (i, c) in rr::default_channels(region).into_iter().enumerate() {
                chans[i] = ChanM::Known(c, vec![c]);
            }
        }
        WModel { off: 0, rx2_dr: d, rx2_f: f, delay_ms: 1000, chans, defaults: true }
    }

    /// effect of one request of the alphabet (requests that are invalid for the region change nothing)
    /// `mask`: the channel mask in force when the request arrived (snapshot)
    fn command(&mut self, region: &str, b: &[u8], mask: &[u8]) {
        let (lo, hi) = rr::band(region);
        let inband = |f: u32| f >= lo && f <= hi;
        let f24 = |x: &[u8]| (x[0] as u32 | (x[1] as u32) << 8 | (x[2] as u32) << 16) * 100;
        if b.is_empty() {
            return;
        }
        match b[0] {
            0x05 => {
                let (off, dr2, f) = ((b[1] >> 4) & 7, b[1] & 0x0F, f24(&b[2..5]));
                if off <= rr::max_rx1_offset(region) && rr::dr(region, dr2).is_some() && inband(f) {
                    self.off = off;
                    self.rx2_dr = dr2;
                    self.rx2_f = f;
                    self.defaults = false;
                }
            }
            0x08 => {
                self.delay_ms = ((b[1] & 0x0F).max(1) as u64) * 1000;
                self.defaults = false;
            }
            0x0A if !rr::is_fixed(region) => {
                let (idx, f) = (b[1] as usize, f24(&b[2..5]));
                if idx < 16 && inband(f) {
                    if let ChanM::Known(_, dl) = &mut self.chans[idx] {
                        if mask.get(idx / 8).map(|m| m & (1 << (idx % 8)) != 0).unwrap_or(false) {
                            *dl = vec![f];
                        } else if !dl.contains(&f) {
                            // a defined channel that the mask has switched off: the specification lets the request
                            // through, the stack refuses it (and says so in its answer) - either is admitted
                            dl.push(f);
                        }
                    }
                }
            }
            0x07 if !rr::is_fixed(region) => {
                let (idx, f) = (b[1] as usize, f24(&b[2..5]));
                let nd = rr::default_channels(region).len();
                if idx >= nd && idx < 16 {
                    if f == 0 {
                        self.chans[idx] = ChanM::Undefined;
                    } else if inband(f) {
                        self.chans[idx] = ChanM::Known(f, vec![f]);
                    }
                }
            }
            _ => {}
        }
    }

    fn joined(&mut self, region: &str, dl_settings: u8, rx_delay: u8) {
        let (f, d) = rr::rx2_default(region);
        let (off, dr2) = ((dl_settings >> 4) & 7, dl_settings & 0x0F);
        // (the alphabet only holds settings that are valid for the region)
        self.off = off;
        self.rx2_dr = if rr::dr(region, dr2).is_some() { dr2 } else { d };
        self.rx2_f = f;
        self.delay_ms = ((rx_delay & 0x0F).max(1) as u64) * 1000;
        self.defaults = off == 0 && self.rx2_dr == d && self.delay_ms == 1000;
        // what a join does to negotiated downlink frequencies and to extra channels is not stated: a default
        // channel keeps its uplink frequency and may keep a remapped downlink frequency; extra channels are unknown
        let nd = rr::default_channels(region).len();
        for (i, c) in self.chans.iter_mut().enumerate() {
            if rr::is_fixed(region) {
                continue;
            }
            if i < nd {
                if let ChanM::Known(up, dl) = c {
                    if !dl.contains(up) {
                        dl.push(*up);
                    }
                }
            } else if *c != ChanM::Undefined {
                *c = ChanM::Unknown;
            }
        }
    }
}

struct Seen {
    join: bool,
    tx: Option<Rf>,
    rx: Vec<Rf>,
    /// continuous receptions set up before the last single-shot window of the transaction (between the windows)
    rxc: Vec<Rf>,
    /// ... and after it (the listening the device returns to once the transaction is over)
    rxc_after: Vec<Rf>,
    times: Vec<u64>,
    ts: u64,
    before: Option<VerifMac>,
    panic: Option<String>,
    /// the public call returned an error (a radio fault the call does not survive): nothing to judge
    failed: bool,
}

fn judge_history_tx(region: &str, front: &str, dev: &DevCfg, model: &WModel, o: &Seen) -> Vec<(String, String)> {
    let mut v = vec![];
    let Some(tx) = &o.tx else { return v };
    let Some(before) = &o.before else { return v };
    let kind = if o.join { "join" } else { "data" };
    let rk = if rr::is_fixed(region) { "fixed" } else { "dynamic" };
    if o.rx.is_empty() {
        return vec![(format!("C10|{front}|window-count"), "no receive window was opened after the transmission".into())];
    }
    let up_drs: Vec<u8> = rr::dr_index(region, tx.sf, tx.bw).into_iter().filter(|d| *d <= 7).collect();
    // --- RX1 frequency
    let want_f: Option<Vec<u32>> = if rr::is_fixed(region) {
        rr::fixed_channel_of(region, tx.freq).map(|c| vec![rr::fixed_downlink(c)])
    } else {
        let known: Vec<&ChanM> = model.chans.iter().filter(|c| matches!(c, ChanM::Known(u, _) if *u == tx.freq)).collect();
        if !known.is_empty() {
            Some(known.iter().flat_map(|c| if let ChanM::Known(_, dl) = c { dl.clone() } else { vec![] }).collect())
        } else if model.chans.iter().any(|c| *c == ChanM::Unknown) {
            before.region.channels.iter().flatten().find(|ch| ch.frequency == tx.freq).map(|ch| vec![ch.dl_frequency.unwrap_or(ch.frequency)])
        } else {
            None
        }
    };
    if let Some(w) = &want_f
        && !w.contains(&o.rx[0].freq)
    {
        v.push((
            format!("C10|{front}|rx1-frequency|{rk}|{kind}"),
            format!("uplink on {} Hz, RX1 opened on {} Hz, paired downlink frequency is {:?} Hz", tx.freq, o.rx[0].freq, w),
        ));
    }
    // --- RX1 data rate (joins: only when nothing is negotiated; otherwise whether the join windows use the
    // negotiated or the default parameters is not stated)
    let strict = !o.join || model.defaults;
    let got1 = rr::dr_index(region, o.rx[0].sf, o.rx[0].bw);
    if got1.is_empty() {
        v.push((format!("C10|{front}|rx1-undefined-datarate|{rk}|{kind}"), format!("RX1 uses SF{}/{} Hz which the region does not define", o.rx[0].sf, o.rx[0].bw)));
    } else if strict {
        let mut want1: Vec<u8> = vec![];
        for u in &up_drs {
            want1.extend(rr::rx1_dr(region, *u, model.off));
        }
        let want1_lora: Vec<u8> = want1.iter().copied().filter(|d| rr::dr(region, *d).is_some()).collect();
        if !up_drs.is_empty() && want1_lora.len() == want1.len() && !want1.is_empty() && !got1.iter().any(|g| want1_lora.contains(g)) {
            v.push((
                format!("C10|{front}|rx1-datarate|{rk}|{kind}"),
                format!("uplink DR{:?} (SF{}/{}), RX1DROffset in force {}: RX1 opened at DR{:?}, regional table gives DR{:?}", up_drs, tx.sf, tx.bw, model.off, got1, want1),
            ));
        }
    }
    // --- RX2
    if let Some(r2) = o.rx.get(1) {
        if strict {
            if r2.freq != model.rx2_f {
                v.push((format!("C10|{front}|rx2-frequency|{rk}|{kind}"), format!("RX2 opened on {} Hz, negotiated/default is {} Hz", r2.freq, model.rx2_f)));
            }
            if let Some(d) = rr::dr(region, model.rx2_dr)
                && (r2.sf, r2.bw) != (d.sf, d.bw)
            {
                v.push((
                    format!("C10|{front}|rx2-datarate|{rk}|{kind}"),
                    format!("RX2 opened at SF{}/{}, negotiated/default DR{} is SF{}/{}", r2.sf, r2.bw, model.rx2_dr, d.sf, d.bw),
                ));
            }
        } else if !lora_defined(region, r2.sf, r2.bw) {
            v.push((format!("C10|{front}|rx2-undefined-datarate|{rk}|{kind}"), format!("SF{}/{}", r2.sf, r2.bw)));
        }
        for r in &o.rxc {
            if r.freq != r2.freq || r.sf != r2.sf || r.bw != r2.bw {
                v.push((
                    format!("C10|{front}|classc-not-rx2-parameters|{rk}"),
                    format!("continuous reception on {} Hz SF{}/{} while RX2 is {} Hz SF{}/{}", r.freq, r.sf, r.bw, r2.freq, r2.sf, r2.bw),
                ));
            }
        }
    }
    for (w, r) in o.rx.iter().enumerate() {
        let idx = rr::dr_index(region, r.sf, r.bw);
        if !idx.is_empty() && !idx.iter().any(|d| rr::max_payload(region, *d).contains(&r.max_len)) {
            v.push((format!("C10|{front}|window-size-limit|{rk}"), format!("RX{} at DR{:?} carries max MACPayload {}", w + 1, idx, r.max_len)));
        }
    }
    // --- timing
    let d1: u64 = if o.join { 5000 } else { model.delay_ms };
    let ts = o.ts;
    if front == "nb" {
        let off = dev.offset_ms as i64;
        let m = |x: i64| x.rem_euclid(1 << 32);
        if let Some(&t1) = o.times.first() {
            let t1 = t1 as i64;
            if !(t1 == m((ts + d1) as i64 + off) || t1 == m((ts + d1) as i64 - off)) {
                v.push((format!("C10|nb|rx1-time|{kind}"), format!("RX1 requested at {t1} ms; TX ended at {ts} ms, delay in force {d1} ms, declared offset {off} ms")));
            }
            if let Some(&t2) = o.times.get(2)
                && t2 as i64 != m(t1 + 1000)
            {
                v.push((format!("C10|nb|rx2-time|{kind}"), format!("RX2 requested at {t2} ms, RX1 at {t1} ms (must be RX1 + 1000 ms)")));
            }
        } else {
            v.push((format!("C10|nb|timeouts-missing|{kind}"), "no timeout was requested after the transmission".into()));
        }
    } else {
        let lead = dev.offset_ms.unsigned_abs() as u64;
        let want = [ts + d1 - lead.min(ts + d1), ts + d1 + 1000 - lead.min(ts + d1)];
        if o.times.is_empty() || o.times.len() > 2 || o.times[..] != want[..o.times.len()] {
            v.push((format!("C10|{front}|window-times|{kind}"), format!("timer waits {:?}; expected {:?} (TX end {ts}, delay in force {d1}, lead {lead})", o.times, want)));
        }
    }
    v
}

pub struct WSys {
    nb: Option<NbCore<14, 0>>,
    /// (the async device with the documented default of a one-entry downlink queue)
    ac: Option<ACore<14, 0, 256, 1>>,
    front: String,
    dev: DevCfg,
    model: WModel,
    joined: bool,
    n_tx: u32,
    outcome: String,
    /// the next transaction's continuous reception before RX1 (1) / RX2 (2) reports an error
    rxc_error: u8,
}

impl WSys {
    pub fn new(front: &str, dev: &DevCfg) -> Self {
        let (nb, ac) = if front == "nb" { (Some(NbCore::new(dev)), None) } else { (None, Some(ACore::new(dev, front == "async-c"))) };
        WSys { nb, ac, front: front.into(), dev: dev.clone(), model: WModel::fresh(&dev.region), joined: !dev.otaa, n_tx: 0, outcome: String::new(), rxc_error: 0 }
    }

    fn snap(&self) -> VerifMac {
        match (&self.nb, &self.ac) {
            (Some(c), _) => c.snap(),
            (_, Some(c)) => c.snap(),
            _ => unreachable!(),
        }
    }

    /// Runs one transaction and collects what the radio and the timer were asked to do.
    fn transact(&mut self, join: bool, draw: u32, rx1: Option<Frame>, rx2: Option<Frame>, dr_between: Option<u8>, fault_at: Option<usize>) -> Seen {
        let rxc_error = std::mem::take(&mut self.rxc_error);
        let mut o = Seen { join, tx: None, rx: vec![], rxc: vec![], rxc_after: vec![], times: vec![], ts: 0, before: None, panic: None, failed: false };
        self.n_tx += 1;
        if let Some(core) = &mut self.nb {
            core.apply(&Ev::Rng(if join { vec![0x1234, draw] } else { vec![draw] }));
            o.ts = core.tx_done_ms as u64;
            o.before = Some(core.snap());
            let micros: Vec<Micro> = if let Some(d) = dr_between {
                let mut ms = vec![];
                for e in [Ev::Send { confirmed: false, port: 1, len: 1 }, Ev::TxDone, Ev::SetDr(d), Ev::Timeout, Ev::Timeout, Ev::Timeout, Ev::Timeout] {
                    ms.extend(core.apply(&e));
                }
                ms
            } else if join {
                core.apply(&Ev::JoinCycle { rx1, rx2 })
            } else {
                core.apply(&Ev::Cycle { confirmed: false, port: 1, len: 1, rx1, rx2 })
            };
            for m in &micros {
                if let Resp::Panic(p) = &m.resp {
                    o.panic = Some(p.clone());
                }
                for op in &m.ops {
                    match op {
                        RadioOp::Tx { rf, .. } => o.tx = Some(rf.clone()),
                        RadioOp::RxReq { rf, .. } => o.rx.push(rf.clone()),
                        _ => {}
                    }
                }
                if let (Resp::TimeoutRequest(t), Ev::TxDone | Ev::Timeout) = (&m.resp, &m.ev) {
                    o.times.push(*t as u64);
                }
            }
        } else if let Some(core) = &mut self.ac {
            // the transmission of the n-th transaction ends at a different time of the board's clock
            let ts = (self.n_tx as u64 - 1) * 7919 % 50_000;
            core.inner.borrow_mut().tx_done_ms = ts as u32;
            o.ts = ts;
            core.apply(&AEv::Rng(if join { vec![0x1234, draw] } else { vec![draw] }));
            o.before = Some(core.snap());
            let script = Script { rx1, rx2, fault_at, rxc1_fail: rxc_error == 1, rxc2_fail: rxc_error == 2, ..Default::default() };
            let ev = if join { AEv::Join(script) } else { AEv::Send { confirmed: false, port: 1, len: 1, script } };
            match core.apply(&ev) {
                None => o.panic = Some("dead".into()),
                Some(st) => {
                    if let AResp::Panic(p) = &st.resp {
                        o.panic = Some(p.clone());
                    }
                    o.failed = matches!(st.resp, AResp::ErrRadio | AResp::ErrMac(_));
                    for op in &st.ops {
                        match op {
                            AOp::Tx { rf, .. } => o.tx = Some(rf.clone()),
                            AOp::SetupRx { rf, single_ms: Some(_), .. } => {
                                o.rx.push(rf.clone());
                                o.rxc.append(&mut o.rxc_after);
                            }
                            AOp::SetupRx { rf, single_ms: None, .. } => o.rxc_after.push(rf.clone()),
                            AOp::TimerAt(t) => o.times.push(*t),
                            _ => {}
                        }
                    }
                }
            }
        }
        o
    }
}

fn w_alphabet(region: &str, nb: bool, joined: bool, otaa: bool) -> Vec<WEv> {
    let fixed = rr::is_fixed(region);
    let fq = cmds::freqs(region);
    let (def_f, def_dr) = rr::rx2_default(region);
    let alt_dr = (0..14u8).find(|d| *d != def_dr && rr::dr(region, *d).is_some() && rr::max_payload(region, *d).len() == 1).unwrap_or(def_dr);
    let draws: Vec<u32> = if fixed { vec![0, 9, 37, 63] } else { vec![0, 1, 3] };
    let mut v = vec![];
    if !joined {
        for &d in &draws {
            v.push(WEv::JoinTry { draw: d });
        }
        v.push(WEv::JoinOk { dl_settings: def_dr, rx_delay: 1, window: 1 });
        v.push(WEv::JoinOk { dl_settings: (1 << 4) | alt_dr, rx_delay: 3, window: 2 });
        return v;
    }
    for &d in &draws {
        v.push(WEv::Up { draw: d });
    }
    let rxp = |dl: u8, f: u32| {
        let b = cmds::freq_bytes(f);
        vec![0x05, dl, b[0], b[1], b[2]]
    };
    let maxoff = rr::max_rx1_offset(region);
    let mut c: Vec<(String, Vec<u8>)> = vec![
        ("rxparam-off1".into(), rxp((1 << 4) | def_dr, def_f)),
        ("rxparam-offmax-altdr-altf".into(), rxp((maxoff << 4) | alt_dr, fq[3])),
        ("rxparam-default".into(), rxp(def_dr, def_f)),
        // one field invalid: nothing may change
        ("rxparam-rx2dr14".into(), rxp((2 << 4) | 14, fq[3])),
        ("rxparam-out-of-band".into(), rxp((2 << 4) | alt_dr, fq[1])),
        ("rxtiming-2".into(), vec![0x08, 2]),
        ("rxtiming-15".into(), vec![0x08, 15]),
        ("rxtiming-0".into(), vec![0x08, 0]),
    ];
    if maxoff < 7 {
        c.push(("rxparam-off-above-max".into(), rxp(((maxoff + 1) << 4) | alt_dr, fq[3])));
    }
    if !fixed {
        let b3 = cmds::freq_bytes(fq[3]);
        let b2 = cmds::freq_bytes(fq[2] + 300_000);
        let b4 = cmds::freq_bytes(fq[3] + 400_000);
        c.push(("dlchannel-0".into(), vec![0x0A, 0, b3[0], b3[1], b3[2]]));
        c.push(("dlchannel-3".into(), vec![0x0A, 3, b2[0], b2[1], b2[2]]));
        // refused requests (frequency outside the band / zero): the pairing negotiated earlier stays in force
        let bo = cmds::freq_bytes(fq[1]);
        c.push(("dlchannel-0-out-of-band".into(), vec![0x0A, 0, bo[0], bo[1], bo[2]]));
        c.push(("dlchannel-3-out-of-band".into(), vec![0x0A, 3, bo[0], bo[1], bo[2]]));
        c.push(("dlchannel-0-zero".into(), vec![0x0A, 0, 0, 0, 0]));
        c.push(("newchannel-3".into(), vec![0x07, 3, b3[0], b3[1], b3[2], 0x50]));
        c.push(("newchannel-3-other".into(), vec![0x07, 3, b4[0], b4[1], b4[2], 0x50]));
        c.push(("newchannel-3-delete".into(), vec![0x07, 3, 0, 0, 0, 0x50]));
        c.push(("only-ch3".into(), cmds::link_adr(15, 15, 0x0008, 0, 1, false).bytes));
        c.push(("all-channels".into(), cmds::link_adr(15, 15, 0x000F, 0, 1, false).bytes));
    }
    // downlinks that also carry application payload (it goes to the application's downlink queue, which may be full)
    c.push(("plain+data".into(), vec![]));
    c.push(("rxtiming-3+data".into(), vec![0x08, 3]));
    let drs: Vec<u8> = (0..8).filter(|d| rr::dr(region, *d).is_some() && !(region == "EU868" && *d == 6)).collect();
    let (lo_dr, hi_dr) = (drs[0], *drs.last().unwrap());
    c.push(("adr-lowest".into(), cmds::link_adr(lo_dr, 15, 0, 6, 1, false).bytes));
    for (l, b) in c {
        let two = l.starts_with("rxparam-off1") || l.starts_with("rxtiming-2") || l.starts_with("dlchannel-0");
        v.push(WEv::Cmd { label: l.clone(), bytes: b.clone(), window: 1 });
        if two {
            v.push(WEv::Cmd { label: l, bytes: b, window: 2 });
        }
    }
    v.push(WEv::SetDr(lo_dr));
    v.push(WEv::SetDr(hi_dr));
    if nb {
        v.push(WEv::UpDrBetween { d: lo_dr });
        v.push(WEv::UpDrBetween { d: hi_dr });
    } else {
        // radio calls of an uplink: tx, [continuous set-up, continuous reception,] RX1 set-up, RX1, ...
        for k in 1..9usize {
            v.push(WEv::UpFault { k });
        }
        v.push(WEv::UpRxcError { which: 1 });
        v.push(WEv::UpRxcError { which: 2 });
    }
    if otaa {
        v.push(WEv::JoinTry { draw: draws[1] });
        v.push(WEv::JoinOk { dl_settings: (1 << 4) | alt_dr, rx_delay: 3, window: 1 });
        v.push(WEv::JoinOk { dl_settings: def_dr, rx_delay: 0, window: 1 });
    }
    v
}

impl System for WSys {
    type Ev = WEv;
    type Key = (VerifMac, Option<VerifNbState>, WModel, bool, usize);

    fn enabled(&self) -> Vec<WEv> {
        w_alphabet(&self.dev.region, self.front == "nb", self.joined, self.dev.otaa)
    }

    fn step(&mut self, ev: &WEv) -> Vec<V> {
        let region = self.dev.region.clone();
        let front = self.front.clone();
        let down = |b: &Vec<u8>| Frame::Down { fcnt: Fcnt::Rel(1), confirmed: false, ack: false, fopts: b.clone(), port: None, payload: vec![], tamper: Tamper::None };
        let ja = |dl: u8, rd: u8, n: u32| Frame::JoinAccept { join_nonce: 0x20 + n, net_id: 0x13, devaddr: DEVADDR, dl_settings: dl, rx_delay: rd, cflist: None, tamper: Tamper::None, trunc: 0 };
        let model_before = self.model.clone();
        let model_mask: Vec<u8> = self.snap().region.channel_mask.to_vec();
        let o = match ev {
            WEv::Up { draw } => self.transact(false, *draw, None, None, None, None),
            WEv::Cmd { bytes, window, label } => {
                // (labels ending in "+data": the downlink also carries application payload, which goes to the queue)
                let f = if label.ends_with("+data") {
                    Some(Frame::Down { fcnt: Fcnt::Rel(1), confirmed: false, ack: false, fopts: bytes.clone(), port: Some(1), payload: vec![1], tamper: Tamper::None })
                } else {
                    Some(down(bytes))
                };
                if *window == 1 { self.transact(false, 0, f, None, None, None) } else { self.transact(false, 0, None, f, None, None) }
            }
            WEv::UpDrBetween { d } => self.transact(false, 0, None, None, Some(*d), None),
            WEv::UpFault { k } => self.transact(false, 0, None, None, None, Some(*k)),
            WEv::UpRxcError { which } => {
                self.rxc_error = *which;
                self.transact(false, 0, None, None, None, None)
            }
            WEv::JoinTry { draw } => self.transact(true, *draw, None, None, None, None),
            WEv::JoinOk { dl_settings, rx_delay, window } => {
                let f = Some(ja(*dl_settings, *rx_delay, self.n_tx));
                if *window == 1 { self.transact(true, 0, f, None, None, None) } else { self.transact(true, 0, None, f, None, None) }
            }
            WEv::SetDr(d) => {
                if let Some(c) = &mut self.nb {
                    c.apply(&Ev::SetDr(*d));
                } else if let Some(c) = &mut self.ac {
                    c.apply(&AEv::SetDr(*d));
                }
                self.outcome = "set_datarate".into();
                return vec![];
            }
        };
        let mut out = vec![];
        if let Some(p) = &o.panic {
            out.push(V { sig: format!("C10|{front}|panic|{}", panic_site(p)), what: p.clone() });
            self.outcome = "panic".into();
            return out;
        }
        if o.failed {
            self.outcome = "radio-error".into();
            return out;
        }
        for (sig, what) in judge_history_tx(&region, &front, &self.dev, &model_before, &o) {
            out.push(V { sig, what });
        }
        // the transaction's downlink takes effect for the NEXT uplink
        let after = self.snap();
        match ev {
            WEv::Cmd { bytes, .. } => self.model.command(&region, bytes, &model_mask),
            WEv::JoinOk { dl_settings, rx_delay, .. } => {
                if matches!(after.state, VerifMacState::Joined(_)) {
                    self.model.joined(&region, *dl_settings, *rx_delay);
                    self.joined = true;
                } else {
                    out.push(V { sig: format!("C10|{front}|join-not-completed"), what: "an authentic JoinAccept in a join window did not join the device".into() });
                }
            }
            WEv::JoinTry { .. } => {
                self.joined = matches!(after.state, VerifMacState::Joined(_));
            }
            _ => {}
        }
        // Class C: the listening the device returns to after the transaction uses the RX2 parameters in force then
        if self.joined && (!o.join || matches!(ev, WEv::JoinOk { .. })) {
            let rk = if rr::is_fixed(&region) { "fixed" } else { "dynamic" };
            for r in &o.rxc_after {
                let dr_ok = match rr::dr(&region, self.model.rx2_dr) {
                    Some(d) => (r.sf, r.bw) == (d.sf, d.bw),
                    None => true,
                };
                if r.freq != self.model.rx2_f || !dr_ok {
                    out.push(V {
                        sig: format!("C10|{front}|classc-after-transaction-not-rx2-parameters|{rk}"),
                        what: format!("continuous reception after the transaction on {} Hz SF{}/{} while the RX2 parameters in force are {} Hz DR{}", r.freq, r.sf, r.bw, self.model.rx2_f, self.model.rx2_dr),
                    });
                }
            }
        }
        self.outcome = format!("{}{}", if o.join { "join" } else { "data" }, o.rx.len());
        out
    }

    fn key(&self) -> Self::Key {
        let mut s = self.snap();
        if let VerifMacState::Joined(ref mut j) = s.state {
            j.fcnt_up = 0;
            j.fcnt_down = None;
            j.adr_ack_cnt = 0;
            j.nwkskey = [0; 16];
            j.appskey = [0; 16];
        }
        if let VerifMacState::Otaa { ref mut dev_nonce } = s.state {
            *dev_nonce = 0;
        }
        // (applications that leave downlinks in the queue: how many wait there is part of the state)
        let parity = match self.snap().state {
            VerifMacState::Joined(j) => (j.fcnt_up % 2) as usize,
            _ => 0,
        };
        let q = if self.dev.hold_downlinks { self.ac.as_ref().map(|c| c.dev.verif_queued_downlinks()).unwrap_or(0) + parity * 16 } else { 0 };
        (s, self.nb.as_ref().map(|c| c.st()), self.model.clone(), self.joined, q)
    }

    fn alive(&self) -> bool {
        self.nb.as_ref().map(|c| c.dead.is_none()).unwrap_or(true) && self.ac.as_ref().map(|c| c.dead.is_none()).unwrap_or(true)
    }

    fn outcome(&self) -> String {
        self.outcome.clone()
    }
}

fn replay_any(cj: &Value) -> Vec<String> {
    if let Some(h) = cj.get("cfg").and_then(|c| c.get("hist")) {
        let hc: HistCfg = serde_json::from_value(h.clone()).expect("hist cfg");
        let hist: Vec<WEv> = serde_json::from_value(cj["history"].clone()).expect("history");
        explore::replay(&|| WSys::new(&hc.front, &hc.dev), &hist)
    } else {
        let c: Case = serde_json::from_value(cj.clone()).expect("case");
        eval(&c).into_iter().map(|x| x.0).collect()
    }
}

#[derive(Clone, Debug, Serialize, Deserialize)]
pub struct HistCfg {
    pub front: String,
    pub dev: DevCfg,
}
