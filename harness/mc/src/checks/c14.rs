//! C14 — the PHY driver and the radio chip never disagree about the radio's state.
//!
//! Explicit-state search over sequences of physical-layer API calls on the real `LoRa` driver
//! (and the LoRaWAN radio adapter) running against the datasheet chip models of `chips.rs`.
//! Every call is combined with every chip interrupt outcome, a spurious interrupt, a fault at
//! every environment position it consumes (SPI transaction, BUSY wait, interrupt wait, RF
//! switch, reset) and a drop of the future at every wait it can be parked on. After every call
//! the driver's bookkeeping (cfg-guarded accessors) is compared with the chip model.
use crate::adev::drive;
use crate::checks::load_case;
use crate::chips::{Mode, Outcome, Sx126xChip, Sx127xChip};
use crate::ctx::{Ctx, Tier, catch, panic_site};
use crate::explore::{System, V, bfs, replay};
use crate::phy::{Env, MockDelay, MockIv, MockSpi};
use lora_modulation::{Bandwidth, BaseBandModulationParams, CodingRate, SpreadingFactor};
use lora_phy::lorawan_radio::LorawanRadio;
use lora_phy::mod_params::{DutyCycleParams, RadioError, RadioMode};
use lora_phy::mod_traits::RadioKind;
use lora_phy::{LoRa, RxMode, sx126x, sx127x};
use lorawan_device::async_device::radio::{PhyRxTx, RfConfig, RxConfig, RxMode as LwRxMode, TxConfig};
use serde::{Deserialize, Serialize};
use serde_json::{Value, json};

const FREQ: u32 = 868_100_000;
const FREQ2: u32 = 868_300_000;

#[derive(Clone, Debug, Serialize, Deserialize, PartialEq, Eq, Hash)]
pub enum Op {
    Init,
    Sleep { warm: bool },
    PrepTx,
    Tx,
    /// 0 single, 1 continuous, 2 duty cycle
    PrepRx { mode: u8 },
    StartRx,
    CompleteRx,
    SwitchChannel,
    Listen,
    PrepCad,
    Cad,
    SyncWord,
    /// no call: time passes and the operation in flight on the chip runs to its outcome
    Elapse,
    // LoRaWAN radio adapter
    ATx,
    ASetupRx { continuous: bool },
    ARxSingle,
    ARxContinuous,
    ALowPower,
}

#[derive(Clone, Debug, Serialize, Deserialize, PartialEq, Eq, Hash)]
pub struct Ev {
    pub op: Op,
    /// what the chip does with the operation in flight
    pub outcome: Outcome,
    /// wake-ups of the interrupt line without any flag before the real one
    pub spurious: u8,
    /// the k-th environment call of this API call fails once
    pub fault: Option<usize>,
    /// the future is dropped while parked on its k-th environment call
    pub drop: Option<usize>,
}

#[derive(Clone, Debug, Serialize, Deserialize, PartialEq)]
pub struct Cfg {
    /// "sx1262" (DC-DC + TCXO board) or "sx1276"
    pub chip: String,
    pub adapter: bool,
    /// faults + drops allowed in one history
    pub deviations: u8,
}

type L126 = LoRa<sx126x::Sx126x<MockSpi, MockIv, sx126x::Sx1262>, MockDelay>;
type L127 = LoRa<sx127x::Sx127x<MockSpi, MockIv, sx127x::Sx1276>, MockDelay>;
type A126 = LorawanRadio<sx126x::Sx126x<MockSpi, MockIv, sx126x::Sx1262>, MockDelay, 22>;
type A127 = LorawanRadio<sx127x::Sx127x<MockSpi, MockIv, sx127x::Sx1276>, MockDelay, 14>;

enum Rig {
    L126(Box<L126>),
    L127(Box<L127>),
    A126(Box<A126>),
    A127(Box<A127>),
    /// construction failed (never in an explored state)
    None,
}

/// What the reference bookkeeping knows about the last preparation: bit set of possibilities.
const K_NONE: u8 = 1;
const K_TX: u8 = 2;
const K_RX: u8 = 4;
const K_CAD: u8 = 8;

pub struct Sys {
    cfg: Cfg,
    env: Env,
    rig: Rig,
    k: u8,
    /// the last preparation asked for continuous reception
    continuous: bool,
    used: u8,
    alive: bool,
    last: String,
    hist: Vec<Ev>,
    seen_viol: usize,
    seen_missing: usize,
    /// an init() was cut short between the reset pulse and the end of the reset sequence, and no
    /// init() has completed since
    reset_interrupted: bool,
}

#[derive(Hash, PartialEq, Eq)]
pub struct Key {
    d: u8,
    d_arg: u32,
    cold: bool,
    cal: bool,
    chip: Vec<u8>,
    k: u8,
    cont: bool,
    used: u8,
    alive: bool,
    reset_interrupted: bool,
    /// driver's own note that a reset sequence is still to be repeated (hook)
    reset_pending: bool,
}

fn mode_code(m: RadioMode) -> (u8, u32) {
    match m {
        RadioMode::Sleep => (0, 0),
        RadioMode::Standby => (1, 0),
        RadioMode::FrequencySynthesis => (2, 0),
        RadioMode::Transmit => (3, 0),
        RadioMode::Receive(RxMode::Single(n)) => (4, n as u32),
        RadioMode::Receive(RxMode::Continuous) => (5, 0),
        RadioMode::Receive(RxMode::DutyCycle(_)) => (6, 0),
        RadioMode::Listen => (7, 0),
        RadioMode::ChannelActivityDetection => (8, 0),
    }
}

fn mode_name(m: RadioMode) -> &'static str {
    ["Sleep", "Standby", "FrequencySynthesis", "Transmit", "Receive(Single)", "Receive(Continuous)", "Receive(DutyCycle)", "Listen", "ChannelActivityDetection"][mode_code(m).0 as usize]
}

/// Chip observation shared by both families.
struct ChipObs {
    mode: Mode,
    in_flight: bool,
    tx: u32,
    rx: u32,
    cad: u32,
    violations: Vec<String>,
    missing: Vec<String>,
    fingerprint: Vec<u8>,
}

impl Sys {
    pub fn new(cfg: &Cfg) -> Sys {
        let is126 = cfg.chip == "sx1262";
        let env = if is126 {
            let mut c = Sx126xChip::new();
            c.deferred = true;
            c.needed_extra = vec!["regulator", "tcxo"];
            Env::new(Box::new(c))
        } else {
            let mut c = Sx127xChip::new(false);
            c.deferred = true;
            Env::new(Box::new(c))
        };
        let mut s = Sys {
            cfg: cfg.clone(),
            env: env.clone(),
            rig: Rig::None,
            k: K_NONE,
            continuous: false,
            used: 0,
            alive: true,
            last: String::new(),
            hist: vec![],
            seen_viol: 0,
            seen_missing: 0,
            reset_interrupted: false,
        };
        let built = catch(|| -> Result<Rig, String> {
            if is126 {
                let rk = sx126x::Sx126x::new(
                    env.spi(),
                    env.iv(),
                    sx126x::Config { chip: sx126x::Sx1262, tcxo_ctrl: Some(sx126x::TcxoCtrlVoltage::Ctrl1V7), use_dcdc: true, rx_boost: false },
                );
                let lora = drive(LoRa::new(rk, true, env.delay())).ok_or("init pending")?.map_err(|e| format!("{e:?}"))?;
                Ok(if cfg.adapter { Rig::A126(Box::new(lora.into())) } else { Rig::L126(Box::new(lora)) })
            } else {
                let rk = sx127x::Sx127x::new(env.spi(), env.iv(), sx127x::Config { chip: sx127x::Sx1276, tcxo_used: false, tx_boost: false, rx_boost: false });
                let lora = drive(LoRa::new(rk, true, env.delay())).ok_or("init pending")?.map_err(|e| format!("{e:?}"))?;
                Ok(if cfg.adapter { Rig::A127(Box::new(lora.into())) } else { Rig::L127(Box::new(lora)) })
            }
        });
        match built {
            Ok(Ok(r)) => s.rig = r,
            other => {
                s.alive = false;
                s.last = format!("construction failed: {:?}", other.err());
            }
        }
        s
    }

    fn obs(&self) -> ChipObs {
        if self.cfg.chip == "sx1262" {
            self.env.with_chip::<Sx126xChip, _>(|c| {
                let mut fp = vec![c.mode as u8, c.pending.is_some() as u8, (c.irq >> 8) as u8, c.irq as u8, (c.irq_mask >> 8) as u8, c.irq_mask as u8];
                for p in &c.programmed {
                    fp.extend_from_slice(p.as_bytes());
                    fp.push(0);
                }
                fp.extend_from_slice(&c.rf_freq_word.to_be_bytes());
                ChipObs { mode: c.mode, in_flight: c.pending.is_some(), tx: c.tx_started, rx: c.rx_started, cad: c.cad_started, violations: c.violations.clone(), missing: c.missing_at_start.clone(), fingerprint: fp }
            })
        } else {
            self.env.with_chip::<Sx127xChip, _>(|c| {
                let mut fp = vec![c.regs[0x01], c.pending.is_some() as u8, c.regs[0x12], c.regs[0x11], c.regs[0x40], c.regs[0x06], c.regs[0x07], c.regs[0x08]];
                for p in &c.programmed {
                    fp.extend_from_slice(p.as_bytes());
                    fp.push(0);
                }
                ChipObs { mode: c.mode(), in_flight: c.pending.is_some(), tx: c.tx_started, rx: c.rx_started, cad: c.cad_started, violations: c.violations.clone(), missing: c.missing_at_start.clone(), fingerprint: fp }
            })
        }
    }

    fn belief(&self) -> Option<(RadioMode, bool, bool, bool)> {
        macro_rules! b {
            ($l:expr) => {
                Some(($l.verif_radio_mode(), $l.verif_cold_start(), $l.verif_calibrate_image(), $l.verif_reset_pending()))
            };
        }
        match &self.rig {
            Rig::L126(l) => b!(l),
            Rig::L127(l) => b!(l),
            Rig::A126(a) => b!(a.verif_lora()),
            Rig::A127(a) => b!(a.verif_lora()),
            Rig::None => None,
        }
    }

    /// Runs the API call; Ok(None) = the future was still pending when the poll budget ended.
    fn call(&mut self, op: &Op) -> Result<Option<Result<(), String>>, String> {
        let payload = [0x40u8, 1, 2, 3, 4, 5, 6, 7, 8, 9, 10, 11];
        let rf = RfConfig { frequency: FREQ, bb: BaseBandModulationParams::new(SpreadingFactor::_7, Bandwidth::_125KHz, CodingRate::_4_5), max_payload_len: 64 };
        let rig = &mut self.rig;
        catch(move || {
            let mut buf = [0u8; 64];
            fn e<T>(r: Option<Result<T, RadioError>>) -> Option<Result<(), String>> {
                r.map(|x| x.map(|_| ()).map_err(|e| format!("{e:?}")))
            }
            fn ea<T, E: core::fmt::Debug>(r: Option<Result<T, E>>) -> Option<Result<(), String>> {
                r.map(|x| x.map(|_| ()).map_err(|e| format!("{e:?}")))
            }
            macro_rules! direct {
                ($l:expr) => {{
                    let mp = $l.create_modulation_params(SpreadingFactor::_7, Bandwidth::_125KHz, CodingRate::_4_5, FREQ).expect("params");
                    let mut txp = $l.create_tx_packet_params(8, false, true, false, &mp).expect("params");
                    let rxp = $l.create_rx_packet_params(8, false, 64, true, true, &mp).expect("params");
                    match op {
                        Op::Init => e(drive($l.init())),
                        Op::Sleep { warm } => e(drive($l.sleep(*warm))),
                        Op::PrepTx => {
                            e(drive($l.prepare_for_tx(&mp, &mut txp, 14, &payload)))
                        }
                        Op::Tx => e(drive($l.tx())),
                        Op::PrepRx { mode } => {
                            let m = match mode {
                                0 => RxMode::Single(10),
                                1 => RxMode::Continuous,
                                _ => RxMode::DutyCycle(DutyCycleParams { rx_time: 640, sleep_time: 6400 }),
                            };
                            e(drive($l.prepare_for_rx(m, &mp, &rxp)))
                        }
                        Op::StartRx => e(drive($l.start_rx())),
                        Op::CompleteRx => e(drive($l.complete_rx(&rxp, &mut buf))),
                        Op::SwitchChannel => e(drive($l.rx_switch_channel(FREQ2))),
                        Op::Listen => e(drive($l.listen(FREQ, Bandwidth::_125KHz))),
                        Op::PrepCad => e(drive($l.prepare_for_cad(&mp))),
                        Op::Cad => e(drive($l.cad(&mp))),
                        Op::SyncWord => e(drive($l.set_lora_sync_word(0x1424))),
                        _ => Some(Err("not an operation of this API".into())),
                    }
                }};
            }
            macro_rules! adapter {
                ($a:expr) => {{
                    match op {
                        Op::ATx => ea(drive($a.tx(TxConfig { pw: 14, rf }, &payload))),
                        Op::ASetupRx { continuous } => ea(drive($a.setup_rx(RxConfig { rf, mode: if *continuous { LwRxMode::Continuous } else { LwRxMode::Single { ms: 10 } } }))),
                        Op::ARxSingle => ea(drive($a.rx_single(&mut buf))),
                        Op::ARxContinuous => ea(drive($a.rx_continuous(&mut buf))),
                        Op::ALowPower => ea(drive($a.low_power())),
                        _ => Some(Err("not an operation of this API".into())),
                    }
                }};
            }
            match rig {
                Rig::L126(l) => direct!(l),
                Rig::L127(l) => direct!(l),
                Rig::A126(a) => adapter!(a),
                Rig::A127(a) => adapter!(a),
                Rig::None => Some(Err("no driver".into())),
            }
        })
    }

    /// Base events (no fault, no drop), simplest first.
    fn base_events(&self) -> Vec<Ev> {
        let is126 = self.cfg.chip == "sx1262";
        let mk = |op: Op, outcome: Outcome, spurious: u8| Ev { op, outcome, spurious, fault: None, drop: None };
        let mut v = vec![];
        let mut rx_outcomes = vec![Outcome::Done, Outcome::Timeout, Outcome::CrcError, Outcome::HeaderError, Outcome::Nothing];
        if is126 {
            // (the SX127x has no preamble interrupt in LoRa mode)
            rx_outcomes.push(Outcome::PreambleThenTimeout);
        }
        if self.obs().in_flight {
            for oc in [Outcome::Done, Outcome::Timeout, Outcome::CrcError, Outcome::HeaderError] {
                v.push(mk(Op::Elapse, oc, 0));
            }
        }
        if self.cfg.adapter {
            for oc in if is126 { vec![Outcome::Done, Outcome::Timeout] } else { vec![Outcome::Done] } {
                for sp in [0, 1] {
                    v.push(mk(Op::ATx, oc, sp));
                }
            }
            v.push(mk(Op::ASetupRx { continuous: false }, Outcome::Done, 0));
            v.push(mk(Op::ASetupRx { continuous: true }, Outcome::Done, 0));
            for &oc in &rx_outcomes {
                for sp in [0, 1] {
                    v.push(mk(Op::ARxSingle, oc, sp));
                    v.push(mk(Op::ARxContinuous, oc, sp));
                }
            }
            v.push(mk(Op::ALowPower, Outcome::Done, 0));
            return v;
        }
        v.push(mk(Op::PrepTx, Outcome::Done, 0));
        for oc in if is126 { vec![Outcome::Done, Outcome::Timeout] } else { vec![Outcome::Done] } {
            for sp in [0, 1] {
                v.push(mk(Op::Tx, oc, sp));
            }
        }
        for m in 0..3 {
            v.push(mk(Op::PrepRx { mode: m }, Outcome::Done, 0));
        }
        v.push(mk(Op::StartRx, Outcome::Done, 0));
        for &oc in &rx_outcomes {
            for sp in [0, 1] {
                v.push(mk(Op::CompleteRx, oc, sp));
            }
        }
        v.push(mk(Op::SwitchChannel, Outcome::Done, 0));
        v.push(mk(Op::Listen, Outcome::Done, 0));
        v.push(mk(Op::PrepCad, Outcome::Done, 0));
        for oc in [Outcome::Done, Outcome::Timeout] {
            for sp in [0, 1] {
                v.push(mk(Op::Cad, oc, sp));
            }
        }
        v.push(mk(Op::Sleep { warm: false }, Outcome::Done, 0));
        v.push(mk(Op::Sleep { warm: true }, Outcome::Done, 0));
        v.push(mk(Op::SyncWord, Outcome::Done, 0));
        v.push(mk(Op::Init, Outcome::Done, 0));
        v
    }

    /// Environment positions the base event consumes from this state (learnt on a fresh replay).
    fn probe(&self, base: &Ev) -> Vec<&'static str> {
        let mut t = Sys::new(&self.cfg);
        for e in &self.hist {
            t.step_inner(e, false);
        }
        let start = t.env.0.borrow().pos;
        t.step_inner(base, false);
        let g = t.env.0.borrow();
        g.kinds[start.min(g.kinds.len())..].to_vec()
    }

    /// Does the same call, from the same state, fail without the injected fault too?
    fn base_also_fails(&self, ev: &Ev) -> bool {
        let mut t = Sys::new(&self.cfg);
        for e in &self.hist[..self.hist.len() - 1] {
            t.step_inner(e, false);
        }
        t.step_inner(&Ev { fault: None, drop: None, ..ev.clone() }, false);
        t.last.contains(":err(")
    }

    fn droppable(op: &Op) -> bool {
        // tx / complete_rx / cad (and the calls built on them) are documented as not safe to drop;
        // a reception may still be abandoned while it waits for the interrupt line
        !matches!(op, Op::Tx | Op::Cad | Op::ATx)
    }

    fn step_inner(&mut self, ev: &Ev, report: bool) -> Vec<V> {
        let mut out = vec![];
        if !self.alive {
            return out;
        }
        self.hist.push(ev.clone());
        if ev.fault.is_some() || ev.drop.is_some() {
            self.used += 1;
        }
        let is126 = self.cfg.chip == "sx1262";
        // arm the environment
        let start = {
            let mut g = self.env.0.borrow_mut();
            let p = g.pos;
            g.fault_at = ev.fault.map(|k| p + k);
            g.pend_at = ev.drop.map(|k| p + k);
            g.faulted = None;
            g.stuck = None;
            g.pended = None;
            p
        };
        if is126 {
            self.env.with_chip::<Sx126xChip, _>(|c| {
                c.outcome = ev.outcome;
                c.spurious = ev.spurious;
            });
        } else {
            self.env.with_chip::<Sx127xChip, _>(|c| {
                c.outcome = ev.outcome;
                c.spurious = ev.spurious;
            });
        }
        let before = self.obs();
        let d_before = self.belief();
        let res = if ev.op == Op::Elapse {
            let mut g = self.env.0.borrow_mut();
            g.chip.irq_wait();
            Ok(Some(Ok(())))
        } else {
            self.call(&ev.op)
        };
        let (consumed, faulted, stuck, pended) = {
            let mut g = self.env.0.borrow_mut();
            g.fault_at = None;
            g.pend_at = None;
            (g.pos - start, g.faulted, g.stuck, g.pended)
        };
        let after = self.obs();
        let tag = format!("{}{}", self.cfg.chip, if self.cfg.adapter { "-adapter" } else { "" });
        let opname = format!("{:?}", ev.op).split([' ', '{']).next().unwrap_or("").to_string();
        let mut v = |sig: String, what: String| {
            if report {
                out.push(V { sig: format!("C14|{tag}|{sig}"), what });
            }
        };
        let res = match res {
            Err(p) => {
                v(format!("panic|{}|{opname}", panic_site(&p)), format!("{:?} panics: {p}", ev.op));
                self.alive = false;
                self.last = format!("{opname}:panic");
                return out;
            }
            Ok(r) => r,
        };
        let Some((d, _cold, _cal, _rp)) = self.belief() else { return out };
        // ---- classify the return
        let refused = matches!(&res, Some(Err(e)) if e.contains("InvalidRadioMode"));
        let unsupported = matches!(&res, Some(Err(e)) if e.contains("DutyCycleUnsupported") || e.contains("NoRxParams"));
        let label = match &res {
            None if pended.is_some() => "dropped".to_string(),
            None => format!("stuck({})", stuck.unwrap_or("?")),
            Some(Ok(())) => "ok".into(),
            Some(Err(e)) => format!("err({})", e.split('(').next().unwrap_or(e)),
        };
        self.last = format!("{opname}:{label}{}", if faulted.is_some() { "+fault" } else { "" });
        // ---- a wait that can never end
        if res.is_none() && pended.is_none() {
            match stuck {
                Some("interrupt line that never fires") if ev.outcome == Outcome::Nothing && Self::droppable(&ev.op) => {
                    // nothing arrives: the caller abandons the reception (same as a drop at that wait)
                }
                Some("interrupt line that never fires")
                    if !after.in_flight
                        && self.used == 0
                        && ev.outcome != Outcome::Nothing
                        && matches!(after.mode, Mode::Standby)
                        && (matches!(before.mode, Mode::RxSingle | Mode::Tx | Mode::Cad) || after.tx > before.tx || after.rx > before.rx || after.cad > before.cad) =>
                {
                    // the operation this call was waiting for has ended (the chip is back in standby, its
                    // interrupt was delivered) and the driver went back to waiting for another one
                    v(format!("waits-forever|operation-already-ended|{opname}"), format!("{:?}: the chip ended its {:?} with outcome {:?} and is in standby; the driver consumed the interrupt and waits for another one that cannot come", ev.op, before.mode, ev.outcome));
                    self.alive = false;
                    return out;
                }
                Some("interrupt line that never fires") => {
                    // the chip never signals the end of a TX/CAD, or a reception nobody may abandon: not a
                    // behaviour of the chip, prune
                    self.alive = false;
                    return out;
                }
                Some(why) => {
                    v(format!("waits-forever|{}|{opname}", why.replace(' ', "-")), format!("{:?} never returns: the driver waits on the {why} (driver believed {} before the call, chip was {:?})", ev.op, d_before.map(|x| mode_name(x.0)).unwrap_or("?"), before.mode));
                    self.alive = false;
                    return out;
                }
                None => {
                    v(format!("never-returns|{opname}"), format!("{:?} does not return within the poll budget", ev.op));
                    self.alive = false;
                    return out;
                }
            }
        }
        // ---- the chip was commanded while asleep / started unconfigured
        for m in after.violations.iter().skip(self.seen_viol) {
            v(format!("commanded-asleep|{opname}"), format!("{:?}: {m} (driver believed {})", ev.op, d_before.map(|x| mode_name(x.0)).unwrap_or("?")));
        }
        self.seen_viol = after.violations.len();
        for m in after.missing.iter().skip(self.seen_missing) {
            let what = m.split(" started without ").nth(1).unwrap_or("");
            // listen() only measures RSSI: nothing of the packet engine is needed for it
            let what: Vec<&str> = what.split(',').filter(|w| !(ev.op == Op::Listen && matches!(*w, "packet_params" | "sync_word" | "irq_params" | "buffer_base"))).collect();
            if what.is_empty() {
                continue;
            }
            let what = what.join(",");
            v(format!("started-unconfigured|{what}|{}{opname}", if self.reset_interrupted { "after-interrupted-reset|" } else { "" }), format!("{:?}: {m}", ev.op));
        }
        self.seen_missing = after.missing.len();
        // ---- refusal
        if refused && consumed > 0 {
            v(format!("refused-after-commanding|{opname}"), format!("{:?} returns InvalidRadioMode after {consumed} environment calls", ev.op));
        }
        let need = match ev.op {
            Op::Tx => Some(K_TX),
            Op::StartRx | Op::CompleteRx | Op::SwitchChannel | Op::ARxSingle | Op::ARxContinuous => Some(K_RX),
            Op::Cad => Some(K_CAD),
            _ => None,
        };
        if let Some(bit) = need {
            if self.k & bit == 0 && !refused && !unsupported {
                v(
                    format!("wrong-mode-not-refused|{opname}"),
                    format!("{:?} was not refused although no matching preparation is in effect (result {label}, driver believed {})", ev.op, d_before.map(|x| mode_name(x.0)).unwrap_or("?")),
                );
            }
            if self.k & bit == 0 && (after.tx, after.rx, after.cad) != (before.tx, before.rx, before.cad) {
                v(format!("wrong-mode-started-chip|{opname}"), format!("{:?} started the chip without a matching preparation", ev.op));
            }
        }
        // ---- belief vs chip
        let c = after.mode;
        let agree = match d {
            // after a failed or abandoned call the driver may stay on the safe side (it wakes the chip first)
            RadioMode::Sleep => c.asleep() || self.used > 0,
            RadioMode::Standby => c == Mode::Standby,
            RadioMode::FrequencySynthesis => c == Mode::Fs,
            RadioMode::Transmit => matches!(c, Mode::Standby | Mode::Tx | Mode::TxCw),
            RadioMode::Receive(RxMode::Single(_)) => matches!(c, Mode::Standby | Mode::RxSingle),
            RadioMode::Receive(RxMode::Continuous) => matches!(c, Mode::Standby | Mode::RxContinuous),
            RadioMode::Receive(RxMode::DutyCycle(_)) => matches!(c, Mode::Standby | Mode::RxDutyCycle),
            RadioMode::Listen => matches!(c, Mode::Standby | Mode::RxContinuous),
            RadioMode::ChannelActivityDetection => matches!(c, Mode::Standby | Mode::Cad),
        };
        if !agree {
            v(
                format!("belief-{}-chip-{:?}|{opname}|{label}", mode_name(d), c),
                format!("after {:?} ({label}) the driver believes {} while the chip is in {:?}", ev.op, mode_name(d), c),
            );
        }
        // ---- after a failed or timed-out operation
        let finishing = matches!(ev.op, Op::Tx | Op::StartRx | Op::CompleteRx | Op::Cad | Op::ATx | Op::ARxSingle | Op::ARxContinuous);
        let failed = matches!(&res, Some(Err(_))) && !refused && !unsupported;
        let timed_out_ok = matches!(ev.op, Op::ARxSingle) && matches!(&res, Some(Ok(()))) && ev.outcome != Outcome::Done && ev.outcome != Outcome::CrcError;
        // a call that failed before it commanded anything leaves the chip as it found it; what is checked is
        // the operation this call started, or the reception complete_rx was waiting for
        let started_here = (after.tx, after.rx, after.cad) != (before.tx, before.rx, before.cad);
        if finishing && (failed || timed_out_ok) && (started_here || ev.op == Op::CompleteRx) && !(self.continuous && matches!(ev.op, Op::CompleteRx | Op::ARxContinuous | Op::ARxSingle)) {
            // a one-shot fault that hits the recovery itself (the call fails without it too) cannot be recovered
            // from within the call
            let fault_in_recovery = faulted.is_some() && report && self.base_also_fails(ev);
            if (matches!(c, Mode::Tx | Mode::RxSingle | Mode::RxContinuous | Mode::RxDutyCycle | Mode::Cad) || after.in_flight) && !fault_in_recovery {
                v(format!("chip-left-active|{opname}|{label}"), format!("{:?} failed ({label}) and leaves the chip in {:?}", ev.op, c));
            }
            if faulted.is_none() && d != RadioMode::Standby {
                v(format!("driver-not-standby|{opname}|{label}"), format!("{:?} failed ({label}) and the driver still believes {}", ev.op, mode_name(d)));
            }
        }
        if ev.op == Op::Init {
            // sx127x reset sequence: reset line [0], RF switch [1], sleep command [2]
            let cut = ev.fault.or(ev.drop);
            if matches!(&res, Some(Ok(()))) {
                self.reset_interrupted = false;
            } else if matches!(cut, Some(1 | 2)) && self.cfg.chip == "sx1276" {
                self.reset_interrupted = true;
            }
        }
        // ---- reference bookkeeping of the preparation in effect
        let clean_ok = matches!(&res, Some(Ok(()))) && faulted.is_none();
        let target = match ev.op {
            Op::PrepTx => K_TX,
            Op::PrepRx { .. } | Op::ASetupRx { .. } => K_RX,
            Op::PrepCad => K_CAD,
            _ => K_NONE,
        };
        if refused || (unsupported && consumed == 0) || ev.op == Op::Elapse {
            // nothing happened
        } else if clean_ok {
            match ev.op {
                Op::PrepTx | Op::PrepRx { .. } | Op::PrepCad | Op::ASetupRx { .. } => {
                    self.k = target;
                    self.continuous = matches!(ev.op, Op::PrepRx { mode: 1 } | Op::ASetupRx { continuous: true });
                }
                Op::StartRx | Op::SwitchChannel | Op::CompleteRx | Op::ARxSingle | Op::ARxContinuous => {}
                // whether a finished TX / CAD may be repeated without a new preparation is the driver's choice
                Op::Tx | Op::Cad | Op::ATx => self.k |= K_NONE,
                _ => self.k = K_NONE,
            }
        } else {
            // failed, faulted or abandoned half-way: the preparation may be gone, kept or (for a
            // preparation call) already in effect
            match ev.op {
                Op::CompleteRx | Op::ARxSingle | Op::ARxContinuous | Op::StartRx | Op::SwitchChannel => self.k |= K_NONE,
                Op::ATx => self.k = K_NONE | K_TX | self.k,
                _ => self.k |= K_NONE | target,
            }
            if matches!(ev.op, Op::PrepRx { mode: 1 } | Op::ASetupRx { continuous: true }) {
                self.continuous = true; // may already be in effect
            }
        }
        out
    }
}

impl System for Sys {
    type Ev = Ev;
    type Key = Key;

    fn enabled(&self) -> Vec<Ev> {
        let base = self.base_events();
        let mut v = base.clone();
        if self.used < self.cfg.deviations {
            for b in &base {
                if b.spurious != 0 || !matches!(b.outcome, Outcome::Done) {
                    continue; // deviations are combined with the default chip answer
                }
                let kinds = self.probe(b);
                for (k, kind) in kinds.iter().enumerate() {
                    if *kind != "delay" {
                        v.push(Ev { fault: Some(k), ..b.clone() });
                    }
                }
                if Self::droppable(&b.op) {
                    let rx_wait_only = matches!(b.op, Op::CompleteRx | Op::ARxSingle | Op::ARxContinuous);
                    for (k, kind) in kinds.iter().enumerate() {
                        // a future can only be abandoned where it can be parked; a reception only while it
                        // waits for the interrupt line (process_irq_event must run to completion)
                        if matches!(*kind, "spi" | "busy" | "irq" | "delay") && (!rx_wait_only || *kind == "irq") {
                            v.push(Ev { drop: Some(k), ..b.clone() });
                        }
                    }
                }
            }
        }
        v
    }

    fn step(&mut self, ev: &Ev) -> Vec<V> {
        self.step_inner(ev, true)
    }

    fn key(&self) -> Key {
        let (d, cold, cal, reset_pending) = self.belief().unwrap_or((RadioMode::Sleep, true, true, false));
        let (dc, da) = mode_code(d);
        Key { d: dc, d_arg: da, cold, cal, chip: self.obs().fingerprint, k: self.k, cont: self.continuous, used: self.used, alive: self.alive, reset_interrupted: self.reset_interrupted, reset_pending }
    }

    fn alive(&self) -> bool {
        self.alive
    }

    fn outcome(&self) -> String {
        self.last.clone()
    }
}

pub fn run(tier: Tier, replay_path: Option<&str>) {
    if let Some(path) = replay_path {
        let case = load_case(path);
        let cfg: Cfg = serde_json::from_value(case["cfg"].clone()).expect("cfg");
        let hist: Vec<Ev> = serde_json::from_value(case["history"].clone()).expect("history");
        let mk = || Sys::new(&cfg);
        crate::checks::replay_exit("C14", path, replay(&mk, &hist));
    }
    let ctx = Ctx::new("C14", tier);
    let th = tier == Tier::Thorough;
    // (chip, adapter, deviations, depth)
    let runs: Vec<(&str, bool, u8, usize)> = if th {
        vec![
            ("sx1262", false, 0, 20),
            ("sx1276", false, 0, 20),
            ("sx1262", false, 1, 20),
            ("sx1276", false, 1, 20),
            ("sx1262", false, 2, 18),
            ("sx1276", false, 2, 18),
            ("sx1262", true, 1, 10),
            ("sx1276", true, 1, 10),
            ("sx1262", true, 2, 12),
            ("sx1276", true, 2, 12),
        ]
        .into_iter()
        .chain(if crate::ctx::deep() { vec![("sx1262", false, 3, 8), ("sx1276", false, 3, 8), ("sx1262", true, 3, 10), ("sx1276", true, 3, 10)] } else { vec![] })
        .collect()
    } else {
        vec![("sx1262", false, 0, 20), ("sx1276", false, 0, 20), ("sx1262", false, 1, 5), ("sx1276", false, 1, 5), ("sx1262", true, 1, 10), ("sx1276", true, 1, 10)]
    };
    let mut per_run = vec![];
    let (mut states, mut transitions) = (0u64, 0u64);
    let mut outcomes: std::collections::BTreeMap<String, u64> = Default::default();
    for (chip, adapter, deviations, depth) in runs {
        let cfg = Cfg { chip: chip.into(), adapter, deviations };
        let cfgj = serde_json::to_value(&cfg).unwrap();
        let mk = {
            let cfg = cfg.clone();
            move || Sys::new(&cfg)
        };
        let init = mk();
        if !init.alive {
            eprintln!("C14 machinery failure: {}", init.last);
            std::process::exit(2);
        }
        let st = bfs(&ctx, &cfgj, &mk, depth, 3_000_000);
        states += st.states;
        transitions += st.transitions;
        for (k, n) in &st.outcomes {
            *outcomes.entry(k.clone()).or_default() += n;
        }
        per_run.push(json!({"cfg": cfgj, "reachable_set_closed": st.frontier_sizes.len() < depth || st.depth_completed < depth, "depth": st.depth_completed, "states": st.states, "transitions": st.transitions, "frontiers": st.frontier_sizes, "capped": st.capped}));
    }
    let coverage = json!({
        "states": states,
        "transitions": transitions,
        "depth": per_run.iter().map(|r| r["depth"].as_u64().unwrap_or(0)).max().unwrap_or(0),
        "runs": per_run,
        "outcomes": outcomes,
        "traces_validated_against_impl": transitions,
        "samples": [
            {"cfg": {"chip": "sx1262", "adapter": false, "deviations": 1}, "history": [{"op": {"Sleep": {"warm": false}}, "outcome": "Done", "spurious": 0, "fault": null, "drop": 3}, {"op": "PrepTx", "outcome": "Done", "spurious": 0, "fault": null, "drop": null}]},
            {"cfg": {"chip": "sx1276", "adapter": false, "deviations": 0}, "history": [{"op": "PrepCad", "outcome": "Done", "spurious": 0, "fault": null, "drop": null}, {"op": "Cad", "outcome": "Done", "spurious": 1, "fault": null, "drop": null}]},
        ],
        "evaluations": ctx.evals(),
        "distinct_nontrivial": states,
        "rule": "level-synchronous BFS over histories of API calls on the real driver objects (every transition executes the real code against the chip model), deduplicated on (driver mode, cold-start and calibration flags, chip mode / flags / programmed set / frequency, reference bookkeeping, deviations used)",
        "bounds": "API call sequences to the stated depth per run; every call x chip interrupt outcome {done, timeout, CRC error, header error, false preamble then timeout (SX126x), nothing} x {0,1} spurious interrupt-line wake-ups; with deviations: additionally a one-shot fault at every environment position the call consumes (SPI transaction, BUSY wait, interrupt wait, RF switch, reset) and a drop of the future at every position it can be parked on (droppable calls), at most `deviations` per history",
        "exhaustive": true,
    });
    let cfgs: std::cell::RefCell<Option<Cfg>> = std::cell::RefCell::new(None);
    let _ = cfgs;
    let replayer = |cj: &Value| -> Vec<String> {
        let cfg: Cfg = serde_json::from_value(cj["cfg"].clone()).unwrap();
        let hist: Vec<Ev> = serde_json::from_value(cj["history"].clone()).unwrap();
        let mk = || Sys::new(&cfg);
        replay(&mk, &hist)
    };
    ctx.finish(
        "exploration",
        coverage,
        vec![
            "chip behaviour is the datasheet model of chips.rs (SX1262 with DC-DC + TCXO board, SX1276): command/register decode, operating mode, BUSY high while asleep, configuration lost by cold sleep and reset, interrupt flags, operations in flight until the driver waits for the interrupt line".into(),
            "SX126x RX duty cycle: until a GetStatus has woken it the chip may be in the sleep phase of the cycle; a state-changing command sent first is reported as lost, reads and ClearIrqStatus are let through".into(),
            "tx/cad are never dropped (documented as not safe to drop); a reception may be abandoned while it waits for the interrupt line".into(),
            "fixed modulation (SF7/125 kHz/4_5, 868.1 MHz), 12-byte payload".into(),
        ],
        Some(&replayer),
    );
}
