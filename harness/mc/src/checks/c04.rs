//! C04 — no received frame or network command can panic or hang the device.
//! Layer A: every field value of every handled command / JoinAccept, one command deep, from a
//! set of base states, followed by uplinks with the first RNG draw enumerated.
//! Layer B: BFS over histories with an alphabet chosen to reach dangerous channel-plan states.
use crate::adev::*;
use crate::checks::{load_case, replay_exit};
use crate::cmds::{self, Cmd, JaSpec};
use crate::ctx::{Ctx, Tier, panic_site};
use crate::dev::*;
use crate::explore::{self, System, V};
use lorawan_device::verif::{VerifMac, VerifMacState, VerifNbState};
use rayon::prelude::*;
use serde::{Deserialize, Serialize};
use serde_json::{Value, json};
use std::collections::HashSet;
use std::hash::{Hash, Hasher};
use std::sync::Mutex;
use std::sync::atomic::{AtomicU64, Ordering};

#[derive(Clone, Debug, Serialize, Deserialize)]
pub struct Case {
    /// "nb", "async" or "async-c"
    pub front: String,
    pub dev: DevCfg,
    /// name of the base state (built by `base_prefix`)
    pub base: String,
    pub cmd: Option<Cmd>,
    /// true = FRMPayload on port 0, false = FOpts
    pub port0: bool,
    pub ja: Option<JaSpec>,
    /// first RNG draw of the follow-up uplink (None = no follow-up)
    pub draw: Option<u32>,
}

pub const BASES: [&str; 5] = ["fresh", "cflist", "sparse-mask", "extra-channels", "high-dr"];

fn down(fopts: Vec<u8>, port0: Vec<u8>) -> Frame {
    if port0.is_empty() {
        Frame::Down { fcnt: Fcnt::Rel(1), confirmed: false, ack: false, fopts, port: None, payload: vec![], tamper: Tamper::None }
    } else {
        Frame::Down { fcnt: Fcnt::Rel(1), confirmed: false, ack: false, fopts: vec![], port: Some(0), payload: port0, tamper: Tamper::None }
    }
}

fn cycle_with(f: Frame) -> Ev {
    Ev::Cycle { confirmed: false, port: 1, len: 1, rx1: Some(f), rx2: None }
}

pub fn good_join_accept(region: &str, cflist: bool) -> Frame {
    let cf = if !cflist {
        None
    } else if is_fixed(region) {
        let mut b = vec![0x00, 0xFF, 0, 0, 0, 0, 0, 0, 0x02];
        b.extend([0u8; 6]);
        b.push(1);
        Some(b)
    } else {
        let f0 = cmds::freqs(region)[3];
        let mut b = vec![];
        for k in 0..5 {
            b.extend(cmds::freq_bytes(f0 + 200_000 * k));
        }
        b.push(0);
        Some(b)
    };
    Frame::JoinAccept { join_nonce: 5, net_id: 0x13, devaddr: DEVADDR, dl_settings: 0, rx_delay: 1, cflist: cf, tamper: Tamper::None, trunc: 0 }
}

/// Events that bring a fresh device into the named base state.
pub fn base_prefix(region: &str, otaa: bool, base: &str) -> Vec<Ev> {
    let fixed = is_fixed(region);
    let mut v = vec![];
    if otaa {
        v.push(Ev::JoinCycle { rx1: Some(good_join_accept(region, base == "cflist")), rx2: None });
    }
    match base {
        "sparse-mask" => {
            let c = if fixed {
                // only 125 kHz channels 0 and 1, no 500 kHz channel
                let mut b = cmds::link_adr(15, 15, 0x0000, 7, 1, false).bytes;
                b.extend(cmds::link_adr(15, 15, 0x0003, 0, 1, false).bytes);
                b
            } else {
                cmds::link_adr(15, 15, 0x0001, 0, 1, false).bytes
            };
            v.push(cycle_with(down(c, vec![])));
        }
        "extra-channels" if !fixed => {
            let f = cmds::freqs(region)[3];
            let fb = cmds::freq_bytes(f);
            let fb2 = cmds::freq_bytes(f + 200_000);
            v.push(cycle_with(down(vec![0x07, 3, fb[0], fb[1], fb[2], 0x50, 0x07, 15, fb2[0], fb2[1], fb2[2], 0x50], vec![])));
        }
        "high-dr" => {
            v.push(Ev::SetDr(if fixed { 4 } else { 5 }));
        }
        _ => {}
    }
    v
}

/// `Case::draw` value that asks for the ADR back-off walk instead of two uplinks with an enumerated draw (nb front-end).
const BACKOFF_WALK: u32 = 1000;
/// ... and the one that asks for join attempts from the post-command state.
const REJOIN: u32 = 1001;

fn snap_hash(s: &VerifMac) -> u64 {
    let mut s = *s;
    if let VerifMacState::Joined(ref mut j) = s.state {
        j.fcnt_up = 0;
        j.fcnt_down = None;
        j.adr_ack_cnt = 0;
        j.pending = [0; 15];
        j.pending_len = 0;
        j.nwkskey = [0; 16];
        j.appskey = [0; 16];
    }
    let mut h = std::collections::hash_map::DefaultHasher::new();
    s.hash(&mut h);
    h.finish()
}

fn cmd_frame(c: &Case) -> Frame {
    if let Some(ja) = &c.ja {
        return Frame::JoinAccept {
            join_nonce: 9,
            net_id: 0x13,
            devaddr: DEVADDR,
            dl_settings: ja.dl_settings,
            rx_delay: ja.rx_delay,
            cflist: ja.cflist.clone(),
            tamper: Tamper::None,
            trunc: 0,
        };
    }
    let b = c.cmd.as_ref().map(|x| x.bytes.clone()).unwrap_or_default();
    if c.port0 { down(vec![], b) } else { down(b, vec![]) }
}

fn cmd_name(c: &Case) -> String {
    if c.ja.is_some() { "JoinAccept".into() } else { c.cmd.as_ref().map(|x| x.name.clone()).unwrap_or_default() }
}

/// Describes the channel-plan state in which a selection loop cannot terminate.
pub fn hang_class(region: &str, s: &VerifMac) -> String {
    let joined = matches!(s.state, VerifMacState::Joined(_));
    if !joined {
        return "join-channel-selection".into();
    }
    let m = &s.region.channel_mask;
    if s.region.fixed {
        let bw500 = match region {
            "US915" => s.data_rate == 4 || s.data_rate >= 8,
            _ => s.data_rate == 6 || s.data_rate >= 8,
        };
        let any125 = m[..8].iter().any(|b| *b != 0);
        let any500 = m[8] != 0;
        let bias = s.region.join.map(|j| j.preferred_subband.is_some()).unwrap_or(false);
        format!(
            "fixed-plan:dr-needs-{}:enabled125={}:enabled500={}{}",
            if bw500 { "500k" } else { "125k" },
            any125,
            any500,
            if bias { ":join-bias" } else { "" }
        )
    } else {
        let usable = (0..16).any(|i| m[i / 8] & (1 << (i % 8)) != 0 && s.region.channels[i].is_some());
        let defined = s.region.channels.iter().filter(|c| c.is_some()).count();
        format!("dynamic-plan:usable-channel={usable}:defined={}", if defined <= 3 { "few" } else { "many" })
    }
}

fn classify_at(p: &str, front: &str, name: &str, region: &str, before: &VerifMac) -> (String, String) {
    if p.contains("VERIF-HANG") {
        let hc = hang_class(region, before);
        (
            format!("C04|hang|{hc}"),
            format!("[{front}] channel selection never terminates in state {hc} (reached via {name}); snapshot {before:?}"),
        )
    } else {
        classify(p, front, name)
    }
}

fn classify(p: &str, front: &str, name: &str) -> (String, String) {
    if p.contains("VERIF-HANG") {
        (format!("C04|{front}|hang|{name}"), "channel selection never terminates (RNG draw budget exceeded under a fair stream)".into())
    } else {
        let fam = name.split('-').next().unwrap_or(name);
        (format!("C04|panic|{}|{fam}", panic_site(p)), format!("[{front}] panic: {p}"))
    }
}

/// Evaluates one case on the nb front-end. Returns (violations, post-command snapshot hash).
fn eval_nb(c: &Case) -> (Vec<(String, String)>, Option<u64>) {
    let mut v = vec![];
    let name = cmd_name(c);
    let mut core: NbCore<14, 0> = NbCore::new(&c.dev);
    for e in base_prefix(&c.dev.region, c.dev.otaa, &c.base) {
        for m in core.apply(&e) {
            if let Resp::Panic(p) = &m.resp {
                let (s, w) = classify(p, "nb", &format!("base:{}", c.base));
                v.push((s, w));
                return (v, None);
            }
        }
    }
    let ev = if c.ja.is_some() { Ev::JoinCycle { rx1: Some(cmd_frame(c)), rx2: None } } else { cycle_with(cmd_frame(c)) };
    for m in core.apply(&ev) {
        if let Resp::Panic(p) = &m.resp {
            let (s, w) = classify_at(p, "nb", &name, &c.dev.region, &m.before);
            v.push((s, format!("{w}; command {:?}", c.cmd.as_ref().map(|x| crate::ctx::hex(&x.bytes)))));
            return (v, None);
        }
    }
    let h = snap_hash(&core.snap());
    if c.draw == Some(REJOIN) {
        // an OTAA join attempt from whatever the command left behind (its windows are computed from the same
        // configuration), unanswered, then answered
        for k in 0..2 {
            let ev = if k == 0 {
                Ev::JoinCycle { rx1: None, rx2: None }
            } else {
                Ev::JoinCycle {
                    rx1: None,
                    rx2: Some(Frame::JoinAccept { join_nonce: 11 + k, net_id: 0x13, devaddr: DEVADDR, dl_settings: 0, rx_delay: 1, cflist: None, tamper: Tamper::None, trunc: 0 }),
                }
            };
            for m in core.apply(&ev) {
                if let Resp::Panic(p) = &m.resp {
                    let (s, w) = classify_at(p, "nb", &format!("join-after-{name}"), &c.dev.region, &m.before);
                    v.push((s, format!("{w}; join attempt {k} after command {:?}", c.cmd.as_ref().map(|x| crate::ctx::hex(&x.bytes)))));
                    return (v, Some(h));
                }
            }
        }
        return (v, Some(h));
    }
    if c.draw == Some(BACKOFF_WALK) {
        // ADR back-off from whatever the command left behind, down to the lowest rate: the count of unanswered uplinks is
        // pre-loaded (through the session's serde form) to one short of every back-off step in turn
        let mut last_dr = core.snap().data_rate;
        let mut still = 0;
        for step in 0..16u32 {
            let Some(val) = core.dev.get_session().and_then(|s| serde_json::to_value(s).ok()) else { break };
            let mut val = val;
            val["adr_ack_cnt"] = json!(95 + 32 * step);
            let Ok(s2) = serde_json::from_value::<lorawan_device::mac::Session>(val) else { break };
            core.dev.set_session(s2);
            for _ in 0..2 {
                let ms = core.apply(&Ev::Cycle { confirmed: false, port: 1, len: 1, rx1: None, rx2: None });
                for m in &ms {
                    if let Resp::Panic(p) = &m.resp {
                        let (s, w) = classify_at(p, "nb", &format!("adr-backoff-after-{name}"), &c.dev.region, &m.before);
                        v.push((s, format!("{w}; back-off step {step} after command {:?}", c.cmd.as_ref().map(|x| crate::ctx::hex(&x.bytes)))));
                        return (v, Some(h));
                    }
                }
                let last = ms.last().map(|m| m.resp.clone());
                if !matches!(last, Some(Resp::RxComplete) | Some(Resp::NoAck) | Some(Resp::SessionExpired)) {
                    v.push((format!("C04|nb|cannot-transmit-after|adr-backoff-after-{name}"), format!("uplink at back-off step {step} ended with {last:?}")));
                    return (v, Some(h));
                }
            }
            let dr = core.snap().data_rate;
            if dr == last_dr {
                still += 1;
                if still >= 2 {
                    break;
                }
            } else {
                still = 0;
            }
            last_dr = dr;
        }
        return (v, Some(h));
    }
    if let Some(d) = c.draw {
        core.apply(&Ev::Rng(vec![d]));
        for k in 0..2 {
            let ms = core.apply(&Ev::Cycle { confirmed: k == 1, port: 1, len: 1, rx1: None, rx2: None });
            for m in &ms {
                if let Resp::Panic(p) = &m.resp {
                    let (s, w) = classify_at(p, "nb", &format!("uplink-after-{name}"), &c.dev.region, &m.before);
                    v.push((s, format!("{w}; after command {:?}", c.cmd.as_ref().map(|x| crate::ctx::hex(&x.bytes)))));
                    return (v, Some(h));
                }
            }
            let last = ms.last().map(|m| m.resp.clone());
            let ok = matches!(last, Some(Resp::RxComplete) | Some(Resp::NoAck) | Some(Resp::SessionExpired) | Some(Resp::DownlinkReceived(_)));
            let not_joined_ok = matches!(last, Some(Resp::ErrMac(_))) && core.joined_session().is_none();
            if !ok && !not_joined_ok {
                v.push((format!("C04|nb|cannot-transmit-after|{name}"), format!("uplink {k} after the command ended with {last:?}")));
                return (v, Some(h));
            }
        }
    }
    (v, Some(h))
}

fn eval_async(c: &Case) -> (Vec<(String, String)>, Option<u64>) {
    let mut v = vec![];
    let name = cmd_name(c);
    let class_c = c.front == "async-c";
    let front = c.front.as_str();
    let mut core: ACore<14, 0> = ACore::new(&c.dev, class_c);
    let to_aev = |e: &Ev| -> Option<AEv> {
        match e {
            Ev::JoinCycle { rx1, rx2 } => Some(AEv::Join(Script { rx1: rx1.clone(), rx2: rx2.clone(), ..Default::default() })),
            Ev::Cycle { confirmed, port, len, rx1, rx2 } => {
                Some(AEv::Send { confirmed: *confirmed, port: *port, len: *len, script: Script { rx1: rx1.clone(), rx2: rx2.clone(), ..Default::default() } })
            }
            Ev::SetDr(d) => Some(AEv::SetDr(*d)),
            Ev::Rng(p) => Some(AEv::Rng(p.clone())),
            _ => None,
        }
    };
    let mut run = |core: &mut ACore<14, 0>, e: &Ev, label: &str, v: &mut Vec<(String, String)>| -> Option<AResp> {
        let ae = to_aev(e)?;
        let st = core.apply(&ae)?;
        match &st.resp {
            AResp::Panic(p) => {
                let (s, w) = classify_at(p, front, label, &c.dev.region, &st.before);
                v.push((s, w));
                None
            }
            AResp::Blocked => {
                v.push((format!("C04|{front}|deadlock|{label}"), "the call stayed pending with nothing scheduled".into()));
                None
            }
            r => Some(r.clone()),
        }
    };
    for e in base_prefix(&c.dev.region, c.dev.otaa, &c.base) {
        if run(&mut core, &e, &format!("base:{}", c.base), &mut v).is_none() && !v.is_empty() {
            return (v, None);
        }
    }
    let ev = if c.ja.is_some() { Ev::JoinCycle { rx1: Some(cmd_frame(c)), rx2: None } } else { cycle_with(cmd_frame(c)) };
    if run(&mut core, &ev, &name, &mut v).is_none() {
        return (v, None);
    }
    let h = snap_hash(&core.snap());
    if let Some(d) = c.draw {
        run(&mut core, &Ev::Rng(vec![d]), "rng", &mut v);
        for k in 0..2 {
            let r = run(&mut core, &Ev::Cycle { confirmed: k == 1, port: 1, len: 1, rx1: None, rx2: None }, &format!("uplink-after-{name}"), &mut v);
            let Some(r) = r else { return (v, Some(h)) };
            let joined = matches!(core.snap().state, VerifMacState::Joined(_));
            let ok = matches!(r, AResp::RxComplete | AResp::NoAck | AResp::SessionExpired | AResp::DownlinkReceived(_));
            if !ok && !(matches!(r, AResp::ErrMac(_)) && !joined) {
                v.push((format!("C04|{front}|cannot-transmit-after|{name}"), format!("uplink {k} after the command ended with {r:?}")));
                return (v, Some(h));
            }
        }
    }
    (v, Some(h))
}

pub fn eval(c: &Case) -> (Vec<(String, String)>, Option<u64>) {
    if c.front == "nb" { eval_nb(c) } else { eval_async(c) }
}

// ------------------------------------------------------------------ Layer B

pub struct BSys {
    nb: Option<NbCore<14, 0>>,
    ac: Option<ACore<14, 0>>,
    front: String,
    region: String,
    outcome: String,
}

impl BSys {
    /// The largest application payload of the data rate in force (MACPayload limit M minus FHDR and FPort), where the
    /// regional parameters give one value for it.
    fn max_app_payload(&self) -> Option<usize> {
        let s = if let Some(nb) = &self.nb { nb.snap() } else { self.ac.as_ref()?.snap() };
        if !matches!(s.state, VerifMacState::Joined(_)) {
            return None;
        }
        let m = crate::refregion::max_payload(&self.region, s.data_rate);
        if m.len() == 1 && m[0] >= 9 { Some(m[0] as usize - 8) } else { None }
    }

    pub fn new(front: &str, cfg: &DevCfg) -> Self {
        if front == "nb" {
            BSys { nb: Some(NbCore::new(cfg)), ac: None, front: front.into(), region: cfg.region.clone(), outcome: String::new() }
        } else {
            BSys { nb: None, ac: Some(ACore::new(cfg, front == "async-c")), front: front.into(), region: cfg.region.clone(), outcome: String::new() }
        }
    }
    fn snap(&self) -> VerifMac {
        match (&self.nb, &self.ac) {
            (Some(n), _) => n.snap(),
            (_, Some(a)) => a.snap(),
            _ => unreachable!(),
        }
    }
}

pub fn dangerous(region: &str) -> Vec<(String, Vec<u8>)> {
    let fixed = is_fixed(region);
    let f = cmds::freqs(region);
    let mid = cmds::freq_bytes(f[3]);
    let mut v: Vec<(String, Vec<u8>)> = vec![];
    if fixed {
        v.push(("adr-125k-two-channels".into(), {
            let mut b = cmds::link_adr(15, 15, 0, 7, 1, false).bytes;
            b.extend(cmds::link_adr(0, 15, 3, 0, 1, false).bytes);
            b
        }));
        v.push(("adr-500k-only".into(), cmds::link_adr(4, 15, 0x0001, 7, 1, false).bytes));
        v.push(("adr-dr4".into(), cmds::link_adr(4, 15, 0x00FF, 6, 1, false).bytes));
        v.push(("adr-bank5".into(), cmds::link_adr(15, 15, 0x0002, 5, 1, false).bytes));
        v.push(("adr-all-125-no-500".into(), cmds::link_adr(15, 15, 0x0000, 6, 1, false).bytes));
    } else {
        v.push(("adr-ch3-only".into(), cmds::link_adr(15, 15, 0x0008, 0, 1, false).bytes));
        v.push(("adr-ch0-only".into(), cmds::link_adr(15, 15, 0x0001, 0, 1, false).bytes));
        // (one usable channel, further mask bits on channels that are not defined)
        v.push(("adr-ch0-and-undefined".into(), cmds::link_adr(15, 15, 0x00F1, 0, 1, false).bytes));
        v.push(("adr-all-on".into(), cmds::link_adr(15, 15, 0x0000, 6, 1, false).bytes));
        v.push(("adr-dr5-txp7".into(), cmds::link_adr(5, 7, 0xFFFF, 0, 1, false).bytes));
        v.push(("newch-create3".into(), vec![0x07, 3, mid[0], mid[1], mid[2], 0x50]));
        v.push(("newch-delete3".into(), vec![0x07, 3, 0, 0, 0, 0x50]));
        v.push(("newch-delete0".into(), vec![0x07, 0, 0, 0, 0, 0x50]));
        v.push(("dlch-0".into(), vec![0x0A, 0, mid[0], mid[1], mid[2]]));
        // (a downlink frequency on the created channel 3: a later redefinition of the channel has to drop it)
        let lo = cmds::freq_bytes(f[2]);
        v.push(("dlch-3".into(), vec![0x0A, 3, lo[0], lo[1], lo[2]]));
        // channel indices at the boundaries of the selection's draw width (9th and 16th slot), and masks that
        // leave only such a channel usable
        let hi = cmds::freq_bytes(f[3] + 200_000);
        v.push(("newch-create8".into(), vec![0x07, 8, hi[0], hi[1], hi[2], 0x50]));
        v.push(("newch-create15".into(), vec![0x07, 15, hi[0], hi[1], hi[2], 0x50]));
        v.push(("adr-ch8-only".into(), cmds::link_adr(15, 15, 0x0100, 0, 1, false).bytes));
        v.push(("adr-ch15-only".into(), cmds::link_adr(15, 15, 0x8000, 0, 1, false).bytes));
    }
    v.push(("rxparam".into(), {
        let fb = cmds::freq_bytes(f[7]);
        vec![0x05, 0x00, fb[0], fb[1], fb[2]]
    }));
    v.push(("garbage-cid".into(), vec![0x80, 1, 2]));
    v
}

#[derive(Clone, Debug, Serialize, Deserialize, PartialEq, Eq, Hash)]
pub enum BEv {
    Up { confirmed: bool },
    /// an uplink with the largest application payload the data rate in force carries (N = M - 8)
    UpMax,
    Cmd { label: String, bytes: Vec<u8>, port0: bool },
    Junk(u8),
    /// Class C: a junk frame heard while idle in rxc_listen
    ListenJunk(u8),
    SetDr(u8),
    SetAdr(bool),
    Join { accept: Option<u8> },
}

fn defined_drs(region: &str) -> Vec<u8> {
    match region {
        "US915" => vec![0, 3, 4],
        "AU915" => vec![0, 5, 6],
        "EU868" | "IN865" => vec![0, 5],
        _ => vec![0, 2, 5, 6],
    }
}

impl System for BSys {
    type Ev = BEv;
    type Key = (VerifMac, Option<VerifNbState>);

    fn enabled(&self) -> Vec<BEv> {
        let joined = matches!(self.snap().state, VerifMacState::Joined(_));
        let mut v = vec![];
        if !joined {
            v.push(BEv::Join { accept: None });
            v.push(BEv::Join { accept: Some(0) });
            v.push(BEv::Join { accept: Some(1) });
            v.push(BEv::Join { accept: Some(2) });
            if self.front == "async-c" {
                // Class C: the JoinAccept / a junk frame is heard while the device listens between the join request
                // and its windows (3: accept before RX1, 4: accept before RX2, 5: junk before RX1 and RX2)
                for k in 3..=5 {
                    v.push(BEv::Join { accept: Some(k) });
                }
            }
            v.push(BEv::Up { confirmed: false });
            return v;
        }
        v.push(BEv::Up { confirmed: false });
        v.push(BEv::Up { confirmed: true });
        for (l, b) in dangerous(&self.region) {
            v.push(BEv::Cmd { label: l.clone(), bytes: b.clone(), port0: false });
            if l.starts_with("adr-") {
                v.push(BEv::Cmd { label: l, bytes: b, port0: true });
            }
        }
        for k in 0..4 {
            v.push(BEv::Junk(k));
        }
        if let Some(ac) = &self.ac {
            let listening = {
                let g = ac.inner.borrow();
                g.cur_max_len > 0 && !g.cur_single
            };
            if self.front == "async-c" && listening {
                for k in 0..4 {
                    v.push(BEv::ListenJunk(k));
                }
            }
        }
        for d in defined_drs(&self.region) {
            v.push(BEv::SetDr(d));
        }
        if self.max_app_payload().is_some() {
            v.push(BEv::UpMax);
        }
        v.push(BEv::SetAdr(false));
        v.push(BEv::Join { accept: Some(2) });
        v
    }

    fn step(&mut self, ev: &BEv) -> Vec<V> {
        let region = self.region.clone();
        let junk = |k: u8| -> Frame {
            match k {
                0 => Frame::Raw(vec![0xFF; 40]),
                1 => Frame::Down { fcnt: Fcnt::Rel(1), confirmed: false, ack: false, fopts: vec![], port: Some(1), payload: vec![0; 4], tamper: Tamper::Foreign },
                2 => Frame::Down { fcnt: Fcnt::Rel(1), confirmed: false, ack: false, fopts: vec![], port: Some(1), payload: vec![0; 230], tamper: Tamper::None },
                _ => Frame::Raw(vec![0x60]),
            }
        };
        if let (BEv::ListenJunk(k), Some(ac)) = (ev, &mut self.ac) {
            let mut out = vec![];
            if let Some(st) = ac.apply(&AEv::Listen { frames: vec![junk(*k)], fault_at: None }) {
                if let AResp::Panic(p) = &st.resp {
                    let (s, w) = classify_at(p, &self.front, "junk-while-listening", &region, &st.before);
                    out.push(V { sig: s, what: w });
                }
                // (a rejected frame leaves rxc_listen waiting: Blocked is the normal answer)
                self.outcome = format!("listen:{}", short_aresp(&st.resp));
            }
            return out;
        }
        if let (BEv::Join { accept: Some(k @ 3..=5) }, Some(ac)) = (ev, &mut self.ac) {
            let mut out = vec![];
            let script = match k {
                3 => Script { rxc1: vec![good_join_accept(&region, false)], ..Default::default() },
                4 => Script { rxc2: vec![good_join_accept(&region, false)], ..Default::default() },
                _ => Script { rxc1: vec![junk(0)], rxc2: vec![junk(1)], ..Default::default() },
            };
            if let Some(st) = ac.apply(&AEv::Join(script)) {
                match &st.resp {
                    AResp::Panic(p) => {
                        let (s, w) = classify_at(p, &self.front, "join-with-classc-reception", &region, &st.before);
                        out.push(V { sig: s, what: w });
                    }
                    AResp::Blocked => out.push(V { sig: format!("C04|{}|deadlock|join-with-classc-reception|history", self.front), what: "call stayed pending".into() }),
                    _ => {}
                }
                self.outcome = format!("join-rxc:{}", short_aresp(&st.resp));
            }
            return out;
        }
        let e: Ev = match ev {
            BEv::Up { confirmed } => Ev::Cycle { confirmed: *confirmed, port: 1, len: 1, rx1: None, rx2: None },
            BEv::UpMax => Ev::Cycle { confirmed: false, port: 1, len: self.max_app_payload().unwrap_or(1), rx1: None, rx2: None },
            BEv::Cmd { bytes, port0, .. } => cycle_with(if *port0 { down(vec![], bytes.clone()) } else { down(bytes.clone(), vec![]) }),
            BEv::Junk(k) => Ev::Cycle { confirmed: false, port: 1, len: 1, rx1: Some(junk(*k)), rx2: Some(junk((*k + 1) % 4)) },
            BEv::ListenJunk(_) => unreachable!(),
            BEv::SetDr(d) => Ev::SetDr(*d),
            BEv::SetAdr(a) => Ev::SetAdr(*a),
            BEv::Join { accept } => {
                let f = accept.map(|k| match k {
                    0 => good_join_accept(&region, false),
                    1 => good_join_accept(&region, true),
                    _ => {
                        // CFList that leaves as little as possible
                        let cf = if is_fixed(&region) {
                            let mut b = vec![0u8; 15];
                            b.push(1);
                            b
                        } else {
                            let mut b = vec![0u8; 15];
                            b.push(0);
                            b
                        };
                        Frame::JoinAccept { join_nonce: 6, net_id: 0x13, devaddr: DEVADDR, dl_settings: 0, rx_delay: 1, cflist: Some(cf), tamper: Tamper::None, trunc: 0 }
                    }
                });
                Ev::JoinCycle { rx1: None, rx2: f }
            }
        };
        let label = match ev {
            BEv::Cmd { label, .. } => label.clone(),
            BEv::Up { .. } => "uplink".into(),
            BEv::UpMax => "uplink-max-payload".into(),
            BEv::Junk(_) => "junk-frames".into(),
            BEv::ListenJunk(_) => "junk-while-listening".into(),
            BEv::SetDr(_) => "set_datarate".into(),
            BEv::SetAdr(_) => "set_adr".into(),
            BEv::Join { .. } => "join".into(),
        };
        let mut out = vec![];
        if let Some(nb) = &mut self.nb {
            let ms = nb.apply(&e);
            for m in &ms {
                if let Resp::Panic(p) = &m.resp {
                    let (s, w) = classify_at(p, "nb", &label, &region, &m.before);
                    out.push(V { sig: s, what: w });
                }
            }
            self.outcome = ms.last().map(|m| short_resp(&m.resp)).unwrap_or_default();
        } else if let Some(ac) = &mut self.ac {
            let ae = match &e {
                Ev::JoinCycle { rx1, rx2 } => AEv::Join(Script { rx1: rx1.clone(), rx2: rx2.clone(), ..Default::default() }),
                Ev::Cycle { confirmed, port, len, rx1, rx2 } => {
                    let mut s = Script { rx1: rx1.clone(), rx2: rx2.clone(), ..Default::default() };
                    if self.front == "async-c" && matches!(ev, BEv::Junk(_)) {
                        // Class C: the junk is also heard between the windows
                        s.rxc1 = rx1.iter().cloned().collect();
                        s.rxc2 = rx2.iter().cloned().collect();
                    }
                    AEv::Send { confirmed: *confirmed, port: *port, len: *len, script: s }
                }
                Ev::SetDr(d) => AEv::SetDr(*d),
                Ev::SetAdr(a) => AEv::SetAdr(*a),
                _ => unreachable!(),
            };
            if let Some(st) = ac.apply(&ae) {
                match &st.resp {
                    AResp::Panic(p) => {
                        let (s, w) = classify_at(p, &self.front, &label, &region, &st.before);
                        out.push(V { sig: s, what: w });
                    }
                    AResp::Blocked => out.push(V { sig: format!("C04|{}|deadlock|{label}|history", self.front), what: "call stayed pending".into() }),
                    _ => {}
                }
                self.outcome = short_aresp(&st.resp);
            }
        }
        out
    }

    fn key(&self) -> Self::Key {
        let mut s = self.snap();
        if let VerifMacState::Joined(ref mut j) = s.state {
            j.fcnt_up = 0;
            j.fcnt_down = None;
            j.adr_ack_cnt = if j.adr_ack_cnt < 60 { 0 } else { j.adr_ack_cnt };
            j.nwkskey = [0; 16];
            j.appskey = [0; 16];
        }
        if let VerifMacState::Otaa { ref mut dev_nonce } = s.state {
            *dev_nonce = 0;
        }
        (s, self.nb.as_ref().map(|n| n.st()))
    }

    fn alive(&self) -> bool {
        self.nb.as_ref().map(|n| n.dead.is_none()).unwrap_or(true) && self.ac.as_ref().map(|a| a.dead.is_none()).unwrap_or(true)
    }

    fn outcome(&self) -> String {
        self.outcome.clone()
    }
}

#[derive(Clone, Debug, Serialize, Deserialize)]
pub struct BCfg {
    pub front: String,
    pub dev: DevCfg,
}

fn replay_case(c: &Value) -> Vec<String> {
    if c.get("history").is_some() {
        let bc: BCfg = serde_json::from_value(c["cfg"].clone()).expect("cfg");
        let hist: Vec<BEv> = serde_json::from_value(c["history"].clone()).expect("history");
        return explore::replay(&|| BSys::new(&bc.front, &bc.dev), &hist);
    }
    let case: Case = serde_json::from_value(c.clone()).expect("case");
    eval(&case).0.into_iter().map(|x| x.0).collect()
}

pub fn run(tier: Tier, replay: Option<&str>) {
    if let Some(path) = replay {
        replay_exit("C04", path, replay_case(&load_case(path)));
    }
    let ctx = Ctx::new("C04", tier);
    let th = tier.thorough();
    let regions: Vec<&str> = if th { REGIONS.to_vec() } else { vec!["EU868", "US915", "AS923_1", "AU915", "IN865"] };
    let seen: Mutex<HashSet<u64>> = Mutex::new(HashSet::new());
    let followups = AtomicU64::new(0);
    let cases_a = AtomicU64::new(0);
    let record = |c: &Case| {
        let (v, h) = eval(c);
        cases_a.fetch_add(1, Ordering::Relaxed);
        let weight = c.cmd.as_ref().map(|x| x.bytes.len()).unwrap_or(0) + if c.draw.is_some() { 50 } else { 0 };
        for (sig, what) in v {
            ctx.violation(sig, what, serde_json::to_value(c).unwrap(), weight);
        }
        ctx.tick(1);
        h
    };
    // ---- Layer A
    for region in &regions {
        let singles = cmds::single_commands(region, th);
        let mut blocks = cmds::link_adr_blocks(th);
        // streams whose answers reach and cross the 15-byte answer budget at every position: k requests with a
        // 3-byte answer followed by requests with 2- and 1-byte answers; and long runs of one request
        {
            let f = cmds::freq_bytes(cmds::freqs(region)[7]);
            let tails: Vec<Vec<u8>> = vec![vec![0x05, 0x00, f[0], f[1], f[2]], vec![0x08, 0x03], cmds::link_adr(15, 15, 0xFFFF, 0, 1, false).bytes, vec![0x06]];
            for k in 0..=6usize {
                for t in &tails {
                    for t2 in &tails {
                        let mut b = vec![0x06; k];
                        b.extend(t);
                        b.extend(t2);
                        blocks.push(Cmd { name: format!("budget-{k}xDevStatusReq"), bytes: b });
                    }
                }
            }
            for n in 6..=9usize {
                let mut b = vec![];
                for _ in 0..n {
                    b.extend(cmds::link_adr(15, 15, 0xFFFF, 0, 1, false).bytes);
                }
                blocks.push(Cmd { name: format!("{n}xLinkADRReq"), bytes: b });
            }
        }
        let jas = cmds::join_accepts(region, th);
        for front in ["nb", "async", "async-c"] {
            // the MAC is shared between the front-ends: the async front-ends get the reduced domain
            let reduce = front != "nb";
            for otaa in [false, true] {
                for base in BASES {
                    if base == "cflist" && !otaa {
                        continue;
                    }
                    if base == "extra-channels" && is_fixed(region) {
                        continue;
                    }
                    if reduce && (base != "fresh" && base != "sparse-mask") {
                        continue;
                    }
                    let dev = if otaa { DevCfg::otaa(region) } else { DevCfg::abp(region) };
                    let mk = |cmd: Option<Cmd>, port0: bool, ja: Option<JaSpec>, draw: Option<u32>| Case {
                        front: front.into(),
                        dev: dev.clone(),
                        base: base.into(),
                        cmd,
                        port0,
                        ja,
                        draw,
                    };
                    let all: Vec<(&Cmd, bool)> = singles
                        .iter()
                        .chain(blocks.iter())
                        .enumerate()
                        .filter(|(i, _)| !reduce || i % 37 == 0)
                        .flat_map(|(_, c)| {
                            let mut v = vec![(c, false)];
                            if base == "fresh" && !otaa {
                                v.push((c, true));
                            }
                            v
                        })
                        .filter(|(c, p0)| *p0 || c.bytes.len() <= 15)
                        .collect();
                    all.par_iter().for_each(|(cmd, p0)| {
                        let c = mk(Some((*cmd).clone()), *p0, None, None);
                        if let Some(h) = record(&c)
                            && seen.lock().unwrap().insert(h ^ (front.len() as u64))
                        {
                            for d in 0..64u32 {
                                record(&Case { draw: Some(d), ..c.clone() });
                                followups.fetch_add(1, Ordering::Relaxed);
                            }
                            if front == "nb" {
                                record(&Case { draw: Some(BACKOFF_WALK), ..c.clone() });
                                record(&Case { draw: Some(REJOIN), ..c.clone() });
                                followups.fetch_add(2, Ordering::Relaxed);
                            }
                        }
                    });
                    // JoinAccept contents (OTAA only, from the unjoined device and as a re-join)
                    if otaa && (base == "fresh" || base == "sparse-mask") {
                        let js: Vec<&JaSpec> = jas.iter().enumerate().filter(|(i, _)| !reduce || i % 11 == 0).map(|x| x.1).collect();
                        js.par_iter().for_each(|ja| {
                            let c = mk(None, false, Some((*ja).clone()), None);
                            if let Some(h) = record(&c)
                                && seen.lock().unwrap().insert(h ^ 0x55 ^ (front.len() as u64))
                            {
                                for d in 0..64u32 {
                                    record(&Case { draw: Some(d), ..c.clone() });
                                    followups.fetch_add(1, Ordering::Relaxed);
                                }
                                if front == "nb" {
                                    record(&Case { draw: Some(BACKOFF_WALK), ..c.clone() });
                                    record(&Case { draw: Some(REJOIN), ..c.clone() });
                                    followups.fetch_add(2, Ordering::Relaxed);
                                }
                            }
                        });
                    }
                }
            }
        }
    }
    // ---- Layer B
    let depth = if th { 6 } else { 5 };
    let mut states = 0u64;
    let mut transitions = 0u64;
    let mut capped = false;
    let mut outcomes: std::collections::BTreeMap<String, u64> = Default::default();
    for region in &regions {
        for front in ["nb", "async", "async-c"] {
            for otaa in [false, true] {
                for ack in [None, Some(94u32)] {
                    if ack.is_some() && otaa {
                        continue;
                    }
                    let mut dev = if otaa { DevCfg::otaa(region) } else { DevCfg::abp(region) };
                    dev.adr_ack_cnt = ack;
                    if ack.is_some() {
                        dev.dr = Some(if is_fixed(region) { 4 } else { 2 });
                    }
                    let bc = BCfg { front: front.into(), dev: dev.clone() };
                    let cj = serde_json::to_value(&bc).unwrap();
                    let st = explore::bfs(&ctx, &cj, &|| BSys::new(front, &dev), depth, 250_000);
                    states += st.states;
                    transitions += st.transitions;
                    capped |= st.capped;
                    for (k, v) in st.outcomes {
                        *outcomes.entry(format!("{front}:{k}")).or_insert(0) += v;
                    }
                }
            }
        }
    }
    // (nb) the same search with the board's millisecond clock just below 2^31 ms and just below the 2^32 ms wrap:
    // the window times computed from the TX-done timestamp must wrap with the clock instead of panicking
    for region in regions.iter().take(2) {
        for otaa in [false, true] {
            for clock in [0x7FFF_FE00u32, 0xFFFF_FB00] {
                let mut dev = if otaa { DevCfg::otaa(region) } else { DevCfg::abp(region) };
                dev.clock_start = Some(clock);
                let bc = BCfg { front: "nb".into(), dev: dev.clone() };
                let cj = serde_json::to_value(&bc).unwrap();
                let st = explore::bfs(&ctx, &cj, &|| BSys::new("nb", &dev), 3, 250_000);
                states += st.states;
                transitions += st.transitions;
                capped |= st.capped;
            }
        }
    }
    // boards whose receive windows last as long as / longer than the RX1 -> RX2 gap, with and without a window offset /
    // lead time, and with a clock next to its wrap (window bookkeeping of both front-ends takes other paths there)
    for region in regions.iter().take(2) {
        for front in ["nb", "async-c"] {
            for (dur, offs, clock) in [(1000u32, 0i32, None), (2500, 40, None), (6000, 0, None), (1000, 40, Some(0xFFFF_F000u32))] {
                let mut dev = DevCfg::otaa(region);
                dev.duration_ms = dur;
                dev.offset_ms = offs;
                dev.clock_start = clock;
                let bc = BCfg { front: front.into(), dev: dev.clone() };
                let cj = serde_json::to_value(&bc).unwrap();
                let st = explore::bfs(&ctx, &cj, &|| BSys::new(front, &dev), 3, 250_000);
                states += st.states;
                transitions += st.transitions;
                capped |= st.capped;
            }
        }
    }
    // ---- Layer C: long runs of unanswered join attempts (the walk over the join channels of the fixed plans
    // keeps state that only shows after many attempts), with and without a join bias
    let mut join_runs = 0u64;
    for region in regions.iter().filter(|r| is_fixed(r)) {
        for bias in [None, Some((2u8, 1usize)), Some((2, 2)), Some((2, 8)), Some((8, 4)), Some((1, 20))] {
            for front in ["nb", "async"] {
                let mut dev = DevCfg::otaa(region);
                dev.bias = bias;
                let bc = BCfg { front: front.into(), dev: dev.clone() };
                let mut sys = BSys::new(front, &dev);
                let mut hist = vec![];
                for _ in 0..(if th { 400 } else { 150 }) {
                    let ev = BEv::Join { accept: None };
                    hist.push(ev.clone());
                    let vs = explore::System::step(&mut sys, &ev);
                    transitions += 1;
                    ctx.tick(1);
                    if !vs.is_empty() {
                        for v in vs {
                            ctx.violation(v.sig, v.what, json!({"cfg": serde_json::to_value(&bc).unwrap(), "history": serde_json::to_value(&hist).unwrap()}), hist.len());
                        }
                        break;
                    }
                    if !explore::System::alive(&sys) {
                        break;
                    }
                }
                join_runs += 1;
            }
        }
    }
    let coverage = json!({
        "join_runs": join_runs,
        "states": states + seen.lock().unwrap().len() as u64,
        "transitions": transitions + cases_a.load(Ordering::Relaxed),
        "traces_validated_against_impl": transitions + cases_a.load(Ordering::Relaxed),
        "samples": [
            serde_json::to_value(Case { front: "nb".into(), dev: DevCfg::otaa("EU868"), base: "fresh".into(), cmd: None, port0: false, ja: Some(JaSpec { dl_settings: 0x0F, rx_delay: 1, cflist: None }), draw: None }).unwrap(),
            serde_json::to_value(Case { front: "nb".into(), dev: DevCfg::abp("US915"), base: "sparse-mask".into(), cmd: Some(cmds::link_adr(4, 15, 0, 7, 1, false)), port0: false, ja: None, draw: Some(5) }).unwrap(),
        ],
        "evaluations": ctx.evals(),
        "distinct_nontrivial": states + seen.lock().unwrap().len() as u64,
        "rule": "Layer A: for every region x {ABP,OTAA} x base state x front-end, one authentic downlink (FOpts and port 0) carrying one command with its full value domain (LinkADRReq DR x TXPower x ChMaskCntl x mask patterns x NbTrans x RFU bit and 2-3 command blocks; RXParamSetupReq all 256 DLSettings x frequency set; RXTimingSetupReq / TXParamSetupReq / DutyCycleReq all 256; NewChannelReq index x frequency set x DrRange bytes; DlChannelReq; every CID 0..255 with 0..5 trailing bytes) or one JoinAccept (all 256 DLSettings x RxDelay x CFList variants); every distinct resulting MAC snapshot is followed by two uplinks with the first RNG draw enumerated over 0..63 and (nb) by a walk through every ADR back-off step down to the lowest data rate (count of unanswered uplinks pre-loaded to one short of each step) and by two OTAA join attempts (unanswered, answered). Layer B: BFS over histories (uplinks, commands that delete channels / shrink the mask / change DR, junk and oversized frames, set_datarate for region-defined rates, set_adr, joins with minimal CFLists, (Class C) joins during which the JoinAccept or junk is heard by the continuous reception between the request and its windows, ADR back-off from a pre-loaded counter). Layer B also on boards with 1000 / 2500 / 6000 ms receive windows, window offsets and a clock next to its wrap. Layer C: runs of 150 (thorough: 400) consecutive unanswered join attempts on the fixed plans for each join-bias setting. states = distinct post-command snapshots (A) + distinct canonical states (B)",
        "layer_a_cases": cases_a.load(Ordering::Relaxed),
        "layer_a_followups": followups.load(Ordering::Relaxed),
        "layer_b_depth": depth,
        "layer_b_states": states,
        "layer_b_transitions": transitions,
        "regions": regions,
        "outcomes": outcomes,
        "exhaustive": !capped,
        "capped": capped,
    });
    let replayer = |cj: &Value| -> Vec<String> { replay_case(cj) };
    ctx.finish(
        "model_checking",
        coverage,
        vec![
            "hang detection: the scripted RNG is fair (sweeps all low-bit patterns) and panics after 4096 draws in one call".into(),
            "async calls must complete under the poll-driven executor (a pending call with nothing scheduled is a deadlock)".into(),
            "the async front-ends run a 1/37 (commands) and 1/11 (JoinAccepts) stride of Layer A: the MAC code is shared with nb, which runs the full domain".into(),
            "application calls with invalid arguments (undefined data rate, payload on port 0, > 242 bytes) are not in the alphabet".into(),
        ],
        Some(&replayer),
    );
}
