//! C16 — time on air equals the Semtech formula exactly (exhaustive input-space sweep).
use crate::checks::{load_case, replay_exit};
use crate::ctx::{Ctx, Tier, catch};
use lora_modulation::{Bandwidth, BaseBandModulationParams, CodingRate, SpreadingFactor};
use rayon::prelude::*;
use serde_json::{Value, json};
use std::sync::atomic::{AtomicU64, Ordering};

pub const SFS: [SpreadingFactor; 8] = [
    SpreadingFactor::_5,
    SpreadingFactor::_6,
    SpreadingFactor::_7,
    SpreadingFactor::_8,
    SpreadingFactor::_9,
    SpreadingFactor::_10,
    SpreadingFactor::_11,
    SpreadingFactor::_12,
];
pub const BWS: [Bandwidth; 10] = [
    Bandwidth::_7KHz,
    Bandwidth::_10KHz,
    Bandwidth::_15KHz,
    Bandwidth::_20KHz,
    Bandwidth::_31KHz,
    Bandwidth::_41KHz,
    Bandwidth::_62KHz,
    Bandwidth::_125KHz,
    Bandwidth::_250KHz,
    Bandwidth::_500KHz,
];
pub const CRS: [CodingRate; 4] = [CodingRate::_4_5, CodingRate::_4_6, CodingRate::_4_7, CodingRate::_4_8];

/// Exact evaluation of the Semtech modem formula (AN1200.13 / SX127x datasheet §4.1.1.6)
/// in wide integers. Returns (numerator sign class, time on air in us).
fn reference(sf: u32, bw_hz: u32, cr_denom: u32, ldro: bool, preamble: Option<u8>, explicit: bool, len: u8) -> (bool, u128) {
    let t_sym: u128 = ((1u128 << sf) * 1_000_000) / bw_hz as u128; // truncated to the microsecond
    let de: i128 = if ldro { 1 } else { 0 };
    let h: i128 = if explicit { 0 } else { 1 };
    let num: i128 = 8 * len as i128 - 4 * sf as i128 + 28 + 16 - 20 * h;
    let den: i128 = 4 * (sf as i128 - 2 * de);
    // mathematical ceiling of num/den for den > 0
    let ceil = num.div_euclid(den) + if num.rem_euclid(den) != 0 { 1 } else { 0 };
    let big = if ceil > 0 { ceil } else { 0 };
    let n_payload: u128 = 8 + (big as u128) * cr_denom as u128;
    let toa = match preamble {
        None => t_sym * n_payload,
        Some(p) => (4 * p as u128 + 17 + 4 * n_payload) * t_sym / 4,
    };
    (num > 0, toa)
}

#[derive(Clone, Copy)]
struct Case {
    sf: usize,
    bw: usize,
    cr: usize,
    /// 0 = automatic, 1 = forced off, 2 = forced on
    ldro_mode: u8,
    explicit: bool,
    /// -1 = None
    preamble: i32,
    len: u8,
}

impl Case {
    fn json(&self) -> Value {
        json!({"sf": SFS[self.sf].factor(), "bw_hz": BWS[self.bw].hz(), "cr_denom": CRS[self.cr].denom(),
               "ldro_mode": self.ldro_mode, "explicit_header": self.explicit, "preamble": self.preamble, "len": self.len,
               "sf_i": self.sf, "bw_i": self.bw, "cr_i": self.cr})
    }
    fn from_json(v: &Value) -> Case {
        Case {
            sf: v["sf_i"].as_u64().unwrap() as usize,
            bw: v["bw_i"].as_u64().unwrap() as usize,
            cr: v["cr_i"].as_u64().unwrap() as usize,
            ldro_mode: v["ldro_mode"].as_u64().unwrap() as u8,
            explicit: v["explicit_header"].as_bool().unwrap(),
            preamble: v["preamble"].as_i64().unwrap() as i32,
            len: v["len"].as_u64().unwrap() as u8,
        }
    }
}

fn params(c: &Case) -> BaseBandModulationParams {
    let mut p = BaseBandModulationParams::new(SFS[c.sf], BWS[c.bw], CRS[c.cr]);
    match c.ldro_mode {
        1 => p.ldro = false,
        2 => p.ldro = true,
        // a value that went through its serde form (persisted radio settings) computes the same airtime; a
        // document that does not read back leaves zeroed parameters behind, which the reference then exposes
        3 => {
            p = serde_json::to_string(&p).ok().and_then(|s| serde_json::from_str(&s).ok()).unwrap_or(p);
        }
        _ => {}
    }
    p
}

/// Evaluates one case; returns (signature, what) for each violation, plus (nontrivial, value).
/// Nominal LoRa bandwidths as the datasheets print them (7.81, 10.42, 15.63, 20.83, 31.25, 41.67, 62.5,
/// 125, 250, 500 kHz), in Hz, in the order of `BWS`.
pub const NOMINAL_BW_HZ: [u32; 10] = [7_810, 10_420, 15_630, 20_830, 31_250, 41_670, 62_500, 125_000, 250_000, 500_000];

fn eval(c: &Case, prev: Option<u32>) -> (Vec<(String, String)>, bool, Option<u32>) {
    let p = params(c);
    let pre = if c.preamble < 0 { None } else { Some(c.preamble as u8) };
    // the bandwidth comes from the datasheet's nominal values, not from the crate's own table
    let (pos, want) = reference(SFS[c.sf].factor(), NOMINAL_BW_HZ[c.bw], CRS[c.cr].denom(), p.ldro, pre, c.explicit, c.len);
    let numclass = if pos { "num>0" } else { "num<=0" };
    let mut v = vec![];
    let got = catch(|| p.time_on_air_us(pre, c.explicit, c.len));
    let val = match got {
        Err(e) => {
            v.push((format!("C16|panic|{}|sf{}", numclass, SFS[c.sf].factor()), format!("time_on_air_us panicked: {e}")));
            None
        }
        Ok(g) => {
            if g as u128 != want {
                let kind = if want > u32::MAX as u128 { "overflow" } else { "mismatch" };
                v.push((
                    format!("C16|{}|{}|sf{}", kind, numclass, SFS[c.sf].factor()),
                    format!("time_on_air_us = {g}, exact formula = {want}"),
                ));
            }
            if let Some(pv) = prev
                && g < pv
            {
                v.push((
                    format!("C16|nonmonotone|{}|sf{}", numclass, SFS[c.sf].factor()),
                    format!("time on air decreased from {pv} (len {}) to {g} (len {})", c.len - 1, c.len),
                ));
            }
            Some(g)
        }
    };
    (v, pos, val)
}

pub fn run(tier: Tier, replay: Option<&str>) {
    if let Some(path) = replay {
        let cj = load_case(path);
        let c = Case::from_json(&cj);
        let prev = if c.len > 0 { eval(&Case { len: c.len - 1, ..c }, None).2 } else { None };
        let sigs = eval(&c, prev).0.into_iter().map(|x| x.0).collect();
        replay_exit("C16", path, sigs);
    }
    let ctx = Ctx::new("C16", tier);
    let ldro_modes: &[u8] = if tier.thorough() { &[0, 1, 2, 3] } else { &[0] };
    let preambles: Vec<i32> = if tier.thorough() { (-1..=255).collect() } else { vec![-1, 0, 8, 255] };
    let mut groups = vec![];
    for sf in 0..8 {
        for bw in 0..10 {
            for cr in 0..4 {
                for &lm in ldro_modes {
                    for explicit in [true, false] {
                        groups.push((sf, bw, cr, lm, explicit));
                    }
                }
            }
        }
    }
    let nontrivial = AtomicU64::new(0);
    let edges = AtomicU64::new(0);
    groups.par_iter().for_each(|&(sf, bw, cr, lm, explicit)| {
        let mut nt = 0u64;
        let mut n = 0u64;
        let mut ed = 0u64;
        for &pre in &preambles {
            let mut prev = None;
            for len in 0..=255u8 {
                let c = Case { sf, bw, cr, ldro_mode: lm, explicit, preamble: pre, len };
                let (v, pos, val) = eval(&c, prev);
                for (sig, what) in v {
                    ctx.violation(sig, what, c.json(), len as usize);
                }
                if pos {
                    nt += 1;
                }
                if prev.is_some() {
                    ed += 1;
                }
                prev = val;
                n += 1;
            }
        }
        ctx.tick(n);
        nontrivial.fetch_add(nt, Ordering::Relaxed);
        edges.fetch_add(ed, Ordering::Relaxed);
    });
    let samples = vec![
        Case { sf: 7, bw: 7, cr: 0, ldro_mode: 0, explicit: true, preamble: 8, len: 13 }.json(),
        Case { sf: 7, bw: 0, cr: 3, ldro_mode: 0, explicit: false, preamble: -1, len: 0 }.json(),
        Case { sf: 0, bw: 9, cr: 1, ldro_mode: 0, explicit: true, preamble: 255, len: 255 }.json(),
    ];
    let coverage = json!({
        "evaluations": ctx.evals(),
        "distinct_nontrivial": nontrivial.load(Ordering::Relaxed),
        "rule": "full cartesian product SF(8) x BW(10) x CR(4) x LDRO mode (automatic, forced off, forced on, automatic after a serde round trip of the value) x header mode x preamble set x len 0..=255; every tuple is a distinct input; non-trivial = payload numerator 8PL-4SF+44-20H > 0 (payload adds symbols beyond the fixed 8)",
        "samples": samples,
        "exhaustive": true,
        "monotonicity_edges_checked": edges.load(Ordering::Relaxed),
        "ldro_modes": ldro_modes,
        "preamble_values": preambles.len(),
    });
    let replayer = |cj: &Value| -> Vec<String> {
        let c = Case::from_json(cj);
        let prev = if c.len > 0 { eval(&Case { len: c.len - 1, ..c }, None).2 } else { None };
        eval(&c, prev).0.into_iter().map(|x| x.0).collect()
    };
    ctx.finish(
        "exploration",
        coverage,
        vec![
            "reference = Semtech AN1200.13 / SX127x datasheet formula with CRC on, evaluated in i128/u128".into(),
            "symbol time truncated to the microsecond from the datasheet's nominal bandwidth values (own table, not the crate's Bandwidth::hz())".into(),
            "overflow-checks are enabled in the harness build, so an intermediate u32/i32 overflow is a panic".into(),
        ],
        Some(&replayer),
    );
}
