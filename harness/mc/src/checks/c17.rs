//! C17 — programmed frequency, TX power and RX timeout decode to what was requested; reported
//! RSSI/SNR agree with the datasheet conversion. Exhaustive sweeps through the real drivers,
//! decoding their SPI writes with the datasheet formulas.
use crate::adev::drive;
use crate::checks::c16::{BWS, SFS};
use crate::checks::{load_case, replay_exit};
use crate::ctx::{Ctx, Tier, catch, panic_site};
use crate::phy::{Env, Txn, passive};
use lora_modulation::{BaseBandModulationParams, CodingRate};
use lora_phy::lorawan_radio::LorawanRadio;
use lora_phy::mod_params::RxMode;
use lora_phy::mod_traits::RadioKind;
use lora_phy::{LoRa, sx126x, sx127x};
use lorawan_device::async_device::radio::{PhyRxTx, RfConfig, RxConfig, RxMode as LwRxMode};
use rayon::prelude::*;
use serde::{Deserialize, Serialize};
use serde_json::{Value, json};
use std::cell::Cell;
use std::rc::Rc;
use std::sync::atomic::{AtomicU64, Ordering};

#[derive(Clone, Debug, Serialize, Deserialize)]
#[serde(tag = "t")]
pub enum Case {
    Freq { chip: String, hz: u32 },
    Power {
        chip: String,
        request: i32,
        hz: u32,
        /// 0: RadioKind::set_tx_power_and_ramp_time, 1: LoRa::prepare_for_tx, 2: LoRa::continuous_wave
        #[serde(default)]
        via: u8,
    },
    /// two requests in a row on one chip (register-file model): the second one is judged
    PowerSeq { chip: String, first: i32, second: i32, hz: u32 },
    /// a request, then another one during which the `fault`-th environment call (SPI transfer, BUSY wait, RF switch)
    /// fails once, then that request again on the same driver instance: the retried request is judged
    PowerRetry { chip: String, first: i32, second: i32, fault: usize },
    /// a sequence of front-end calls on one driver instance and one chip; after every call that names a frequency
    /// the chip must be tuned to it. ops: see `FREQ_OPS`
    FreqSeq { chip: String, ops: Vec<u8> },
    /// a sequence of front-end calls on one driver instance and one chip; after every prepare_for_tx the PA registers
    /// hold what a fresh driver programs for that request. ops: see `POWER_OPS`
    #[serde(rename = "PowerFrontSeq")]
    PowerFrontSeq { chip: String, ops: Vec<u8> },
    Timeout { chip: String, symbols: u16 },
    Adapter { chip: String, sf: usize, bw: usize, ms: u32 },
    Status126 { raw: [u8; 3] },
    Status127 { sx1272: bool, snr: u8, rssi: u8, hf: bool },
    Status127At { sx1272: bool, snr: u8, rssi: u8, frf: u32 },
}

type R126<C> = sx126x::Sx126x<crate::phy::MockSpi, crate::phy::MockIv, C>;

/// Boards that supply their own PA characterisation through `Sx126xVariant::pa_table`: the rows of the datasheet
/// table up to +20 / +17 dBm on the high-power PA (as ST's SUBGRF_SetTxParams configures such boards) and up to
/// +14 dBm on the low-power PA. The top row is the board's ceiling.
static BOARD_HP20_TABLE: sx126x::PaTable = sx126x::PaTable {
    min_dbm: -9,
    entries: &[
        sx126x::PaTableEntry { max_dbm: 14, pa_duty_cycle: 0x02, hp_max: 0x02, tx_params_at_max: 22 },
        sx126x::PaTableEntry { max_dbm: 17, pa_duty_cycle: 0x02, hp_max: 0x03, tx_params_at_max: 22 },
        sx126x::PaTableEntry { max_dbm: 20, pa_duty_cycle: 0x03, hp_max: 0x05, tx_params_at_max: 22 },
    ],
};
static BOARD_HP17_TABLE: sx126x::PaTable = sx126x::PaTable {
    min_dbm: -9,
    entries: &[
        sx126x::PaTableEntry { max_dbm: 14, pa_duty_cycle: 0x02, hp_max: 0x02, tx_params_at_max: 22 },
        sx126x::PaTableEntry { max_dbm: 17, pa_duty_cycle: 0x02, hp_max: 0x03, tx_params_at_max: 22 },
    ],
};
static BOARD_LP14_TABLE: sx126x::PaTable = sx126x::PaTable {
    min_dbm: -17,
    entries: &[
        sx126x::PaTableEntry { max_dbm: 10, pa_duty_cycle: 0x01, hp_max: 0x00, tx_params_at_max: 13 },
        sx126x::PaTableEntry { max_dbm: 14, pa_duty_cycle: 0x04, hp_max: 0x00, tx_params_at_max: 14 },
    ],
};
pub struct BoardVariant(pub u8);
impl sx126x::Sx126xVariant for BoardVariant {
    fn get_device_sel(&self) -> sx126x::DeviceSel {
        if self.0 == 14 { sx126x::DeviceSel::LowPowerPA } else { sx126x::DeviceSel::HighPowerPA }
    }
    fn pa_table(&self) -> &'static sx126x::PaTable {
        match self.0 {
            20 => &BOARD_HP20_TABLE,
            17 => &BOARD_HP17_TABLE,
            _ => &BOARD_LP14_TABLE,
        }
    }
}

fn mk126<C: sx126x::Sx126xVariant>(env: &Env, chip: C) -> R126<C> {
    sx126x::Sx126x::new(env.spi(), env.iv(), sx126x::Config { chip, tcxo_ctrl: None, use_dcdc: false, rx_boost: false })
}
macro_rules! mk127 {
    ($env:expr, $chip:expr, $boost:expr) => {
        sx127x::Sx127x::new($env.spi(), $env.iv(), sx127x::Config { chip: $chip, tcxo_used: false, tx_boost: $boost, rx_boost: false })
    };
}

/// Runs `f` on the named radio kind over `env`.
macro_rules! with_chip {
    ($chip:expr, $env:expr, |$r:ident| $body:expr) => {
        match $chip {
            "sx1261" => {
                let mut $r = mk126($env, sx126x::Sx1261);
                $body
            }
            "sx1262" => {
                let mut $r = mk126($env, sx126x::Sx1262);
                $body
            }
            "stm32wl-lp" => {
                let mut $r = mk126($env, sx126x::Stm32wl { use_high_power_pa: false });
                $body
            }
            "stm32wl-hp" => {
                let mut $r = mk126($env, sx126x::Stm32wl { use_high_power_pa: true });
                $body
            }
            "board-hp20" => {
                let mut $r = mk126($env, BoardVariant(20));
                $body
            }
            "board-hp17" => {
                let mut $r = mk126($env, BoardVariant(17));
                $body
            }
            "board-lp14" => {
                let mut $r = mk126($env, BoardVariant(14));
                $body
            }
            "sx1276-rfo" => {
                let mut $r = mk127!($env, sx127x::Sx1276, false);
                $body
            }
            "sx1276-boost" => {
                let mut $r = mk127!($env, sx127x::Sx1276, true);
                $body
            }
            "sx1272-rfo" => {
                let mut $r = mk127!($env, sx127x::Sx1272, false);
                $body
            }
            _ => {
                let mut $r = mk127!($env, sx127x::Sx1272, true);
                $body
            }
        }
    };
}

fn is126(chip: &str) -> bool {
    chip.starts_with("sx126") || chip.starts_with("stm32") || chip.starts_with("board-")
}

fn reg_write(log: &[Txn], addr: u8) -> Option<u8> {
    log.iter().rev().find(|t| t.w.len() >= 2 && t.w[0] == (addr | 0x80)).map(|t| t.w[1])
}

// ---------------------------------------------------------------- (a) frequency

pub fn eval_freq(chip: &str, hz: u32, env: &Env) -> Vec<(String, String)> {
    let r = catch(|| with_chip!(chip, env, |r| drive(r.set_channel(hz))));
    let log = env.take_log();
    let fam = if is126(chip) { "sx126x" } else { "sx127x" };
    match r {
        Err(p) => vec![(format!("C17|freq|{fam}|panic|{}", panic_site(&p)), format!("{hz} Hz: {p}"))],
        Ok(Some(Ok(()))) => {
            if is126(chip) {
                let Some(t) = log.iter().rev().find(|t| t.w.first() == Some(&0x86) && t.w.len() == 5) else {
                    return vec![(format!("C17|freq|{fam}|not-programmed"), format!("{hz} Hz"))];
                };
                let word = u32::from_be_bytes([t.w[1], t.w[2], t.w[3], t.w[4]]) as i128;
                // |word - f*2^25/32e6| <= 1/2
                let d = (word * 32_000_000 - ((hz as i128) << 25)).abs();
                if d > 16_000_000 {
                    return vec![(format!("C17|freq|{fam}|not-nearest-step"), format!("{hz} Hz programmed as PLL word {word} = {:.3} Hz", word as f64 * 32e6 / 33554432.0))];
                }
            } else {
                let (Some(m), Some(mi), Some(l)) = (reg_write(&log, 0x06), reg_write(&log, 0x07), reg_write(&log, 0x08)) else {
                    return vec![(format!("C17|freq|{fam}|not-programmed"), format!("{hz} Hz"))];
                };
                let word = ((m as i128) << 16) | ((mi as i128) << 8) | l as i128;
                // within one synthesiser step (61.035 Hz): |f*2^19 - word*32e6| < 32e6
                let d = (((hz as i128) << 19) - word * 32_000_000).abs();
                if d >= 32_000_000 {
                    return vec![(format!("C17|freq|{fam}|off-by-more-than-one-step"), format!("{hz} Hz programmed as Frf {word} = {:.1} Hz", word as f64 * 32e6 / 524288.0))];
                }
            }
            vec![]
        }
        Ok(other) => vec![(format!("C17|freq|{fam}|refused"), format!("{hz} Hz: {:?}", other.map(|x| x.err())))],
    }
}

// ---------------------------------------------------------------- (b) power

/// Datasheet decode of the SX126x PA configuration: output power in tenths of dBm.
/// Table 13-21 rows are anchored at (paDutyCycle, hpMax, deviceSel) with a SetTxParams value;
/// lower SetTxParams values lower the output one-for-one.
fn decode126(duty: u8, hp: u8, dev: u8, param: i8, stm_hp: bool) -> Vec<i32> {
    let anchors: Vec<(i32, i32)> = match (duty, hp, dev) {
        (0x01, 0x00, 1) => vec![(10, 13)],
        (0x04, 0x00, 1) => vec![(14, 14)],
        (0x06, 0x00, 1) => vec![(15, 14)],
        // ST characterises the STM32WL's 14 dBm row with SetTxParams = target
        (0x02, 0x02, 0) => {
            if stm_hp { vec![(14, 22), (14, 14)] } else { vec![(14, 22)] }
        }
        (0x02, 0x03, 0) => vec![(17, 22)],
        (0x03, 0x05, 0) => vec![(20, 22)],
        (0x04, 0x07, 0) => vec![(22, 22)],
        _ => vec![],
    };
    anchors.into_iter().map(|(dbm, p)| 10 * (dbm - (p - param as i32))).collect()
}

pub fn eval_power(chip: &str, request: i32, hz: u32, env: &Env) -> Vec<(String, String)> {
    eval_power_via(chip, request, hz, 0, env)
}

/// `via`: the call site the request goes through (the driver's own entry point, or the LoRa front-end's
/// prepare_for_tx / continuous_wave, which hand the carrier frequency on with the modulation parameters).
pub fn eval_power_via(chip: &str, request: i32, hz: u32, via: u8, env: &Env) -> Vec<(String, String)> {
    let r = catch(|| {
        with_chip!(chip, env, |r| {
            if via == 0 {
                let mp = r.create_modulation_params(lora_modulation::SpreadingFactor::_7, lora_modulation::Bandwidth::_125KHz, CodingRate::_4_5, hz).ok();
                drive(r.set_tx_power_and_ramp_time(request, mp.as_ref(), true))
            } else {
                let Some(Ok(mut l)) = drive(lora_phy::LoRa::new(r, true, env.delay())) else { return None };
                // (the log keeps what initialisation programmed: a driver that does not repeat an unchanged PA
                // configuration is within the property - the chip holds what the last write of each kind set)
                let mp = l.create_modulation_params(lora_modulation::SpreadingFactor::_7, lora_modulation::Bandwidth::_125KHz, CodingRate::_4_5, hz).ok()?;
                if via == 1 {
                    let mut txp = l.create_tx_packet_params(8, false, true, false, &mp).ok()?;
                    drive(l.prepare_for_tx(&mp, &mut txp, request, &[1, 2, 3]))
                } else {
                    drive(l.continuous_wave(&mp, request))
                }
            }
        })
    });
    let log = env.take_log();
    let mut v = vec![];
    match r {
        Err(p) => return vec![(format!("C17|power|{chip}|panic|{}", panic_site(&p)), format!("request {request} dBm: {p}"))],
        Ok(Some(Ok(()))) => {}
        Ok(other) => {
            // a refusal is admissible only for the documented SX1261 +15 dBm below 400 MHz rule
            let lp = chip == "sx1261" || chip == "stm32wl-lp" || chip == "board-lp14";
            if !(lp && request >= 15 && hz < 400_000_000) {
                v.push((format!("C17|power|{chip}|refused"), format!("request {request} dBm at {hz} Hz: {:?}", other.map(|x| x.err()))));
            }
            return v;
        }
    }
    if is126(chip) {
        let hp = chip == "sx1262" || chip == "stm32wl-hp" || chip.starts_with("board-hp");
        // (a board with its own PA table: the top row of the table is the ceiling)
        let (lo, hi) = match chip {
            "board-hp20" => (-9, 20),
            "board-hp17" => (-9, 17),
            "board-lp14" => (-17, 14),
            _ if hp => (-9, 22),
            _ => (-17, 15),
        };
        let Some(pa) = log.iter().rev().find(|t| t.w.first() == Some(&0x95) && t.w.len() == 5) else {
            return vec![(format!("C17|power|{chip}|pa-config-not-programmed"), format!("{request}"))];
        };
        let Some(tp) = log.iter().rev().find(|t| t.w.first() == Some(&0x8E) && t.w.len() == 3) else {
            return vec![(format!("C17|power|{chip}|tx-params-not-programmed"), format!("{request}"))];
        };
        let param = tp.w[1] as i8;
        if pa.w[4] != 0x01 || pa.w[3] != if hp { 0 } else { 1 } {
            v.push((format!("C17|power|{chip}|reserved-or-device-select-byte"), format!("SetPaConfig {:02x?}", pa.w)));
        }
        let (plo, phi) = if hp { (-9, 22) } else { (-17, 14) };
        if (param as i32) < plo || (param as i32) > phi {
            v.push((format!("C17|power|{chip}|tx-params-out-of-range"), format!("request {request}: SetTxParams power {param} outside {plo}..{phi}")));
        }
        // datasheet 13.1.14: below 400 MHz the low-power PA must not be driven with paDutyCycle above 0x04
        if !hp && hz < 400_000_000 && pa.w[1] > 0x04 {
            v.push((format!("C17|power|{chip}|pa-duty-cycle-above-the-sub-400mhz-limit"), format!("request {request} dBm at {hz} Hz: SetPaConfig {:02x?}", pa.w)));
        }
        let want = 10 * request.clamp(lo, hi);
        let dec = decode126(pa.w[1], pa.w[2], pa.w[3], param, chip == "stm32wl-hp");
        if dec.is_empty() {
            v.push((format!("C17|power|{chip}|pa-config-not-in-datasheet-table"), format!("SetPaConfig {:02x?}", pa.w)));
        } else if !dec.contains(&want) {
            let kind = if dec.iter().all(|d| *d > want) { "above-request" } else { "not-the-clamped-request" };
            v.push((format!("C17|power|{chip}|{kind}"), format!("request {request} dBm: PA {:02x?} + SetTxParams {param} decode to {:?} (tenths of dBm), expected {want}", &pa.w[1..4], dec)));
        }
        if hp {
            // TxClampCfg read-modify-write keeps the other bits
            let rd = log.iter().find(|t| t.w.len() >= 3 && t.w[0] == 0x1D && t.w[1] == 0x08 && t.w[2] == 0xD8).and_then(|t| t.r.first().copied());
            let wr = log.iter().find(|t| t.w.len() == 4 && t.w[0] == 0x0D && t.w[1] == 0x08 && t.w[2] == 0xD8).map(|t| t.w[3]);
            if let (Some(rd), Some(wr)) = (rd, wr)
                && wr != (rd | 0x1E)
            {
                v.push((format!("C17|power|{chip}|tx-clamp-bits-disturbed"), format!("read {rd:#x} wrote {wr:#x}")));
            }
        }
    } else {
        let sx1272 = chip.starts_with("sx1272");
        let boost = chip.ends_with("boost");
        let (Some(pac), Some(dac)) = (reg_write(&log, 0x09), reg_write(&log, if sx1272 { 0x5A } else { 0x4D })) else {
            return vec![(format!("C17|power|{chip}|not-programmed"), format!("{request}"))];
        };
        if dac != 0x84 && dac != 0x87 {
            v.push((format!("C17|power|{chip}|padac-reserved-bits"), format!("{dac:#x}")));
        }
        let op = (pac & 0x0F) as i32;
        let pa_boost = pac & 0x80 != 0;
        if pa_boost != boost {
            v.push((format!("C17|power|{chip}|wrong-pa-pin"), format!("RegPaConfig {pac:#x}")));
        }
        // tenths of dBm
        let dec: i32 = if pa_boost {
            if dac == 0x87 { 10 * (5 + op) } else { 10 * (2 + op) }
        } else if sx1272 {
            10 * (-1 + op)
        } else {
            let maxp = ((pac >> 4) & 7) as i32;
            108 + 6 * maxp - 10 * (15 - op)
        };
        if sx1272 && pac & 0x70 != 0 {
            v.push((format!("C17|power|{chip}|unused-bits-set"), format!("RegPaConfig {pac:#x}")));
        }
        // admissible chip ranges (datasheet): RFO -4..+14/15 (SX1276), -1..+14 (SX1272); PA_BOOST +2..+17, +20 with PaDac
        let ranges: Vec<(i32, i32)> = match (sx1272, boost) {
            (false, false) => vec![(-4, 14), (-4, 15)],
            (true, false) => vec![(-1, 14)],
            (_, true) => vec![(2, 20)],
        };
        let ok = ranges.iter().any(|(lo, hi)| {
            let want = 10 * request.clamp(*lo, *hi);
            dec <= want && dec > want - 10
        });
        if !ok {
            let above = ranges.iter().all(|(lo, hi)| dec > 10 * request.clamp(*lo, *hi));
            v.push((
                format!("C17|power|{chip}|{}", if above { "above-request" } else { "not-the-clamped-request" }),
                format!("request {request} dBm: RegPaConfig {pac:#x} RegPaDac {dac:#x} decode to {:.1} dBm", dec as f64 / 10.0),
            ));
        }
    }
    v
}

/// Two power requests in a row on the same chip: what an earlier request left in the PA registers (read-modify-write
/// sequences see it) must not change what the later one programs.
pub fn eval_power_seq(chip: &str, first: i32, second: i32, _hz: u32) -> Vec<(String, String)> {
    // one driver instance, no fault: after the second request (issued twice, which changes nothing) the chip holds what a
    // fresh driver programs for it - whose registers the single-request sweep decodes
    eval_power_retry(chip, first, second, 1_000_000)
        .1
        .into_iter()
        .map(|(sig, what)| (sig.replace("power-retry", "power-seq"), what))
        .collect()
}

/// (number of environment calls the faulted request would have made, verdict on the retried request)
pub fn eval_power_retry(chip: &str, first: i32, second: i32, fault: usize) -> (usize, Vec<(String, String)>) {
    use crate::chips::{Sx126xChip, Sx127xChip};
    let hz = 868_100_000u32;
    let env = if is126(chip) { Env::new(Box::new(Sx126xChip::new())) } else { Env::new(Box::new(Sx127xChip::new(chip.starts_with("sx1272")))) };
    // ONE driver instance for the three calls (what it remembers of a failed call is the subject)
    let r = catch(|| {
        with_chip!(chip, &env, |r| {
            let mp = r.create_modulation_params(lora_modulation::SpreadingFactor::_7, lora_modulation::Bandwidth::_125KHz, CodingRate::_4_5, hz).ok();
            let a = drive(r.set_tx_power_and_ramp_time(first, mp.as_ref(), true));
            if !matches!(a, Some(Ok(()))) {
                return None;
            }
            let p0 = env.0.borrow().pos;
            env.0.borrow_mut().fault_at = Some(p0 + fault);
            let _ = drive(r.set_tx_power_and_ramp_time(second, mp.as_ref(), true));
            let used = env.0.borrow().pos - p0;
            let hit = env.0.borrow().faulted.is_some();
            env.0.borrow_mut().fault_at = None;
            env.take_log();
            let c = drive(r.set_tx_power_and_ramp_time(second, mp.as_ref(), true));
            Some((used, hit, matches!(c, Some(Ok(())))))
        })
    });
    let (used, hit, ok) = match r {
        Err(p) => return (0, vec![(format!("C17|power-retry|{chip}|panic|{}", panic_site(&p)), p)]),
        Ok(None) => return (0, vec![]),
        Ok(Some(x)) => x,
    };
    if !ok {
        return (used, vec![]);
    }
    let _ = hit;
    // what the chip holds after the retry, decoded like a single request on a fresh register file
    let mut v = vec![];
    let want_env = if is126(chip) { Env::new(Box::new(Sx126xChip::new())) } else { Env::new(Box::new(Sx127xChip::new(chip.starts_with("sx1272")))) };
    let _ = eval_power_via(chip, second, hz, 0, &want_env);
    let same = if is126(chip) {
        let a = env.with_chip::<Sx126xChip, _>(|c| (c.pa_config, c.tx_params));
        let b = want_env.with_chip::<Sx126xChip, _>(|c| (c.pa_config, c.tx_params));
        if a != b { Some(format!("PA config / TX params {a:02x?}, a fresh driver programs {b:02x?}")) } else { None }
    } else {
        let dac = if chip.starts_with("sx1272") { 0x5A } else { 0x4D };
        let a = env.with_chip::<Sx127xChip, _>(|c| (c.regs[0x09], c.regs[dac]));
        let b = want_env.with_chip::<Sx127xChip, _>(|c| (c.regs[0x09], c.regs[dac]));
        if a != b { Some(format!("RegPaConfig / RegPaDac {a:02x?}, a fresh driver programs {b:02x?}")) } else { None }
    };
    if let Some(d) = same {
        v.push((
            format!("C17|power-retry|{chip}|retried-request-leaves-other-pa-settings"),
            format!("{chip}: {first} dBm, then {second} dBm with environment call {fault} failing, then {second} dBm again (Ok): {d}"),
        ));
    }
    (used, v)
}

/// Front-end operations of the frequency sequences (f1 = 868.1 MHz, f2 = 868.5 MHz).
pub const FREQ_OPS: [&str; 13] = [
    "prepare_for_tx(f1)", "prepare_for_tx(f2)", "prepare_for_rx(f1)", "prepare_for_rx(f2)", "start_rx", "rx_switch_channel(f1)", "rx_switch_channel(f2)",
    "listen(f1)", "listen(f2)", "sleep(warm)", "sleep(cold)", "init", "tx",
];

/// Whatever the driver object remembers from earlier calls, after a call that names a frequency the chip's synthesiser
/// word decodes to that frequency (same tolerance as for the single call).
pub fn eval_freq_seq(chip: &str, ops: &[u8]) -> Vec<(String, String)> {
    use crate::chips::{Sx126xChip, Sx127xChip};
    use lora_phy::{LoRa, RxMode};
    let is126 = chip == "sx1262";
    let env = if is126 { Env::new(Box::new(Sx126xChip::new())) } else { Env::new(Box::new(Sx127xChip::new(false))) };
    let e2 = env.clone();
    let (f1, f2) = (868_100_000u32, 868_500_000u32);
    let tuned = |e: &Env| -> u32 {
        if is126 {
            e.with_chip::<Sx126xChip, _>(|c| ((c.rf_freq_word as u64 * 32_000_000 + (1 << 24)) >> 25) as u32)
        } else {
            e.with_chip::<Sx127xChip, _>(|c| {
                let w = ((c.regs[0x06] as u64) << 16) | ((c.regs[0x07] as u64) << 8) | c.regs[0x08] as u64;
                ((w * 32_000_000 + (1 << 18)) >> 19) as u32
            })
        }
    };
    let ops_v = ops.to_vec();
    let chip_s = chip.to_string();
    let r = catch(move || -> Vec<(String, String)> {
        let mut v = vec![];
        macro_rules! go {
            ($rk:expr) => {{
                let Some(Ok(mut l)) = drive(LoRa::new($rk, true, e2.delay())) else { return v };
                let payload = [0x40u8, 1, 2, 3, 4, 5, 6, 7, 8, 9, 10, 11];
                for (i, &op) in ops_v.iter().enumerate() {
                    let f = match op {
                        0 | 2 | 5 | 7 => f1,
                        _ => f2,
                    };
                    let Ok(mp) = l.create_modulation_params(lora_modulation::SpreadingFactor::_7, lora_modulation::Bandwidth::_125KHz, CodingRate::_4_5, f) else { return v };
                    let Ok(mut txp) = l.create_tx_packet_params(8, false, true, false, &mp) else { return v };
                    let Ok(rxp) = l.create_rx_packet_params(8, false, 64, true, true, &mp) else { return v };
                    let res: Option<Result<(), lora_phy::mod_params::RadioError>> = match op {
                        0 | 1 => drive(l.prepare_for_tx(&mp, &mut txp, 14, &payload)),
                        2 | 3 => drive(l.prepare_for_rx(RxMode::Continuous, &mp, &rxp)),
                        4 => drive(l.start_rx()),
                        5 | 6 => drive(l.rx_switch_channel(f)),
                        7 | 8 => drive(l.listen(f, lora_modulation::Bandwidth::_125KHz)),
                        9 => drive(l.sleep(true)),
                        10 => drive(l.sleep(false)),
                        11 => drive(l.init()),
                        _ => drive(l.tx()),
                    };
                    // a call the driver refuses (wrong mode) or that cannot complete ends the sequence: nothing to judge
                    if !matches!(res, Some(Ok(()))) {
                        return v;
                    }
                    if matches!(op, 0..=3 | 5..=8) {
                        let got = tuned(&e2);
                        if (got as i64 - f as i64).abs() > 61 {
                            v.push((
                                format!("C17|freq-seq|{chip_s}|chip-not-tuned-to-the-requested-frequency|{}", FREQ_OPS[op as usize].split('(').next().unwrap_or("")),
                                format!("{chip_s}: after {:?} the chip is tuned to {got} Hz, step {i} ({}) asked for {f} Hz", ops_v.iter().map(|o| FREQ_OPS[*o as usize]).collect::<Vec<_>>(), FREQ_OPS[op as usize]),
                            ));
                            return v;
                        }
                    }
                }
                v
            }};
        }
        if is126 {
            go!(mk126(&e2, sx126x::Sx1262))
        } else {
            go!(mk127!(&e2, sx127x::Sx1276, false))
        }
    });
    match r {
        Ok(v) => v,
        Err(p) => vec![(format!("C17|freq-seq|{chip}|panic|{}", panic_site(&p)), p)],
    }
}

/// Front-end operations of the power sequences.
pub const POWER_OPS: [&str; 10] =
    ["prepare_for_tx(10)", "prepare_for_tx(14)", "prepare_for_tx(20)", "continuous_wave(14)", "continuous_wave(20)", "sleep(cold)", "sleep(warm)", "init", "enter_standby", "tx"];

fn pa_state(chip: &str, e: &Env) -> Vec<u8> {
    use crate::chips::{Sx126xChip, Sx127xChip};
    if is126(chip) {
        e.with_chip::<Sx126xChip, _>(|c| {
            let mut v = c.pa_config.to_vec();
            v.extend_from_slice(&c.tx_params);
            v
        })
    } else {
        let dac = if chip.starts_with("sx1272") { 0x5A } else { 0x4D };
        e.with_chip::<Sx127xChip, _>(|c| vec![c.regs[0x09], c.regs[dac]])
    }
}

/// Whatever the driver object (or the chip) remembers from earlier calls - other power levels, a continuous wave, sleeps,
/// a re-initialisation -, after prepare_for_tx(p) the PA registers hold what a fresh driver on a fresh chip programs for p
/// (which the single-request sweep decodes with the datasheet tables).
pub fn eval_power_front_seq(chip: &str, ops: &[u8]) -> Vec<(String, String)> {
    use crate::chips::{Sx126xChip, Sx127xChip};
    use lora_phy::LoRa;
    let hz = 868_100_000u32;
    let mk_env = || if is126(chip) { Env::new(Box::new(Sx126xChip::new())) } else { Env::new(Box::new(Sx127xChip::new(chip.starts_with("sx1272")))) };
    let env = mk_env();
    let power_of = |op: u8| match op {
        0 => 10,
        1 | 3 => 14,
        _ => 20,
    };
    // reference: one prepare_for_tx(p) on a fresh driver and chip
    let fresh = |p: i32| -> Option<Vec<u8>> {
        let e = mk_env();
        let ok = with_chip!(chip, &e, |r| {
            let Some(Ok(mut l)) = drive(LoRa::new(r, true, e.delay())) else { return None };
            let mp = l.create_modulation_params(lora_modulation::SpreadingFactor::_7, lora_modulation::Bandwidth::_125KHz, CodingRate::_4_5, hz).ok()?;
            let mut txp = l.create_tx_packet_params(8, false, true, false, &mp).ok()?;
            matches!(drive(l.prepare_for_tx(&mp, &mut txp, p, &[1, 2, 3])), Some(Ok(())))
        });
        if ok { Some(pa_state(chip, &e)) } else { None }
    };
    let r = catch(|| -> Vec<(String, String)> {
        let mut v = vec![];
        with_chip!(chip, &env, |r| {
            let Some(Ok(mut l)) = drive(LoRa::new(r, true, env.delay())) else { return v };
            let Ok(mp) = l.create_modulation_params(lora_modulation::SpreadingFactor::_7, lora_modulation::Bandwidth::_125KHz, CodingRate::_4_5, hz) else { return v };
            for (i, &op) in ops.iter().enumerate() {
                let Ok(mut txp) = l.create_tx_packet_params(8, false, true, false, &mp) else { return v };
                let res: Option<Result<(), lora_phy::mod_params::RadioError>> = match op {
                    0..=2 => drive(l.prepare_for_tx(&mp, &mut txp, power_of(op), &[1, 2, 3])),
                    3 | 4 => drive(l.continuous_wave(&mp, power_of(op))),
                    5 => drive(l.sleep(false)),
                    6 => drive(l.sleep(true)),
                    7 => drive(l.init()),
                    8 => drive(l.enter_standby()),
                    _ => drive(l.tx()),
                };
                if !matches!(res, Some(Ok(()))) {
                    return v;
                }
                if op <= 2 && i > 0 {
                    let got = pa_state(chip, &env);
                    if let Some(want) = fresh(power_of(op))
                        && got != want
                    {
                        v.push((
                            format!("C17|power-front-seq|{chip}|pa-registers-differ-from-a-fresh-request"),
                            format!("{chip}: after {:?} the PA registers are {got:02x?}; a fresh driver programs {want:02x?} for step {i} ({})", ops.iter().map(|o| POWER_OPS[*o as usize]).collect::<Vec<_>>(), POWER_OPS[op as usize]),
                        ));
                        return v;
                    }
                }
            }
            v
        })
    });
    match r {
        Ok(v) => v,
        Err(p) => vec![(format!("C17|power-front-seq|{chip}|panic|{}", panic_site(&p)), p)],
    }
}

// ---------------------------------------------------------------- (c) symbol timeout

pub fn eval_timeout(chip: &str, symbols: u16, env: &Env) -> Vec<(String, String)> {
    let r = catch(|| with_chip!(chip, env, |r| drive(r.do_rx(RxMode::Single(symbols)))));
    let log = env.take_log();
    match r {
        Err(p) => vec![(format!("C17|timeout|{chip}|panic|{}", panic_site(&p)), format!("{symbols} symbols: {p}"))],
        Ok(Some(Ok(()))) => {
            if is126(chip) {
                let Some(t) = log.iter().rev().find(|t| t.w.first() == Some(&0xA0) && t.w.len() == 2) else {
                    return vec![(format!("C17|timeout|sx126x|not-programmed"), format!("{symbols}"))];
                };
                let cmd = t.w[1] as u32;
                // register 0x0706: mantissa [7:3], exponent [2:0]: mant * 2^(2*exp+1)
                let reg = log.iter().rev().find(|t| t.w.len() == 4 && t.w[0] == 0x0D && t.w[1] == 0x07 && t.w[2] == 0x06).map(|t| t.w[3]);
                let eff = match reg {
                    Some(rg) => ((rg >> 3) as u32) << (2 * (rg & 7) as u32 + 1),
                    None => cmd,
                };
                let want = (symbols as u32).min(248);
                if eff < want || (symbols > 0 && reg.is_none()) || (symbols == 0 && cmd != 0) {
                    return vec![("C17|timeout|sx126x|shorter-than-requested".into(), format!("{symbols} symbols requested: command value {cmd}, register {reg:?} = {eff} symbols"))];
                }
            } else {
                let (Some(c2), Some(lsb)) = (reg_write(&log, 0x1E), reg_write(&log, 0x1F)) else {
                    return vec![("C17|timeout|sx127x|not-programmed".into(), format!("{symbols}"))];
                };
                let eff = (((c2 & 3) as u32) << 8) | lsb as u32;
                if eff < (symbols as u32).min(1023) {
                    return vec![("C17|timeout|sx127x|shorter-than-requested".into(), format!("{symbols} requested, {eff} programmed"))];
                }
            }
            vec![]
        }
        Ok(other) => vec![(format!("C17|timeout|{chip}|refused"), format!("{symbols}: {:?}", other.map(|x| x.err())))],
    }
}

// ---------------------------------------------------------------- (d) adapter ms -> symbols

pub fn eval_adapter(chip: &str, sf: usize, bw: usize, ms: u32) -> Vec<(String, String)> {
    use crate::chips::{Sx126xChip, Sx127xChip};
    let is = chip == "sx1262";
    let env = if is { Env::new(Box::new(Sx126xChip::new())) } else { Env::new(Box::new(Sx127xChip::new(false))) };
    let bb = BaseBandModulationParams::new(SFS[sf], BWS[bw], CodingRate::_4_5);
    let cfg = RxConfig { rf: RfConfig { frequency: 868_100_000, bb, max_payload_len: 250 }, mode: LwRxMode::Single { ms } };
    let r: Result<Option<Vec<Txn>>, String> = catch(|| {
        macro_rules! go {
            ($rk:expr, $p:literal) => {{
                let lora = drive(LoRa::new($rk, false, env.delay()))?.ok()?;
                let mut a: LorawanRadio<_, _, $p> = lora.into();
                drive(a.setup_rx(cfg))?.ok()?;
                env.take_log();
                let mut buf = [0u8; 255];
                let _ = drive(a.rx_single(&mut buf));
                Some(env.take_log())
            }};
        }
        if is { go!(mk126(&env, sx126x::Sx1262), 22) } else { go!(mk127!(&env, sx127x::Sx1276, false), 14) }
    });
    let log = match r {
        Err(p) => return vec![(format!("C17|adapter|{chip}|panic|{}", panic_site(&p)), format!("SF{} BW{} margin {ms} ms: {p}", SFS[sf].factor(), BWS[bw].hz()))],
        Ok(None) => return vec![], // the chip does not support this pair
        Ok(Some(l)) => l,
    };
    let (eff, max): (u64, u64) = if is {
        let reg = log.iter().rev().find(|t| t.w.len() == 4 && t.w[0] == 0x0D && t.w[1] == 0x07 && t.w[2] == 0x06).map(|t| t.w[3]);
        match reg {
            Some(rg) => ((((rg >> 3) as u64) << (2 * (rg & 7) as u64 + 1)), 248),
            None => return vec![("C17|adapter|sx126x|timeout-not-programmed".into(), format!("margin {ms}"))],
        }
    } else {
        match (reg_write(&log, 0x1E), reg_write(&log, 0x1F)) {
            (Some(c2), Some(l)) => (((((c2 & 3) as u64) << 8) | l as u64), 1023),
            _ => return vec![("C17|adapter|sx127x|timeout-not-programmed".into(), format!("margin {ms}"))],
        }
    };
    // programmed symbols * T_sym >= 12.25 T_sym + margin, in exact rational arithmetic:
    // eff * 2^sf/bw >= 12.25 * 2^sf/bw + ms/1000  <=>  4*eff*2^sf*1000 >= 49*2^sf*1000 + 4*ms*bw
    let sfv = SFS[sf].factor() as u128;
    let bwv = BWS[bw].hz() as u128;
    let lhs = 4 * eff as u128 * (1u128 << sfv) * 1000;
    let rhs = 49 * (1u128 << sfv) * 1000 + 4 * ms as u128 * bwv;
    if lhs < rhs && eff < max {
        let short = (rhs - lhs) as f64 / (4.0 * (1u128 << sfv) as f64 * 1000.0);
        return vec![(
            format!("C17|adapter|{chip}|window-shorter-than-preamble-plus-margin"),
            format!("SF{} BW{} margin {ms} ms: {eff} symbols programmed, {short:.2} symbols short of 12.25 symbols + margin", sfv, bwv),
        )];
    }
    vec![]
}

// ---------------------------------------------------------------- (e) packet status

pub fn eval_status126(raw: [u8; 3], env: &Env, cell: &Rc<Cell<[u8; 3]>>) -> Vec<(String, String)> {
    cell.set(raw);
    let r = catch(|| {
        let mut rk = mk126(env, sx126x::Sx1262);
        drive(rk.get_rx_packet_status())
    });
    env.take_log();
    match r {
        Err(p) => vec![(format!("C17|status|sx126x|panic|{}", panic_site(&p)), format!("raw {raw:02x?}: {p}"))],
        Ok(Some(Ok(ps))) => {
            // datasheet: RssiPkt = -raw/2 dBm, SnrPkt = signed raw / 4 dB
            let rssi10 = -(raw[0] as i32) * 5;
            let snr100 = (raw[1] as i8 as i32) * 25;
            let mut v = vec![];
            if (ps.rssi as i32 * 10 - rssi10).abs() > 10 {
                v.push(("C17|status|sx126x|rssi".into(), format!("raw {raw:02x?}: reported {} dBm, datasheet {:.1}", ps.rssi, rssi10 as f64 / 10.0)));
            }
            if (ps.snr as i32 * 100 - snr100).abs() > 100 {
                v.push(("C17|status|sx126x|snr".into(), format!("raw {raw:02x?}: reported {} dB, datasheet {:.2}", ps.snr, snr100 as f64 / 100.0)));
            }
            v
        }
        Ok(other) => vec![("C17|status|sx126x|refused".into(), format!("{:?}", other.map(|x| x.err())))],
    }
}

pub fn eval_status127(sx1272: bool, snr: u8, rssi: u8, hf: bool) -> Vec<(String, String)> {
    eval_status127_at(sx1272, snr, rssi, if hf { 0xD9_0000 } else { 0x6C_8000 }) // 868 MHz / 434 MHz
}

/// `frf`: the 24-bit RegFrf value the chip holds while the status is read. The SX1276's RSSI offset is
/// -157 dBm on the HF port and -164 dBm on the LF port; Semtech's driver (and the datasheet's band table)
/// draw the line at 525 MHz.
pub fn eval_status127_at(sx1272: bool, snr: u8, rssi: u8, frf: u32) -> Vec<(String, String)> {
    let hf = (frf as u64 * 32_000_000) >> 19 > 525_000_000;
    let env = passive(move |w, n| {
        let a = w.first().copied().unwrap_or(0) & 0x7F;
        let v = match a {
            0x19 => snr,
            0x1A => rssi,
            0x06 => (frf >> 16) as u8,
            0x07 => (frf >> 8) as u8,
            0x08 => frf as u8,
            _ => 0,
        };
        vec![v; n]
    });
    let r = catch(|| {
        if sx1272 {
            let mut rk = mk127!(&env, sx127x::Sx1272, false);
            drive(rk.get_rx_packet_status())
        } else {
            let mut rk = mk127!(&env, sx127x::Sx1276, false);
            drive(rk.get_rx_packet_status())
        }
    });
    let name = if sx1272 { "sx1272" } else { "sx1276" };
    match r {
        Err(p) => vec![(format!("C17|status|{name}|panic|{}", panic_site(&p)), format!("snr {snr:#x} rssi {rssi:#x}: {p}"))],
        Ok(Some(Ok(ps))) => {
            let off: f64 = if sx1272 { -139.0 } else if hf { -157.0 } else { -164.0 };
            let s = snr as i8 as f64 / 4.0;
            // datasheet §5.5.5 and Semtech's reference driver differ for negative SNR: either is admissible
            let cands: Vec<f64> = if s >= 0.0 { vec![off + rssi as f64 * 16.0 / 15.0] } else { vec![off + rssi as f64 + s, off + rssi as f64 * 16.0 / 15.0 + s] };
            let mut v = vec![];
            if (ps.snr as f64 - s).abs() > 1.0 {
                v.push((format!("C17|status|{name}|snr"), format!("raw {snr:#x}: reported {} dB, datasheet {s:.2}", ps.snr)));
            }
            // for negative SNR the value is the sum of two separately rounded terms: 1 dB each
            let tol = if s >= 0.0 { 1.0 } else { 2.0 };
            if !cands.iter().any(|c| (ps.rssi as f64 - c).abs() <= tol) {
                v.push((format!("C17|status|{name}|rssi"), format!("snr {snr:#x} rssi {rssi:#x} carrier {} Hz ({}): reported {} dBm, datasheet {:?}", (frf as u64 * 32_000_000) >> 19, if hf { "HF port" } else { "LF port" }, ps.rssi, cands)));
            }
            v
        }
        Ok(other) => vec![(format!("C17|status|{name}|refused"), format!("{:?}", other.map(|x| x.err())))],
    }
}

pub fn eval(c: &Case) -> Vec<(String, String)> {
    let env = passive(|_w, n| vec![0; n]);
    match c {
        Case::Freq { chip, hz } => eval_freq(chip, *hz, &env),
        Case::Power { chip, request, hz, via } => {
            if *via != 0 {
                let env = passive(|_w, n| vec![0; n]);
                return eval_power_via(chip, *request, *hz, *via, &env);
            }
            eval_power_via(chip, *request, *hz, *via, &env)
        }
        Case::PowerSeq { chip, first, second, hz } => eval_power_seq(chip, *first, *second, *hz),
        Case::PowerRetry { chip, first, second, fault } => eval_power_retry(chip, *first, *second, *fault).1,
        Case::FreqSeq { chip, ops } => eval_freq_seq(chip, ops),
        Case::PowerFrontSeq { chip, ops } => eval_power_front_seq(chip, ops),
        Case::Timeout { chip, symbols } => eval_timeout(chip, *symbols, &env),
        Case::Adapter { chip, sf, bw, ms } => eval_adapter(chip, *sf, *bw, *ms),
        Case::Status126 { raw } => {
            let cell = Rc::new(Cell::new([0u8; 3]));
            let c2 = cell.clone();
            let env = passive(move |w, n| {
                let r = c2.get();
                if w.first() == Some(&0x14) {
                    let mut v = vec![0x24, r[0], r[1], r[2]];
                    v.resize(n, 0);
                    v
                } else {
                    vec![0; n]
                }
            });
            eval_status126(*raw, &env, &cell)
        }
        Case::Status127 { sx1272, snr, rssi, hf } => eval_status127(*sx1272, *snr, *rssi, *hf),
        Case::Status127At { sx1272, snr, rssi, frf } => eval_status127_at(*sx1272, *snr, *rssi, *frf),
    }
}

pub fn run(tier: Tier, replay: Option<&str>) {
    if let Some(path) = replay {
        let c: Case = serde_json::from_value(load_case(path)).expect("case");
        replay_exit("C17", path, eval(&c).into_iter().map(|x| x.0).collect());
    }
    let ctx = Ctx::new("C17", tier);
    let th = tier.thorough();
    let nontrivial = AtomicU64::new(0);
    let rec = |c: Case, v: Vec<(String, String)>| {
        for (sig, what) in v {
            ctx.violation(sig, what, serde_json::to_value(&c).unwrap(), 0);
        }
    };
    // (a) frequency: every 100 Hz of the LoRaWAN bands + 1 kHz stride over 137..1020 MHz; thorough: every 1 Hz
    let bands: [(u32, u32); 5] = [(433_050_000, 434_790_000), (863_000_000, 870_000_000), (865_000_000, 867_000_000), (902_000_000, 928_000_000), (915_000_000, 928_000_000)];
    let mut chunks: Vec<(u32, u32, u32)> = vec![];
    if th {
        let mut f = 137_000_000u32;
        while f < 1_020_000_000 {
            let e = (f + 2_000_000).min(1_020_000_000);
            chunks.push((f, e, 1));
            f = e;
        }
    } else {
        for (lo, hi) in bands {
            chunks.push((lo, hi + 1, 100));
        }
        let mut f = 137_000_000u32;
        while f < 1_020_000_000 {
            let e = (f + 20_000_000).min(1_020_000_001);
            chunks.push((f, e, 1000));
            f = e;
        }
    }
    for chip in ["sx1262", "sx1276-rfo"] {
        chunks.par_iter().for_each(|&(lo, hi, step)| {
            let env = passive(|_w, n| vec![0; n]);
            let mut n = 0u64;
            let mut f = lo;
            while f < hi {
                let v = eval_freq(chip, f, &env);
                if !v.is_empty() {
                    rec(Case::Freq { chip: chip.into(), hz: f }, v);
                }
                n += 1;
                f += step;
            }
            ctx.tick(n);
            nontrivial.fetch_add(n, Ordering::Relaxed);
        });
    }
    // (b) power
    let chips = ["sx1261", "sx1262", "stm32wl-lp", "stm32wl-hp", "sx1276-rfo", "sx1276-boost", "sx1272-rfo", "sx1272-boost", "board-hp20", "board-hp17", "board-lp14"];
    for chip in chips {
        let env = passive(|w, n| if w.first() == Some(&0x1D) { vec![0xC8; n] } else { vec![0; n] });
        let mut reqs: Vec<i32> = (-128..=127).collect();
        reqs.extend([i32::MIN, i32::MAX, 1000, -1000]);
        for hz in [868_100_000u32, 434_000_000, 169_000_000] {
            for &rq in &reqs {
                let v = eval_power(chip, rq, hz, &env);
                rec(Case::Power { chip: chip.into(), request: rq, hz, via: 0 }, v);
                ctx.tick(1);
                nontrivial.fetch_add(1, Ordering::Relaxed);
                // the same request through the LoRa front-end's two call sites
                // (SX126x: SetPaConfig / SetTxParams are commands of their own, so the log of the whole call decodes
                // unambiguously)
                if (-20..=30).contains(&rq) && is126(chip) {
                    for via in [1u8, 2] {
                        let env = passive(|_w, n| vec![0; n]);
                        let v = eval_power_via(chip, rq, hz, via, &env);
                        rec(Case::Power { chip: chip.into(), request: rq, hz, via }, v);
                        ctx.tick(1);
                    }
                }
            }
        }
    }
    // (b2) two requests in a row on one chip
    for chip in chips {
        for first in [-128i32, -5, -4, -1, 0, 2, 10, 14, 15, 17, 18, 20, 22, 127] {
            for second in -10..=25i32 {
                let v = eval_power_seq(chip, first, second, 868_100_000);
                rec(Case::PowerSeq { chip: chip.into(), first, second, hz: 868_100_000 }, v);
                ctx.tick(1);
                nontrivial.fetch_add(1, Ordering::Relaxed);
            }
        }
    }
    // (b3) a request that fails at one environment call, retried on the same driver instance
    for chip in chips {
        for first in [0i32, 14, 22] {
            for second in [-9i32, 0, 10, 14, 15, 17, 20, 22] {
                if first == second {
                    continue;
                }
                let (used, _) = eval_power_retry(chip, first, second, 1_000_000);
                for fault in 0..used {
                    let (_, v) = eval_power_retry(chip, first, second, fault);
                    rec(Case::PowerRetry { chip: chip.into(), first, second, fault }, v);
                    ctx.tick(1);
                    nontrivial.fetch_add(1, Ordering::Relaxed);
                }
            }
        }
    }
    // (a2) sequences of front-end calls on one driver instance: the chip follows every frequency that is named
    {
        let n = FREQ_OPS.len() as u32;
        let depth = 4u32;
        for chip in ["sx1262", "sx1276-rfo"] {
            let total = n.pow(depth);
            let found: Vec<(Vec<u8>, Vec<(String, String)>)> = (0..total)
                .into_par_iter()
                .filter_map(|k| {
                    let ops: Vec<u8> = (0..depth).map(|i| ((k / n.pow(i)) % n) as u8).collect();
                    // (sequences that name no frequency after their first step have nothing to compare)
                    let v = eval_freq_seq(chip, &ops);
                    if v.is_empty() { None } else { Some((ops, v)) }
                })
                .collect();
            ctx.tick(total as u64);
            nontrivial.fetch_add(total as u64, Ordering::Relaxed);
            for (ops, v) in found {
                rec(Case::FreqSeq { chip: chip.into(), ops }, v);
            }
        }
    }
    // (b3) power requests through the front-end in sequences of up to four calls on one driver instance
    {
        let n = POWER_OPS.len() as u32;
        for chip in ["sx1261", "sx1262", "stm32wl-lp", "stm32wl-hp", "sx1276-rfo", "sx1276-boost", "sx1272-rfo", "sx1272-boost"] {
            for depth in [2u32, 3, 4] {
                let total = n.pow(depth);
                let found: Vec<(Vec<u8>, Vec<(String, String)>)> = (0..total)
                    .into_par_iter()
                    .filter_map(|k| {
                        let ops: Vec<u8> = (0..depth).map(|i| ((k / n.pow(i)) % n) as u8).collect();
                        // judged steps are prepare_for_tx after the first step; the last step is one of them
                        if *ops.last().unwrap() > 2 {
                            return None;
                        }
                        // (the SX1272 variant has no continuous-wave mode: `todo!()` in the driver, outside this property)
                        if chip.starts_with("sx1272") && ops.iter().any(|o| *o == 3 || *o == 4) {
                            return None;
                        }
                        let v = eval_power_front_seq(chip, &ops);
                        if v.is_empty() { None } else { Some((ops, v)) }
                    })
                    .collect();
                ctx.tick(total as u64 * 3 / 10);
                nontrivial.fetch_add(total as u64 * 3 / 10, Ordering::Relaxed);
                for (ops, v) in found {
                    rec(Case::PowerFrontSeq { chip: chip.into(), ops }, v);
                }
            }
        }
    }
    // (c) symbol timeouts 0..=65535
    for chip in ["sx1262", "sx1276-rfo", "sx1272-rfo"] {
        (0..32u32).into_par_iter().for_each(|blk| {
            let env = passive(|_w, n| vec![0; n]);
            for s in (blk * 2048)..((blk + 1) * 2048) {
                let v = eval_timeout(chip, s as u16, &env);
                if !v.is_empty() {
                    rec(Case::Timeout { chip: chip.into(), symbols: s as u16 }, v);
                }
            }
            ctx.tick(2048);
            nontrivial.fetch_add(2048, Ordering::Relaxed);
        });
    }
    // (d) adapter: every (SF, BW) x margin 0..=1000 ms
    let mut combos = vec![];
    for chip in ["sx1262", "sx1276"] {
        for sf in 0..8 {
            for bw in 0..10 {
                combos.push((chip, sf, bw));
            }
        }
    }
    combos.par_iter().for_each(|&(chip, sf, bw)| {
        let step = if th { 1 } else { 7 };
        let mut ms = 0u32;
        let mut n = 0;
        while ms <= 1000 {
            let v = eval_adapter(chip, sf, bw, ms);
            if !v.is_empty() {
                rec(Case::Adapter { chip: chip.into(), sf, bw, ms }, v);
            }
            ms += step;
            n += 1;
        }
        ctx.tick(n);
        nontrivial.fetch_add(n, Ordering::Relaxed);
    });
    // (e2) SX127x packet RSSI over the carrier frequency: both sides of every band edge, the LoRaWAN bands in
    // between (CN779, 433, 470), one PLL step around the 525 MHz line
    let mut carriers: Vec<u64> = vec![137_000_000, 175_000_000, 410_000_000, 433_175_000, 470_300_000, 510_000_000, 524_999_000, 526_000_000, 600_000_000, 779_500_000, 786_500_000, 861_900_000, 862_000_000, 863_000_000, 868_100_000, 902_300_000, 915_000_000, 923_200_000, 1_020_000_000];
    let frf525 = ((525_000_000u64 << 19) / 32_000_000) as u32;
    let mut frfs: Vec<u32> = carriers.drain(..).map(|f| ((f << 19) / 32_000_000) as u32).collect();
    frfs.extend(frf525 - 2..=frf525 + 2);
    for &frf in &frfs {
        for sx1272 in [false, true] {
            for snr in [0x20u8, 0x00, 0xF0] {
                for rssi in [0u8, 0x31, 0x80, 0xFF] {
                    let v = eval_status127_at(sx1272, snr, rssi, frf);
                    if !v.is_empty() {
                        rec(Case::Status127At { sx1272, snr, rssi, frf }, v);
                    }
                }
            }
        }
    }
    ctx.tick(frfs.len() as u64 * 24);
    nontrivial.fetch_add(frfs.len() as u64 * 24, Ordering::Relaxed);
    // (e) packet status
    let r2s: Vec<u8> = if th { (0..=255).collect() } else { vec![0, 0x80, 0xFF] };
    (0..=255u32).into_par_iter().for_each(|r0| {
        let cell = Rc::new(Cell::new([0u8; 3]));
        let c2 = cell.clone();
        let env = passive(move |w, n| {
            let r = c2.get();
            if w.first() == Some(&0x14) {
                let mut v = vec![0x24, r[0], r[1], r[2]];
                v.resize(n, 0);
                v
            } else {
                vec![0; n]
            }
        });
        let mut n = 0u64;
        for r1 in 0..=255u8 {
            for &r2 in &r2s {
                let raw = [r0 as u8, r1, r2];
                let v = eval_status126(raw, &env, &cell);
                if !v.is_empty() {
                    rec(Case::Status126 { raw }, v);
                }
                n += 1;
            }
            for sx1272 in [false, true] {
                for hf in [false, true] {
                    let v = eval_status127(sx1272, r1, r0 as u8, hf);
                    if !v.is_empty() {
                        rec(Case::Status127 { sx1272, snr: r1, rssi: r0 as u8, hf }, v);
                    }
                    n += 1;
                }
            }
        }
        ctx.tick(n);
        nontrivial.fetch_add(n, Ordering::Relaxed);
    });
    let coverage = json!({
        "evaluations": ctx.evals(),
        "distinct_nontrivial": nontrivial.load(Ordering::Relaxed),
        "rule": "(a) set_channel on SX126x and SX127x for every 100 Hz of the LoRaWAN bands plus a 1 kHz stride over 137-1020 MHz (thorough: every 1 Hz of 137-1020 MHz), PLL word decoded with the datasheet formula; every sequence of four front-end calls over {prepare_for_tx / prepare_for_rx / rx_switch_channel / listen on two frequencies, start_rx, sleep warm / cold, init, tx} on one driver instance (SX1262, SX1276 chip models): after every call that names a frequency the chip is tuned to it; (b) set_tx_power_and_ramp_time for every request -128..127 and i32 extremes x {SX1261, SX1262, STM32WL LP/HP, SX1276 RFO/BOOST, SX1272 RFO/BOOST, and three SX126x boards that supply their own PA table through Sx126xVariant::pa_table with a top row of +20 / +17 dBm (high-power PA) and +14 dBm (low-power PA): the top row is the ceiling} x 3 bands, PA registers decoded with the datasheet tables, and (SX126x) requests -20..30 also through LoRa::prepare_for_tx and LoRa::continuous_wave; pairs of requests in a row on one register-file chip model (14 first x 36 second values per chip), the second one decoded; a request during which one environment call (SPI transfer / BUSY wait / RF switch, every position) fails, retried on the same driver instance: the chip then holds what a fresh driver programs; every sequence of two to four front-end calls over {prepare_for_tx at 10 / 14 / 20 dBm, continuous_wave at 14 / 20 dBm, sleep cold / warm, init, enter_standby, tx} ending in a prepare_for_tx, on one driver instance and chip model of all eight variants: the PA registers then hold what a fresh driver programs for that request; (c) every symbol timeout 0..65535 through do_rx, decoded mantissa/exponent (SX126x) or 10-bit value (SX127x); (d) every (SF,BW) x margin 0..1000 ms through LorawanRadio::setup_rx + rx_single; (e) every raw SX126x (RssiPkt, SnrPkt[, SignalRssi]) value and every SX127x (SNR, RSSI, band, chip) register value through get_rx_packet_status, and the SX127x conversion over carrier frequencies on both sides of every band edge and of the 525 MHz LF/HF line. Every tuple is a distinct input",
        "samples": [
            serde_json::to_value(Case::Freq { chip: "sx1262".into(), hz: 868_100_000 }).unwrap(),
            serde_json::to_value(Case::Power { chip: "sx1276-boost".into(), request: 20, hz: 868_100_000, via: 0 }).unwrap(),
            serde_json::to_value(Case::Adapter { chip: "sx1262".into(), sf: 7, bw: 7, ms: 50 }).unwrap(),
            serde_json::to_value(Case::Status126 { raw: [0x50, 0x7F, 0] }).unwrap(),
        ],
        "exhaustive": true,
    });
    let replayer = |cj: &Value| -> Vec<String> {
        let c: Case = serde_json::from_value(cj.clone()).unwrap();
        eval(&c).into_iter().map(|x| x.0).collect()
    };
    ctx.finish(
        "exploration",
        coverage,
        vec![
            "datasheet decode formulas: SX126x RF frequency word f*2^25/32e6, PA table 13-21 (ST's characterisation admitted for the STM32WL 14 dBm row), SetLoRaSymbNumTimeout mantissa/exponent; SX127x Frf = f*2^19/32e6, Pout formulas of RegPaConfig/RegPaDac, 10-bit SymbTimeout; RSSI/SNR conversions of both datasheets (for negative SNR on SX127x both the datasheet and the reference-driver formula are admitted)".into(),
            "SX127x RFO upper range: +14 or +15 dBm both admitted; SX127x packet RSSI at negative SNR is the sum of two separately rounded terms and is allowed 2 dB".into(),
        ],
        Some(&replayer),
    );
}
