//! C11 — OTAA join establishes exactly the session the JoinAccept defines.
//! (A) value sweep: every JoinAccept content from several pre-histories, both front-ends;
//! (B) BFS over join histories (valid / invalid / replayed accepts, RX1 / RX2 / none, re-joins).
use crate::adev::*;
use crate::checks::{load_case, replay_exit};
use crate::cmds::{self, JaSpec};
use crate::ctx::{Ctx, Tier, hex, panic_site};
use crate::dev::*;
use crate::explore::{self, System, V};
use crate::refcodec;
use crate::refregion as rr;
use lorawan_device::verif::{VerifMac, VerifMacState};
use rayon::prelude::*;
use serde::{Deserialize, Serialize};
use serde_json::{Value, json};
use std::sync::atomic::{AtomicU64, Ordering};

/// What the join must have done to the MAC configuration, judged on snapshots.
pub fn judge_applied(region: &str, before: &VerifMac, after: &VerifMac, d: &refcodec::JoinAcceptDesc) -> Vec<V> {
    let mut out = vec![];
    // RX delay: always valid
    let del = d.rx_delay & 0x0f;
    let want_delay = if (2..=15).contains(&del) { del as u32 * 1000 } else { 1000 };
    if after.rx1_delay != want_delay {
        out.push(V { sig: "C11|rx-delay-not-applied".into(), what: format!("RxDelay {del}: rx1 delay after join {} ms, expected {want_delay}", after.rx1_delay) });
    }
    // RX1 DR offset
    let off = (d.dl_settings >> 4) & 7;
    let want_off = if off <= rr::max_rx1_offset(region) { off } else { before.rx1_dr_offset };
    if after.rx1_dr_offset != want_off {
        let k = if off <= rr::max_rx1_offset(region) { "valid-offset-not-applied" } else { "invalid-offset-applied" };
        out.push(V { sig: format!("C11|rx1-dr-offset|{k}"), what: format!("{region}: RX1DROffset {off}: after join {}, expected {want_off}", after.rx1_dr_offset) });
    }
    // RX2 data rate
    let r2 = d.dl_settings & 0x0f;
    match rr::dr(region, r2) {
        None => {
            if after.rx2_data_rate != before.rx2_data_rate {
                out.push(V { sig: "C11|rx2-datarate|undefined-rate-applied".into(), what: format!("{region}: RX2 DR {r2} is not a LoRa rate of the region but was applied ({:?})", after.rx2_data_rate) });
            }
        }
        Some(_) => {
            // defined by the region; the stack may not implement it (then it is ignored)
            if after.rx2_data_rate != Some(r2) && after.rx2_data_rate != before.rx2_data_rate {
                out.push(V { sig: "C11|rx2-datarate|wrong-value".into(), what: format!("{region}: RX2 DR {r2}: after join {:?}", after.rx2_data_rate) });
            }
            let implemented = !(region == "EU868" && r2 == 6);
            if implemented && after.rx2_data_rate != Some(r2) {
                out.push(V { sig: "C11|rx2-datarate|valid-rate-not-applied".into(), what: format!("{region}: RX2 DR {r2}: after join {:?}", after.rx2_data_rate) });
            }
        }
    }
    // CFList
    let fixed = rr::is_fixed(region);
    match &d.cflist {
        None => {
            if after.region.channels != before.region.channels || after.region.channel_mask != before.region.channel_mask {
                out.push(V { sig: "C11|cflist|plan-changed-without-cflist".into(), what: format!("{region}") });
            }
        }
        Some(cf) => {
            let ty = cf[15];
            if !fixed && ty == 0 {
                let nj = rr::default_channels(region).len();
                let (lo, hi) = rr::band(region);
                for k in 0..5 {
                    let f = u32::from_le_bytes([cf[3 * k], cf[3 * k + 1], cf[3 * k + 2], 0]) * 100;
                    let got = after.region.channels[nj + k].map(|c| c.frequency);
                    let prev = before.region.channels[nj + k].map(|c| c.frequency);
                    // a channel the CFList defines belongs to the new session: it has no downlink frequency of its own
                    // (what a DlChannelReq of the previous session negotiated is gone with that session)
                    if f != 0 && f >= lo && f <= hi
                        && let Some(ch) = after.region.channels[nj + k]
                        && ch.frequency == f
                        && let Some(dlf) = ch.dl_frequency
                        && dlf != f
                    {
                        out.push(V { sig: "C11|cflist|channel-keeps-downlink-frequency-of-previous-session".into(), what: format!("{region}: CFList entry {k} = {f} Hz: channel {} after the join has RX1 frequency {dlf} Hz", nj + k) });
                    }
                    let ok = if f == 0 {
                        got.is_none()
                    } else if f >= lo && f <= hi {
                        got == Some(f)
                    } else {
                        // out of band: ignored, i.e. the slot keeps whatever it held before
                        got == prev
                    };
                    if !ok {
                        let k2 = if f == 0 { "zero-not-removed" } else if f >= lo && f <= hi { "valid-frequency-not-applied" } else { "invalid-frequency-not-ignored" };
                        out.push(V { sig: format!("C11|cflist|{k2}"), what: format!("{region}: CFList entry {k} = {f} Hz, channel {} after join: {got:?}", nj + k) });
                    }
                }
                // default channels are never touched
                for i in 0..nj {
                    if after.region.channels[i] != before.region.channels[i] {
                        out.push(V { sig: "C11|cflist|default-channel-changed".into(), what: format!("{region}: channel {i}") });
                    }
                }
            } else if fixed && ty == 1 {
                if after.region.channel_mask[..] != cf[..9] {
                    out.push(V { sig: "C11|cflist|mask-not-applied".into(), what: format!("{region}: CFList mask {} , mask after join {}", hex(&cf[..9]), hex(&after.region.channel_mask)) });
                }
            } else if after.region.channels != before.region.channels || after.region.channel_mask != before.region.channel_mask {
                out.push(V { sig: "C11|cflist|foreign-or-rfu-type-applied".into(), what: format!("{region}: CFList type {ty}") });
            }
        }
    }
    out
}

/// Judges the outcome of one join transaction.
#[allow(clippy::too_many_arguments)]
pub fn judge_join(
    region: &str,
    front: &str,
    before: &VerifMac,
    after: &VerifMac,
    tx: Option<&[u8]>,
    dev_nonce: u16,
    accepted: Option<&Judge>,
    joined_resp: Option<bool>,
    creds_set: u8,
) -> Vec<V> {
    let mut out = vec![];
    // the JoinRequest on the air
    match tx {
        None => out.push(V { sig: format!("C11|{front}|no-joinrequest"), what: "nothing transmitted".into() }),
        Some(b) => {
            let (deveui, appeui, appkey) = creds(creds_set);
            let want = refcodec::encode_join_request(&appeui, &deveui, dev_nonce, &appkey);
            if b != &want[..] {
                let i = b.iter().zip(want.iter()).position(|(x, y)| x != y).unwrap_or(0);
                let f = match i {
                    0 => "mhdr",
                    1..=8 => "joineui",
                    9..=16 => "deveui",
                    17..=18 => "devnonce",
                    _ => "mic",
                };
                out.push(V { sig: format!("C11|joinrequest|{f}"), what: format!("sent {} expected {}", hex(b), hex(&want)) });
            }
        }
    }
    let is_joined = matches!(after.state, VerifMacState::Joined(_));
    match accepted {
        Some(Judge::JoinAccept { nwk, app, devaddr, desc }) => {
            if joined_resp != Some(true) || !is_joined {
                out.push(V { sig: format!("C11|{front}|valid-accept-not-joined"), what: format!("response joined={joined_resp:?}, state joined={is_joined}") });
                return out;
            }
            if let VerifMacState::Joined(s) = after.state {
                if s.nwkskey != *nwk || s.appskey != *app {
                    out.push(V { sig: "C11|session-keys".into(), what: format!("nwk {} app {}, derivation gives {} {}", hex(&s.nwkskey), hex(&s.appskey), hex(nwk), hex(app)) });
                }
                if s.devaddr != *devaddr {
                    out.push(V { sig: "C11|devaddr".into(), what: format!("{:#x} vs assigned {:#x}", s.devaddr, devaddr) });
                }
                if s.fcnt_up != 0 || s.fcnt_down.is_some() || s.adr_ack_cnt != 0 || s.pending_len != 0 || s.owed_ack {
                    out.push(V { sig: "C11|counters-not-restarted".into(), what: format!("{s:?}") });
                }
            }
            out.extend(judge_applied(region, before, after, desc));
        }
        _ => {
            if joined_resp == Some(true) {
                out.push(V { sig: format!("C11|{front}|joined-without-valid-accept"), what: format!("{:?}", accepted) });
            }
            // no valid accept: the device must not be joined with a *new* session
            if is_joined {
                out.push(V { sig: format!("C11|{front}|session-without-valid-accept"), what: format!("{:?}", after.state) });
            }
            // and the configuration is untouched
            let mut a = *after;
            let mut b = *before;
            a.state = VerifMacState::Unjoined;
            b.state = VerifMacState::Unjoined;
            // fixed plans advance their join-channel walker on every attempt: not part of the configuration
            a.region.join = None;
            b.region.join = None;
            if a != b {
                out.push(V { sig: format!("C11|{front}|failed-join-changed-configuration"), what: format!("fields {}", crate::checks::c07::diff_fields(before, after)) });
            }
        }
    }
    out
}

#[derive(Clone, Debug, Serialize, Deserialize, PartialEq, Eq, Hash)]
pub enum JEv {
    /// join attempt; `outcome`: 0 none, 1 valid RX1, 2 valid RX2, 3 bad MIC, 4 wrong key, 5 wrong length,
    /// 6 replay of the accept of an earlier attempt, 7 data frame instead, 8 valid after a bad one in the same window
    Join { outcome: u8, nonce: u32, spec: u8 },
    Up,
    /// the application configures the other credential set (identifiers and root key) for its next join
    SwitchCreds,
    /// same identifiers, another AppKey
    SwitchKeyOnly,
    /// `n` join attempts in a row that nobody answers (only in the straight-line part)
    Silent { n: u32 },
}

fn spec_of(region: &str, k: u8) -> JaSpec {
    let all = cmds::join_accepts(region, false);
    match k {
        0 => JaSpec { dl_settings: 0, rx_delay: 1, cflist: None },
        1 => all.iter().find(|j| j.cflist.as_ref().map(|c| c[15] == if rr::is_fixed(region) { 1 } else { 0 } && c[..9] != [0; 9]).unwrap_or(false)).cloned().unwrap(),
        2 => JaSpec { dl_settings: 0x12, rx_delay: 5, cflist: None },
        _ => JaSpec { dl_settings: 0x7F, rx_delay: 15, cflist: all.iter().rev().find(|j| j.cflist.is_some()).unwrap().cflist.clone() },
    }
}

fn ja_frame(spec: &JaSpec, nonce: u32, tamper: Tamper, trunc: usize) -> Frame {
    Frame::JoinAccept {
        join_nonce: nonce,
        net_id: 0x00_00_13,
        devaddr: 0x2602_0000 | (nonce & 0xFFFF),
        dl_settings: spec.dl_settings,
        rx_delay: spec.rx_delay,
        cflist: spec.cflist.clone(),
        tamper,
        trunc,
    }
}

pub struct Sys {
    nb: Option<NbCore<14, 0>>,
    ac: Option<ACore<14, 0>>,
    front: String,
    region: String,
    /// accepts delivered in earlier attempts (bytes), for replays
    earlier: Vec<Vec<u8>>,
    attempts: usize,
    outcome: String,
    creds: u8,
}

impl Sys {
    pub fn new(front: &str, cfg: &DevCfg) -> Self {
        Sys {
            nb: if front == "nb" { Some(NbCore::new(cfg)) } else { None },
            ac: if front != "nb" { Some(ACore::new(cfg, front == "async-c")) } else { None },
            front: front.into(),
            region: cfg.region.clone(),
            earlier: vec![],
            attempts: 0,
            outcome: String::new(),
            creds: 0,
        }
    }
    fn snap(&self) -> VerifMac {
        self.nb.as_ref().map(|n| n.snap()).or_else(|| self.ac.as_ref().map(|a| a.snap())).unwrap()
    }

    /// Runs one join transaction with the given frames in RX1/RX2 (rx1b = second frame in RX1, nb only).
    fn join(&mut self, nonce_draw: u32, rx1: Option<Frame>, rx2: Option<Frame>) -> Vec<V> {
        let region = self.region.clone();
        let front = self.front.clone();
        let before = self.snap();
        let mut out = vec![];
        let mut tx: Option<Vec<u8>> = None;
        let mut accepted: Option<Judge> = None;
        let mut joined_resp = None;
        let mut delivered: Vec<Vec<u8>> = vec![];
        if let Some(nb) = &mut self.nb {
            nb.apply(&Ev::Rng(vec![nonce_draw, 1]));
            for m in nb.apply(&Ev::JoinCycle { rx1, rx2 }) {
                if let Resp::Panic(p) = &m.resp {
                    out.push(V { sig: format!("C11|nb|panic|{}", panic_site(p)), what: p.clone() });
                    return out;
                }
                for op in &m.ops {
                    if let RadioOp::Tx { bytes, .. } = op {
                        tx = Some(bytes.clone());
                    }
                }
                if let (Some(j), Some(b)) = (&m.judge, &m.bytes) {
                    delivered.push(b.clone());
                    if matches!(j, Judge::JoinAccept { .. }) {
                        accepted = Some(j.clone());
                    }
                }
                match m.resp {
                    Resp::JoinSuccess => joined_resp = Some(true),
                    Resp::NoJoinAccept => joined_resp = Some(false),
                    _ => {}
                }
            }
        } else if let Some(ac) = &mut self.ac {
            ac.apply(&AEv::Rng(vec![nonce_draw, 1]));
            if let Some(st) = ac.apply(&AEv::Join(Script { rx1, rx2, ..Default::default() })) {
                if let AResp::Panic(p) = &st.resp {
                    out.push(V { sig: format!("C11|{front}|panic|{}", panic_site(p)), what: p.clone() });
                    return out;
                }
                for op in &st.ops {
                    if let AOp::Tx { bytes, .. } = op {
                        tx = Some(bytes.clone());
                    }
                }
                for d in &st.deliveries {
                    delivered.push(d.bytes.clone());
                    if matches!(d.judge, Judge::JoinAccept { .. }) && accepted.is_none() {
                        accepted = Some(d.judge.clone());
                    }
                }
                joined_resp = match st.resp {
                    AResp::JoinSuccess => Some(true),
                    AResp::NoJoinAccept => Some(false),
                    _ => None,
                };
                // Class C: the continuous reception the device returns to after a successful join listens with the
                // RX2 parameters of the session the JoinAccept defines (data rate from DLSettings when the region
                // defines it, regional default frequency)
                if joined_resp == Some(true) && st.class_c {
                    let after = &st.after;
                    let (def_f, def_dr) = rr::rx2_default(&region);
                    let want_dr = after.rx2_data_rate.unwrap_or(def_dr);
                    let want_f = after.rx2_frequency.unwrap_or(def_f);
                    if let Some(AOp::SetupRx { rf, single_ms: None, .. }) = st.ops.iter().rev().find(|o| matches!(o, AOp::SetupRx { .. }))
                        && let Some(d) = rr::dr(&region, want_dr)
                        && ((rf.sf, rf.bw) != (d.sf, d.bw) || rf.freq != want_f)
                    {
                        out.push(V {
                            sig: format!("C11|{front}|classc-listening-after-join-not-on-the-session-rx2-parameters"),
                            what: format!("{region}: after JoinSuccess the device listens on {} Hz SF{}/{}; the session's RX2 is {want_f} Hz DR{want_dr} (SF{}/{})", rf.freq, rf.sf, rf.bw, d.sf, d.bw),
                        });
                    }
                }
            }
        }
        self.earlier.extend(delivered.into_iter().filter(|b| b.len() == 17 || b.len() == 33));
        let after = self.snap();
        out.extend(judge_join(&region, &front, &before, &after, tx.as_deref(), nonce_draw as u16, accepted.as_ref(), joined_resp, self.creds));
        self.outcome = format!("{}:{:?}", if accepted.is_some() { "accepted" } else { "not-accepted" }, joined_resp);
        out
    }

    /// First uplink of the session: counter 0, verifies under the session keys the reference derived.
    fn first_uplink(&mut self) -> Vec<V> {
        let mut out = vec![];
        let before = self.snap();
        let mut tx: Option<Vec<u8>> = None;
        let mut tx_freq: Option<u32> = None;
        let mut not_joined = false;
        if let Some(nb) = &mut self.nb {
            for m in nb.apply(&Ev::Cycle { confirmed: false, port: 1, len: 2, rx1: None, rx2: None }) {
                if let Resp::Panic(p) = &m.resp {
                    out.push(V { sig: format!("C11|nb|panic|{}", panic_site(p)), what: p.clone() });
                }
                if matches!(m.resp, Resp::ErrMac(_)) {
                    not_joined = true;
                }
                for op in &m.ops {
                    if let RadioOp::Tx { bytes, rf, .. } = op {
                        tx = Some(bytes.clone());
                        tx_freq = Some(rf.freq);
                    }
                }
            }
        } else if let Some(ac) = &mut self.ac
            && let Some(st) = ac.apply(&AEv::Send { confirmed: false, port: 1, len: 2, script: Script::default() })
        {
            if let AResp::Panic(p) = &st.resp {
                out.push(V { sig: format!("C11|{}|panic|{}", self.front, panic_site(p)), what: p.clone() });
            }
            if matches!(st.resp, AResp::ErrMac(_)) {
                not_joined = true;
            }
            for op in &st.ops {
                if let AOp::Tx { bytes, rf, .. } = op {
                    tx = Some(bytes.clone());
                    tx_freq = Some(rf.freq);
                }
            }
        }
        // the channel list the join installed is in force from the first uplink on (72-channel plans: the mask)
        if let (VerifMacState::Joined(_), Some(f)) = (&before.state, tx_freq)
            && rr::is_fixed(&self.region)
            && let Some(ch) = rr::fixed_channel_of(&self.region, f)
        {
            let m = &before.region.channel_mask;
            // (judged only when the mask leaves a channel for the data rate in force: what the stack falls back to
            // otherwise is not the join's business)
            let bw500 = before.data_rate == if self.region == "US915" { 4 } else { 6 };
            let usable = if bw500 { m[8] != 0 } else { m[..8].iter().any(|b| *b != 0) };
            if m[ch / 8] & (1 << (ch % 8)) == 0 && usable {
                out.push(V { sig: "C11|first-uplink-on-channel-the-join-disabled".into(), what: format!("{}: first uplink of the session on channel {ch} ({f} Hz), mask in force {}", self.region, hex(&m[..])) });
            }
        }
        match before.state {
            VerifMacState::Joined(s) => {
                let net = self.nb.as_ref().map(|n| n.net.clone()).or_else(|| self.ac.as_ref().map(|a| a.net())).unwrap();
                match tx {
                    None => out.push(V { sig: "C11|joined-device-cannot-send".into(), what: "no uplink".into() }),
                    Some(b) => {
                        if let Ok(v) = refcodec::parse_data(&b) {
                            if v.devaddr != net.devaddr || !refcodec::data_mic_ok(&b, &v, &net.nwk, s.fcnt_up) {
                                out.push(V { sig: "C11|uplink-not-under-derived-session".into(), what: format!("uplink {} does not verify under the reference session (addr {:#x}, counter {})", hex(&b), net.devaddr, s.fcnt_up) });
                            }
                        }
                    }
                }
                self.outcome = "uplink".into();
            }
            _ => {
                if !not_joined || tx.is_some() {
                    out.push(V { sig: format!("C11|{}|unjoined-device-sends", self.front), what: format!("send on an unjoined device: transmitted {:?}", tx.map(|b| hex(&b))) });
                }
                self.outcome = "not-joined".into();
            }
        }
        out
    }
}

impl System for Sys {
    type Ev = JEv;
    type Key = (VerifMac, usize, usize, u8, String);

    fn enabled(&self) -> Vec<JEv> {
        let mut v = vec![];
        if self.attempts < 4 {
            for outcome in 0..=8u8 {
                if outcome == 6 && self.earlier.is_empty() {
                    continue;
                }
                if outcome == 8 && self.front != "nb" {
                    continue;
                }
                for (nonce, spec) in [(0u32, 0u8), (0xFFFF, 1), (0x1_1234, 2), (1, 3)] {
                    if (outcome == 0 || outcome >= 3) && spec > 1 {
                        continue;
                    }
                    v.push(JEv::Join { outcome, nonce, spec });
                }
            }
        }
        v.push(JEv::Up);
        if self.attempts < 4 {
            v.push(JEv::SwitchCreds);
            v.push(JEv::SwitchKeyOnly);
        }
        v
    }

    fn step(&mut self, ev: &JEv) -> Vec<V> {
        match ev {
            JEv::Up => self.first_uplink(),
            JEv::Silent { n } => {
                for i in 0..*n {
                    let v = self.join(0x100 + i * 37, None, None);
                    if !v.is_empty() || !explore::System::alive(self) {
                        return v;
                    }
                }
                vec![]
            }
            JEv::SwitchCreds | JEv::SwitchKeyOnly => {
                self.creds ^= if matches!(ev, JEv::SwitchKeyOnly) { 2 } else { 1 };
                if let Some(nb) = &mut self.nb {
                    nb.apply(&Ev::UseCreds(self.creds));
                } else if let Some(ac) = &mut self.ac {
                    ac.apply(&AEv::UseCreds(self.creds));
                }
                self.outcome = "switch-creds".into();
                vec![]
            }
            JEv::Join { outcome, nonce, spec } => {
                self.attempts += 1;
                let sp = spec_of(&self.region, *spec);
                let jn = 0x10 + self.attempts as u32;
                let good = ja_frame(&sp, jn, Tamper::None, 0);
                let (rx1, rx2) = match outcome {
                    0 => (None, None),
                    1 => (Some(good), None),
                    2 => (None, Some(good)),
                    3 => (Some(ja_frame(&sp, jn, Tamper::BadMic, 0)), None),
                    4 => (None, Some(ja_frame(&sp, jn, Tamper::OtherSession, 0))),
                    5 => (Some(ja_frame(&sp, jn, Tamper::None, 1)), Some(ja_frame(&sp, jn, Tamper::None, 16))),
                    6 => (Some(Frame::Raw(self.earlier[0].clone())), None),
                    7 => (Some(Frame::Down { fcnt: Fcnt::Abs(1), confirmed: false, ack: false, fopts: vec![], port: Some(1), payload: vec![1], tamper: Tamper::None }), None),
                    _ => (Some(ja_frame(&sp, jn, Tamper::BadMic, 0)), Some(good)),
                };
                self.join(*nonce, rx1, rx2)
            }
        }
    }

    fn key(&self) -> Self::Key {
        let mut s = self.snap();
        if let VerifMacState::Joined(ref mut j) = s.state {
            j.fcnt_up = j.fcnt_up.min(1);
        }
        (s, self.attempts, self.earlier.len().min(1), self.creds, format!("{:?}", self.nb.as_ref().map(|n| n.st())))
    }

    fn alive(&self) -> bool {
        self.nb.as_ref().map(|n| n.dead.is_none()).unwrap_or(true) && self.ac.as_ref().map(|a| a.dead.is_none()).unwrap_or(true)
    }
    fn outcome(&self) -> String {
        self.outcome.clone()
    }
}

#[derive(Clone, Debug, Serialize, Deserialize)]
pub struct SweepCase {
    pub front: String,
    pub region: String,
    /// 0 fresh, 1 after a failed attempt, 2 re-join from a joined state with non-default settings
    pub pre: u8,
    pub spec: JaSpec,
    pub nonce: u32,
    pub jn: u32,
    pub na: u32,
    pub rx2: bool,
    /// join bias of the 72-channel plans: (sub-band, retries)
    #[serde(default)]
    pub bias: Option<(u8, usize)>,
    /// data rate the application configured before the join (None = default)
    #[serde(default)]
    pub dr: Option<u8>,
}

fn eval_sweep(c: &SweepCase) -> Vec<(String, String)> {
    let mut dcfg = DevCfg::otaa(&c.region);
    dcfg.bias = c.bias;
    dcfg.dr = c.dr;
    let mut s = Sys::new(&c.front, &dcfg);
    let mut out = vec![];
    if (1..=3).contains(&c.pre) {
        s.step(&JEv::Join { outcome: 0, nonce: 7, spec: 0 });
    }
    if c.pre == 2 || c.pre == 3 {
        // re-join from a joined state: with non-default settings (2) or with CFList channels in place (3)
        s.step(&JEv::Join { outcome: 1, nonce: 9, spec: if c.pre == 3 { 1 } else { 2 } });
    }
    if c.pre == 4 {
        // joined with CFList channels, then a DlChannelReq gives the first CFList channel another RX1 frequency
        s.step(&JEv::Join { outcome: 1, nonce: 9, spec: 1 });
        if !rr::is_fixed(&c.region) {
            let idx = rr::default_channels(&c.region).len() as u8;
            let fb = cmds::freq_bytes(cmds::freqs(&c.region)[7]);
            let d = Frame::Down { fcnt: Fcnt::Rel(1), confirmed: false, ack: false, fopts: vec![0x0A, idx, fb[0], fb[1], fb[2]], port: None, payload: vec![], tamper: Tamper::None };
            if let Some(nb) = &mut s.nb {
                nb.apply(&Ev::Cycle { confirmed: false, port: 1, len: 1, rx1: Some(d), rx2: None });
            } else if let Some(ac) = &mut s.ac {
                ac.apply(&AEv::Send { confirmed: false, port: 1, len: 1, script: Script { rx1: Some(d), ..Default::default() } });
            }
        }
    }
    let f = Frame::JoinAccept {
        join_nonce: c.jn,
        net_id: c.na,
        devaddr: c.na.rotate_left(8) ^ 0x2600_0001,
        dl_settings: c.spec.dl_settings,
        rx_delay: c.spec.rx_delay,
        cflist: c.spec.cflist.clone(),
        tamper: Tamper::None,
        trunc: 0,
    };
    let (rx1, rx2) = if c.rx2 { (None, Some(f)) } else { (Some(f), None) };
    out.extend(s.join(c.nonce, rx1, rx2));
    if s.alive() {
        out.extend(s.first_uplink());
    }
    out.into_iter().map(|v| (v.sig, v.what)).collect()
}

#[derive(Clone, Debug, Serialize, Deserialize)]
pub struct RunCfg {
    pub front: String,
    pub dev: DevCfg,
}

fn replay_case(c: &Value) -> Vec<String> {
    if c.get("history").is_some() {
        let rc: RunCfg = serde_json::from_value(c["cfg"].clone()).expect("cfg");
        let hist: Vec<JEv> = serde_json::from_value(c["history"].clone()).expect("history");
        return explore::replay(&|| Sys::new(&rc.front, &rc.dev), &hist);
    }
    let sc: SweepCase = serde_json::from_value(c.clone()).expect("case");
    eval_sweep(&sc).into_iter().map(|x| x.0).collect()
}

pub fn run(tier: Tier, replay: Option<&str>) {
    if let Some(path) = replay {
        replay_exit("C11", path, replay_case(&load_case(path)));
    }
    let ctx = Ctx::new("C11", tier);
    let th = tier.thorough();
    let regions: Vec<&str> = if th { REGIONS.to_vec() } else { vec!["EU868", "US915", "AS923_1"] };
    // ---- (A) value sweep
    let sweep = AtomicU64::new(0);
    for region in &regions {
        let specs = cmds::join_accepts(region, th);
        for front in ["nb", "async"] {
            let mut cases = vec![];
            for (i, sp) in specs.iter().enumerate() {
                for pre in 0..5u8 {
                    if front != "nb" && pre != 0 && i % 7 != 0 {
                        continue;
                    }
                    let (nonce, jn, na) = match i % 4 {
                        0 => (0u32, 0u32, 0u32),
                        1 => (0xFFFF, 0xFFFFFF, 0xFFFFFF),
                        2 => (0x8001, 0x010203, 0x000013),
                        _ => (1, 1, 0x800000),
                    };
                    cases.push(SweepCase { front: front.into(), region: region.to_string(), pre, spec: sp.clone(), nonce, jn, na, rx2: i % 3 == 0, bias: None, dr: None });
                    // the 72-channel plans under a join bias: the accept's channel mask may disable the sub-band joined on
                    if rr::is_fixed(region) && pre <= 1 && sp.cflist.as_ref().map(|c| c[15] == 1).unwrap_or(i % 16 == 0) {
                        for bias in [(2u8, 1usize), (2, 8), (1, 1), (8, 2)] {
                            cases.push(SweepCase { front: front.into(), region: region.to_string(), pre, spec: sp.clone(), nonce, jn, na, rx2: i % 3 == 0, bias: Some(bias), dr: None });
                        }
                    }
                }
            }
            cases.par_iter().for_each(|c| {
                for (sig, what) in eval_sweep(c) {
                    ctx.violation(sig, what, serde_json::to_value(c).unwrap(), c.pre as usize);
                }
                ctx.tick(1);
                sweep.fetch_add(1, Ordering::Relaxed);
            });
        }
    }
    // ---- (A2) every DLSettings octet while the application has configured each uplink data rate of the region: the
    // accept's settings are valid or not for the region, whatever rate the device happens to use (regions whose RX1
    // table reaches unimplemented rates - RX1DROffset 6 / 7 in IN865 and AS923 - in both tiers)
    {
        let rs: Vec<&str> = if th { REGIONS.to_vec() } else { vec!["IN865", "AS923_1", "EU868"] };
        let mut cases = vec![];
        for region in rs {
            // (uplink data rates the crate implements: an application that selects another one is outside this property)
            let top = match region {
                "US915" => 4u8,
                "AU915" => 6,
                _ => 5,
            };
            for dr in (0..=top).filter(|d| rr::dr(region, *d).is_some()) {
                for dl in 0..=255u8 {
                    if !th && dl & 0x0F != rr::rx2_default(region).1 && dl & 0x8F != 0x02 {
                        continue;
                    }
                    for front in ["nb", "async"] {
                        if front == "async" && dl >> 4 < 6 {
                            continue;
                        }
                        cases.push(SweepCase { front: front.into(), region: region.to_string(), pre: 0, spec: JaSpec { dl_settings: dl, rx_delay: 1, cflist: None }, nonce: 3, jn: 5, na: 0x13, rx2: dl & 0x10 != 0, bias: None, dr: Some(dr) });
                    }
                }
            }
        }
        cases.par_iter().for_each(|c| {
            for (sig, what) in eval_sweep(c) {
                ctx.violation(sig, what, serde_json::to_value(c).unwrap(), 1);
            }
            ctx.tick(1);
            sweep.fetch_add(1, Ordering::Relaxed);
        });
    }
    // ---- (B) histories
    let depth = if crate::ctx::deep() { 7 } else if th { 5 } else { 4 };
    let mut states = 0u64;
    let mut transitions = 0u64;
    let mut capped = false;
    let mut outcomes: std::collections::BTreeMap<String, u64> = Default::default();
    let mut runs = vec![];
    for region in &regions {
        for front in ["nb", "async", "async-c"] {
            runs.push(RunCfg { front: front.into(), dev: DevCfg::otaa(region) });
        }
    }
    for rc in &runs {
        let cj = serde_json::to_value(rc).unwrap();
        let st = explore::bfs(&ctx, &cj, &|| Sys::new(&rc.front, &rc.dev), depth, 400_000);
        states += st.states;
        transitions += st.transitions;
        capped |= st.capped;
        for (k, v) in st.outcomes {
            *outcomes.entry(k).or_insert(0) += v;
        }
    }
    // ---- (C) long straight-line join histories on the 72-channel plans: k unanswered attempts, a join accepted with
    // a CFList (which resets the walk over the join channels), then 72 more unanswered re-join attempts; every
    // attempt must put a well-formed JoinRequest on the air
    let mut line_attempts = 0u64;
    for region in regions.iter().filter(|r| rr::is_fixed(r)) {
        let rc = RunCfg { front: "nb".into(), dev: DevCfg::otaa(region) };
        let cj = serde_json::to_value(&rc).unwrap();
        let ks: Vec<u32> = (0..=72).collect();
        let res: Vec<(u32, Vec<V>, Vec<JEv>)> = ks
            .par_iter()
            .map(|&k| {
                let hist = vec![JEv::Silent { n: k }, JEv::Join { outcome: 1, nonce: 0x4321, spec: 1 }, JEv::Silent { n: 72 }];
                let mut sys = Sys::new("nb", &rc.dev);
                let mut vs = vec![];
                for e in &hist {
                    vs.extend(explore::System::step(&mut sys, e));
                    if !vs.is_empty() {
                        break;
                    }
                }
                (k, vs, hist)
            })
            .collect();
        for (k, vs, hist) in res {
            line_attempts += k as u64 + 73;
            ctx.tick(k as u64 + 73);
            for v in vs {
                ctx.violation(v.sig, v.what, json!({"cfg": cj.clone(), "history": serde_json::to_value(&hist).unwrap()}), 3);
            }
        }
    }
    transitions += line_attempts;
    let coverage = json!({
        "line_join_attempts": line_attempts,
        "states": states,
        "transitions": transitions + sweep.load(Ordering::Relaxed),
        "traces_validated_against_impl": transitions + sweep.load(Ordering::Relaxed),
        "samples": [
            serde_json::to_value(SweepCase { front: "nb".into(), region: "EU868".into(), pre: 2, spec: JaSpec { dl_settings: 0x5F, rx_delay: 0, cflist: None }, nonce: 0xFFFF, jn: 0xFFFFFF, na: 0x13, rx2: true, bias: None, dr: None }).unwrap(),
            {"cfg": serde_json::to_value(&runs[0]).unwrap(), "history": [serde_json::to_value(JEv::Join { outcome: 3, nonce: 0, spec: 0 }).unwrap(), serde_json::to_value(JEv::Join { outcome: 2, nonce: 0xFFFF, spec: 1 }).unwrap(), serde_json::to_value(JEv::Up).unwrap()]},
        ],
        "evaluations": ctx.evals(),
        "distinct_nontrivial": states + sweep.load(Ordering::Relaxed),
        "rule": "(A2) every DLSettings octet (quick: default / DR2 RX2 data rate x every RX1DROffset) with the application having configured each uplink data rate of the region beforehand (IN865, AS923-1, EU868; thorough: all regions), both front-ends; (A) sweep: every JoinAccept content (all 256 DLSettings x RxDelay x CFList variants incl. RFU types, zero / out-of-band frequencies and masks; JoinNonce/NetID/DevAddr/DevNonce boundary sets) delivered in RX1 or RX2 to a fresh device, after a failed attempt, and as a re-join from a joined state with non-default settings / with CFList channels in place / after a DlChannelReq on a CFList channel, followed by the first uplink; (B) BFS over histories of up to 4 join attempts (none / valid RX1 / valid RX2 / bad MIC / wrong key / wrong length / replay of an earlier accept / data frame / bad-then-valid) interleaved with uplinks and with the application switching to a second credential set or to another AppKey for the same identifiers, on nb, async and async+Class C; (C) 72-channel plans: for every k in 0..=72, k unanswered attempts, a join accepted with a CFList, 72 unanswered re-join attempts",
        "sweep_cases": sweep.load(Ordering::Relaxed),
        "bfs_depth": depth,
        "outcomes": outcomes,
        "exhaustive": !capped,
        "capped": capped,
    });
    let replayer = |cj: &Value| -> Vec<String> { replay_case(cj) };
    ctx.finish(
        "model_checking",
        coverage,
        vec![
            "reference: refcodec (JoinRequest layout, JoinAccept decryption/MIC, 1.0.x key derivation) and refregion (validity of RX1 offset, RX2 rate, CFList)".into(),
            "an RX2 data rate the region defines but the stack does not implement may be ignored; an out-of-band CFList frequency must leave its slot as it was".into(),
            "LoRaWAN 1.0.x has no JoinNonce replay protection: a replayed accept whose MIC verifies joins with keys derived from the new DevNonce".into(),
        ],
        Some(&replayer),
    );
}
