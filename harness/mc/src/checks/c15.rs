//! C15 — low-data-rate optimisation is decided identically everywhere (exhaustive SF x BW x chip).
use crate::adev::drive;
use crate::checks::c16::{BWS, SFS};
use crate::checks::{load_case, replay_exit};
use crate::ctx::{Ctx, Tier, catch, panic_site};
use crate::phy::{Env, Txn, passive};
use lora_modulation::{BaseBandModulationParams, CodingRate};
use lora_phy::mod_params::ModulationParams;
use lora_phy::mod_traits::RadioKind;
use lora_phy::{lr1110, sx126x, sx127x};
use serde::{Deserialize, Serialize};
use serde_json::{Value, json};

pub const CHIPS: [&str; 8] = ["airtime", "sx1261", "sx1262", "stm32wl-lp", "stm32wl-hp", "sx1272", "sx1276", "lr1110"];

#[derive(Clone, Debug, Serialize, Deserialize)]
pub struct Case {
    pub chip: String,
    pub sf: usize,
    pub bw: usize,
}

/// The rule, in exact rational arithmetic: on iff 2^SF / BW >= 16.38 ms.
/// `bw_num/bw_den` is the bandwidth in Hz.
fn rule(sf: u32, bw_num: u64, bw_den: u64) -> bool {
    // 2^sf / (bw_num/bw_den) >= 1638/100000  <=>  2^sf * bw_den * 100000 >= 1638 * bw_num
    (1u128 << sf) * bw_den as u128 * 100_000 >= 1638u128 * bw_num as u128
}

/// True LoRa bandwidths (the crate's `hz()` holds rounded nominal values).
fn true_bw(i: usize) -> (u64, u64) {
    match i {
        0 => (125_000, 16),
        1 => (125_000, 12),
        2 => (125_000, 8),
        3 => (125_000, 6),
        4 => (125_000, 4),
        5 => (125_000, 3),
        6 => (125_000, 2),
        7 => (125_000, 1),
        8 => (250_000, 1),
        _ => (500_000, 1),
    }
}

/// (decision in the params struct, bit actually written on SPI for every prior register value)
/// None = the chip rejects this pair.
fn observe(chip: &str, sf: usize, bw: usize) -> Result<Option<(bool, Vec<(u8, Option<bool>)>)>, String> {
    let (s, b) = (SFS[sf], BWS[bw]);
    if chip == "airtime" {
        return Ok(Some((BaseBandModulationParams::new(s, b, CodingRate::_4_5).ldro, vec![])));
    }
    let freq = 868_100_000;
    let mut out = vec![];
    let mut decision = None;
    for prior in 0..=255u8 {
        let env: Env = passive(move |_w, n| vec![prior; n]);
        let r: Result<Option<(ModulationParams, Vec<Txn>)>, String> = catch(|| {
            macro_rules! go {
                ($radio:expr) => {{
                    let mut radio = $radio;
                    match radio.create_modulation_params(s, b, CodingRate::_4_5, freq) {
                        Err(_) => None,
                        Ok(mp) => {
                            let r = drive(radio.set_modulation_params(&mp));
                            match r {
                                Some(Ok(())) => Some((mp, env.take_log())),
                                _ => None,
                            }
                        }
                    }
                }};
            }
            match chip {
                "sx1261" => go!(sx126x::Sx126x::new(env.spi(), env.iv(), sx126x::Config { chip: sx126x::Sx1261, tcxo_ctrl: None, use_dcdc: false, rx_boost: false })),
                "sx1262" => go!(sx126x::Sx126x::new(env.spi(), env.iv(), sx126x::Config { chip: sx126x::Sx1262, tcxo_ctrl: None, use_dcdc: false, rx_boost: false })),
                "stm32wl-lp" => go!(sx126x::Sx126x::new(env.spi(), env.iv(), sx126x::Config { chip: sx126x::Stm32wl { use_high_power_pa: false }, tcxo_ctrl: None, use_dcdc: true, rx_boost: false })),
                "stm32wl-hp" => go!(sx126x::Sx126x::new(env.spi(), env.iv(), sx126x::Config { chip: sx126x::Stm32wl { use_high_power_pa: true }, tcxo_ctrl: None, use_dcdc: true, rx_boost: false })),
                "sx1272" => go!(sx127x::Sx127x::new(env.spi(), env.iv(), sx127x::Config { chip: sx127x::Sx1272, tcxo_used: false, tx_boost: false, rx_boost: false })),
                "sx1276" => go!(sx127x::Sx127x::new(env.spi(), env.iv(), sx127x::Config { chip: sx127x::Sx1276, tcxo_used: false, tx_boost: false, rx_boost: false })),
                _ => go!(lr1110::Lr1110::new(
                    env.spi(),
                    env.iv(),
                    lr1110::Config { pa_selection: lr1110::PaSelection::Lp, dio_as_rf_switch: None, tcxo_ctrl: None, use_dcdc: false, rx_boost: false }
                )),
            }
        });
        let Some((mp, log)) = r? else { return Ok(None) };
        decision = Some(mp.low_data_rate_optimize != 0);
        // decode the bit the chip receives
        let bit = match chip {
            "sx1261" | "sx1262" | "stm32wl-lp" | "stm32wl-hp" => log.iter().rev().find(|t| t.w.first() == Some(&0x8B) && t.w.len() >= 5).map(|t| t.w[4] & 1 != 0),
            "sx1276" => log.iter().rev().find(|t| t.w.first() == Some(&(0x26 | 0x80)) && t.w.len() >= 2).map(|t| t.w[1] & 0x08 != 0),
            "sx1272" => log.iter().rev().find(|t| t.w.first() == Some(&(0x1D | 0x80)) && t.w.len() >= 2).map(|t| t.w[1] & 0x01 != 0),
            _ => log.iter().rev().find(|t| t.w.len() >= 6 && t.w[0] == 0x02 && t.w[1] == 0x0F).map(|t| t.w[5] & 1 != 0),
        };
        out.push((prior, bit));
        if !(chip == "sx1272" || chip == "sx1276") && prior >= 3 {
            break; // no read-modify-write on the LDRO carrier for command-based chips
        }
    }
    Ok(decision.map(|d| (d, out)))
}

/// SX127x: the LDRO bit shares its register with packet parameters (SX1272: RegModemConfig1). After the
/// usual sequence set_modulation_params -> set_packet_params the bit in the chip's register file must still
/// be the decision. Returns (prior register value, bit found) for every mismatch-relevant prior.
fn after_packet_params(chip: &str, sf: usize, bw: usize) -> Result<Option<(bool, Vec<(u8, bool)>)>, String> {
    use crate::chips::Sx127xChip;
    let (s, b) = (SFS[sf], BWS[bw]);
    let is72 = chip == "sx1272";
    let mut out = vec![];
    let mut decision = None;
    for prior in 0..=255u8 {
        let mut model = Sx127xChip::new(is72);
        model.regs[0x01] = 0x81;
        model.regs[if is72 { 0x1D } else { 0x26 }] = prior;
        let env = Env::new(Box::new(model));
        let r: Result<Option<bool>, String> = catch(|| {
            macro_rules! go {
                ($radio:expr) => {{
                    let mut radio = $radio;
                    match radio.create_modulation_params(s, b, CodingRate::_4_5, 868_100_000) {
                        Err(_) => None,
                        Ok(mp) => {
                            // implicit header for SF6 (the only form the chip supports there)
                            let pp = radio.create_packet_params(8, s == lora_modulation::SpreadingFactor::_6, 12, true, false, &mp);
                            match pp {
                                Err(_) => None,
                                Ok(pp) => {
                                    let a = drive(radio.set_modulation_params(&mp));
                                    let b2 = drive(radio.set_packet_params(&pp));
                                    if matches!((a, b2), (Some(Ok(())), Some(Ok(())))) { Some(mp.low_data_rate_optimize != 0) } else { None }
                                }
                            }
                        }
                    }
                }};
            }
            if is72 {
                go!(sx127x::Sx127x::new(env.spi(), env.iv(), sx127x::Config { chip: sx127x::Sx1272, tcxo_used: false, tx_boost: false, rx_boost: false }))
            } else {
                go!(sx127x::Sx127x::new(env.spi(), env.iv(), sx127x::Config { chip: sx127x::Sx1276, tcxo_used: false, tx_boost: false, rx_boost: false }))
            }
        });
        let Some(d) = r? else { return Ok(None) };
        decision = Some(d);
        let bit = env.with_chip::<Sx127xChip, _>(|c| if is72 { c.regs[0x1D] & 0x01 != 0 } else { c.regs[0x26] & 0x08 != 0 });
        out.push((prior, bit));
    }
    Ok(decision.map(|d| (d, out)))
}

pub fn eval(c: &Case) -> Vec<(String, String)> {
    let mut v = vec![];
    let sf = SFS[c.sf].factor();
    let nominal = rule(sf, crate::checks::c16::NOMINAL_BW_HZ[c.bw] as u64, 1);
    let (tn, td) = true_bw(c.bw);
    let exact = rule(sf, tn, td);
    let tag = format!("{}|SF{}|BW{}", c.chip, sf, BWS[c.bw].hz());
    match observe(&c.chip, c.sf, c.bw) {
        Err(p) => v.push((format!("C15|{tag}|panic|{}", panic_site(&p)), p)),
        Ok(None) => {}
        Ok(Some((decision, bits))) => {
            if c.chip == "sx1272" || c.chip == "sx1276" {
                match after_packet_params(&c.chip, c.sf, c.bw) {
                    Err(p) => v.push((format!("C15|{tag}|panic|{}", panic_site(&p)), p)),
                    Ok(None) => {}
                    Ok(Some((d, regs))) => {
                        if let Some((prior, bit)) = regs.into_iter().find(|(_, bit)| *bit != d) {
                            v.push((
                                format!("C15|{tag}|register-bit-after-packet-params-differs-from-decision"),
                                format!("decision {d}, LDRO bit in the chip's register after set_modulation_params + set_packet_params: {bit} (register held {prior:#x} before)"),
                            ));
                        }
                    }
                }
            }
            if nominal == exact {
                if decision != exact {
                    v.push((
                        format!("C15|{tag}|decision"),
                        format!("symbol time 2^{sf}/{} Hz = {:.3} ms: LDRO must be {}, {} decides {}", BWS[c.bw].hz(), (1u64 << sf) as f64 * 1000.0 * td as f64 / tn as f64, exact, c.chip, decision),
                    ));
                }
            } else {
                // nominal and true bandwidth disagree about this pair: only mutual agreement is required
                let air = BaseBandModulationParams::new(SFS[c.sf], BWS[c.bw], CodingRate::_4_5).ldro;
                if decision != air {
                    v.push((format!("C15|{tag}|disagrees-with-airtime-calculator"), format!("{} decides {decision}, airtime calculator {air}", c.chip)));
                }
            }
            for (prior, bit) in bits {
                match bit {
                    None => v.push((format!("C15|{tag}|ldro-not-programmed"), format!("no LDRO-carrying write seen (prior register value {prior:#x})"))),
                    Some(b) if b != decision => v.push((format!("C15|{tag}|spi-bit-differs-from-decision"), format!("decision {decision}, bit written {b} (prior register value {prior:#x})"))),
                    _ => {}
                }
            }
        }
    }
    v
}

pub fn run(tier: Tier, replay: Option<&str>) {
    if let Some(path) = replay {
        let c: Case = serde_json::from_value(load_case(path)).expect("case");
        replay_exit("C15", path, eval(&c).into_iter().map(|x| x.0).collect());
    }
    let ctx = Ctx::new("C15", tier);
    let mut supported = 0u64;
    let mut on = 0u64;
    for chip in CHIPS {
        for sf in 0..8 {
            for bw in 0..10 {
                let c = Case { chip: chip.into(), sf, bw };
                if let Ok(Some((d, _))) = observe(chip, sf, bw) {
                    supported += 1;
                    if d {
                        on += 1;
                    }
                }
                for (sig, what) in eval(&c) {
                    ctx.violation(sig, what, serde_json::to_value(&c).unwrap(), 0);
                }
                ctx.tick(1);
            }
        }
    }
    let coverage = json!({
        "evaluations": ctx.evals(),
        "distinct_nontrivial": supported,
        "rule": "all 8 spreading factors x 10 bandwidths x {airtime calculator, SX1261, SX1262, STM32WL LP/HP, SX1272, SX1276, LR1110}; for every pair the chip accepts: the decision in ModulationParams / BaseBandModulationParams and the LDRO bit actually written on SPI by set_modulation_params (for the register-based SX127x with all 256 prior values of the read-modify-write register) against the exact rational rule 2^SF/BW >= 16.38 ms; for the SX127x additionally the bit left in the chip model's register file after the usual set_modulation_params -> set_packet_params sequence; non-trivial = pairs the chip supports",
        "samples": [serde_json::to_value(Case { chip: "sx1276".into(), sf: 6, bw: 7 }).unwrap(), serde_json::to_value(Case { chip: "sx1262".into(), sf: 7, bw: 6 }).unwrap()],
        "exhaustive": true,
        "pairs_supported": supported,
        "pairs_with_ldro_on": on,
    });
    let replayer = |cj: &Value| -> Vec<String> {
        let c: Case = serde_json::from_value(cj.clone()).unwrap();
        eval(&c).into_iter().map(|x| x.0).collect()
    };
    ctx.finish(
        "exploration",
        coverage,
        vec![
            "rule evaluated with the datasheet's nominal bandwidth values (own table) and with the true LoRa bandwidths; where the two disagree (SF8 / 15.6 kHz) only agreement with the airtime calculator is required".into(),
            "pairs a chip rejects in create_modulation_params are skipped for that chip".into(),
        ],
        Some(&replayer),
    );
}
