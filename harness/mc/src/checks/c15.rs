//! C15 — low-data-rate optimisation is decided identically everywhere (exhaustive SF x BW x chip).
use crate::adev::drive;
use crate::checks::c16::{BWS, SFS};
use crate::checks::{load_case, replay_exit};
use crate::ctx::{Ctx, Tier, catch, panic_site};
use crate::phy::{Env, Txn, passive};
use lora_modulation::{BaseBandModulationParams, CodingRate};
use lora_phy::mod_params::ModulationParams;
use lora_phy::mod_traits::RadioKind;
use lora_phy::{lr1110, sx126x, sx127x};
use serde::{Deserialize, Serialize};
use serde_json::{Value, json};

pub const CHIPS: [&str; 8] = ["airtime", "sx1261", "sx1262", "stm32wl-lp", "stm32wl-hp", "sx1272", "sx1276", "lr1110"];

#[derive(Clone, Debug, Serialize, Deserialize)]
pub struct Case {
    pub chip: String,
    pub sf: usize,
    pub bw: usize,
}

/// The rule, in exact rational arithmetic: on iff 2^SF / BW >= 16.38 ms.
/// `bw_num/bw_den` is the bandwidth in Hz.
fn rule(sf: u32, bw_num: u64, bw_den: u64) -> bool {
    // 2^sf / (bw_num/bw_den) >= 1638/100000  <=>  2^sf * bw_den * 100000 >= 1638 * bw_num
    (1u128 << sf) * bw_den as u128 * 100_000 >= 1638u128 * bw_num as u128
}

/// True LoRa bandwidths (the crate's `hz()` holds rounded nominal values).
fn true_bw(i: usize) -> (u64, u64) {
    match i {
        0 => (125_000, 16),
        1 => (125_000, 12),
        2 => (125_000, 8),
        3 => (125_000, 6),
        4 => (125_000, 4),
        5 => (125_000, 3),
        6 => (125_000, 2),
        7 => (125_000, 1),
        8 => (250_000, 1),
        _ => (500_000, 1),
    }
}

/// (decision in the params struct, bit actually written on SPI for every prior register value)
/// None = the chip rejects this pair.
fn observe(chip: &str, sf: usize, bw: usize) -> Result<Option<(bool, Vec<(u8, Option<bool>)>)>, String> {
    let (s, b) = (SFS[sf], BWS[bw]);
    if chip == "airtime" {
        return Ok(Some((BaseBandModulationParams::new(s, b, CodingRate::_4_5).ldro, vec![])));
    }
    let freq = 868_100_000;
    let mut out = vec![];
    let mut decision = None;
    for prior in 0..=255u8 {
        let env: Env = passive(move |_w, n| vec![prior; n]);
        let r: Result<Option<(ModulationParams, Vec<Txn>)>, String> = catch(|| {
            macro_rules! go {
                ($radio:expr) => {{
                    let mut radio = $radio;
                    match radio.create_modulation_params(s, b, CodingRate::_4_5, freq) {
                        Err(_) => None,
                        Ok(mp) => {
                            let r = drive(radio.set_modulation_params(&mp));
                            match r {
                                Some(Ok(())) => Some((mp, env.take_log())),
                                _ => None,
                            }
                        }
                    }
                }};
            }
            match chip {
                "sx1261" => go!(sx126x::Sx126x::new(env.spi(), env.iv(), sx126x::Config { chip: sx126x::Sx1261, tcxo_ctrl: None, use_dcdc: false, rx_boost: false })),
                "sx1262" => go!(sx126x::Sx126x::new(env.spi(), env.iv(), sx126x::Config { chip: sx126x::Sx1262, tcxo_ctrl: None, use_dcdc: false, rx_boost: false })),
                "stm32wl-lp" => go!(sx126x::Sx126x::new(env.spi(), env.iv(), sx126x::Config { chip: sx126x::Stm32wl { use_high_power_pa: false }, tcxo_ctrl: None, use_dcdc: true, rx_boost: false })),
                "stm32wl-hp" => go!(sx126x::Sx126x::new(env.spi(), env.iv(), sx126x::Config { chip: sx126x::Stm32wl { use_high_power_pa: true }, tcxo_ctrl: None, use_dcdc: true, rx_boost: false })),
                "sx1272" => go!(sx127x::Sx127x::new(env.spi(), env.iv(), sx127x::Config { chip: sx127x::Sx1272, tcxo_used: false, tx_boost: false, rx_boost: false })),
                "sx1276" => go!(sx127x::Sx127x::new(env.spi(), env.iv(), sx127x::Config { chip: sx127x::Sx1276, tcxo_used: false, tx_boost: false, rx_boost: false })),
                _ => go!(lr1110::Lr1110::new(
                    env.spi(),
                    env.iv(),
                    lr1110::Config { pa_selection: lr1110::PaSelection::Lp, dio_as_rf_switch: None, tcxo_ctrl: None, use_dcdc: false, rx_boost: false }
                )),
            }
        });
        let Some((mp, log)) = r? else { return Ok(None) };
        decision = Some(mp.low_data_rate_optimize != 0);
        // decode the bit the chip receives
        let bit = match chip {
            "sx1261" | "sx1262" | "stm32wl-lp" | "stm32wl-hp" => log.iter().rev().find(|t| t.w.first() == Some(&0x8B) && t.w.len() >= 5).map(|t| t.w[4] & 1 != 0),
            "sx1276" => log.iter().rev().find(|t| t.w.first() == Some(&(0x26 | 0x80)) && t.w.len() >= 2).map(|t| t.w[1] & 0x08 != 0),
            "sx1272" => log.iter().rev().find(|t| t.w.first() == Some(&(0x1D | 0x80)) && t.w.len() >= 2).map(|t| t.w[1] & 0x01 != 0),
            _ => log.iter().rev().find(|t| t.w.len() >= 6 && t.w[0] == 0x02 && t.w[1] == 0x0F).map(|t| t.w[5] & 1 != 0),
        };
        out.push((prior, bit));
        if !(chip == "sx1272" || chip == "sx1276") && prior >= 3 {
            break; // no read-modify-write on the LDRO carrier for command-based chips
        }
    }
    Ok(decision.map(|d| (d, out)))
}

/// SX127x: the LDRO bit shares its register with packet parameters (SX1272: RegModemConfig1). After the
/// usual sequence set_modulation_params -> set_packet_params the bit in the chip's register file must still
/// be the decision. Returns (prior register value, bit found) for every mismatch-relevant prior.
fn after_packet_params(chip: &str, sf: usize, bw: usize) -> Result<Option<(bool, Vec<(u8, bool)>)>, String> {
    use crate::chips::Sx127xChip;
    let (s, b) = (SFS[sf], BWS[bw]);
    let is72 = chip == "sx1272";
    let mut out = vec![];
    let mut decision = None;
    for (prior, combo) in (0..=255u8).flat_map(|p| (0..8u8).map(move |c| (p, c))) {
        let (implicit, crc_on, iq) = (combo & 1 != 0, combo & 2 == 0, combo & 4 != 0);
        let mut model = Sx127xChip::new(is72);
        model.regs[0x01] = 0x81;
        model.regs[if is72 { 0x1D } else { 0x26 }] = prior;
        let env = Env::new(Box::new(model));
        let r: Result<Option<bool>, String> = catch(|| {
            macro_rules! go {
                ($radio:expr) => {{
                    let mut radio = $radio;
                    match radio.create_modulation_params(s, b, CodingRate::_4_5, 868_100_000) {
                        Err(_) => None,
                        Ok(mp) => {
                            // implicit header for SF6 (the only form the chip supports there)
                            let pp = radio.create_packet_params(8, implicit || s == lora_modulation::SpreadingFactor::_6, 12, crc_on, iq, &mp);
                            match pp {
                                Err(_) => None,
                                Ok(pp) => {
                                    let a = drive(radio.set_modulation_params(&mp));
                                    let b2 = drive(radio.set_packet_params(&pp));
                                    if matches!((a, b2), (Some(Ok(())), Some(Ok(())))) { Some(mp.low_data_rate_optimize != 0) } else { None }
                                }
                            }
                        }
                    }
                }};
            }
            if is72 {
                go!(sx127x::Sx127x::new(env.spi(), env.iv(), sx127x::Config { chip: sx127x::Sx1272, tcxo_used: false, tx_boost: false, rx_boost: false }))
            } else {
                go!(sx127x::Sx127x::new(env.spi(), env.iv(), sx127x::Config { chip: sx127x::Sx1276, tcxo_used: false, tx_boost: false, rx_boost: false }))
            }
        });
        let Some(d) = r? else { return Ok(None) };
        decision = Some(d);
        let bit = env.with_chip::<Sx127xChip, _>(|c| if is72 { c.regs[0x1D] & 0x01 != 0 } else { c.regs[0x26] & 0x08 != 0 });
        out.push((prior, bit));
    }
    Ok(decision.map(|d| (d, out)))
}


// ------------------------------------------------------------------ sequences through the LoRa front-end
//
// The decision also has to reach the chip when the same driver instance has been used before: whatever was
// prepared, transmitted, received or listened for earlier, after a prepare_for_* call the chip holds the
// modulation (SF, BW, LDRO) a fresh driver programs for the same parameters.

/// ops: 0 prepare_for_tx, 1 prepare_for_rx(Single), 2 prepare_for_rx(Continuous), 3 prepare_for_cad;
/// middle: 0 nothing, 1 the operation runs to completion (tx / start_rx + complete_rx / cad),
/// 2 listen() on the same channel, 3 start_rx only (reception left running), 4 init() (the chip is reset and
/// loses its registers), 5 sleep(cold), 6 sleep(warm), 7 the operation completes, then init()
#[derive(Clone, Debug, Serialize, Deserialize)]
pub struct SeqCase {
    pub chip: String,
    pub first: (usize, usize),
    pub op1: u8,
    pub middle: u8,
    pub second: (usize, usize),
    pub op2: u8,
    /// packets without payload CRC (and inverted IQ on transmit)
    #[serde(default)]
    pub crc_off: bool,
    /// single step (`first`, `op1`): the chip's LDRO bit is compared with the decision itself
    #[serde(default)]
    pub against_rule: bool,
    /// the second preparation is first attempted with its `fault`-th environment call failing, then repeated
    #[serde(default)]
    pub fault: Option<usize>,
    /// with `fault`: the failed second preparation is NOT repeated; the application goes back to the first modulation
    /// (a third preparation, same operation as the first), which is what is judged
    #[serde(default)]
    pub abandon: bool,
}

/// (sf, bw code, ldro) as the chip holds them; None when a step of the sequence was refused / failed.
fn run_seq(chip: &str, steps: &[((usize, usize), u8, u8)], crc_off: bool) -> Result<Option<(u8, u8, bool)>, String> {
    run_seq_f(chip, steps, crc_off, None).map(|r| r.map(|x| x.0))
}

/// steps X, Y, X' on one driver instance: Y is attempted once with its `k`-th environment call failing and not repeated.
fn run_seq_abandon(chip: &str, steps: &[((usize, usize), u8, u8); 3], crc_off: bool, k: usize) -> Result<Option<(u8, u8, bool)>, String> {
    ABANDON.with(|a| a.set(true));
    let r = run_seq_f(chip, steps, crc_off, Some(k)).map(|r| r.map(|x| x.0));
    ABANDON.with(|a| a.set(false));
    r
}

thread_local! {
    static ABANDON: std::cell::Cell<bool> = const { std::cell::Cell::new(false) };
}

/// As `run_seq`; with `fault` the last preparation is attempted once with that environment call failing and then
/// repeated. Also returns the number of environment calls of the (first attempt of the) last preparation.
fn run_seq_f(chip: &str, steps: &[((usize, usize), u8, u8)], crc_off: bool, fault: Option<usize>) -> Result<Option<((u8, u8, bool), usize)>, String> {
    use crate::chips::{Sx126xChip, Sx127xChip};
    use lora_phy::{LoRa, RxMode};
    let is126 = chip == "sx1262";
    let is72 = chip == "sx1272";
    let env = if is126 { Env::new(Box::new(Sx126xChip::new())) } else { Env::new(Box::new(Sx127xChip::new(is72))) };
    let e2 = env.clone();
    let used_cell = std::rc::Rc::new(std::cell::Cell::new(0usize));
    let used = used_cell.clone();
    let ok = catch(move || -> Option<()> {
        let payload = [0x40u8, 1, 2, 3, 4, 5, 6, 7, 8, 9, 10, 11];
        macro_rules! go {
            ($rk:expr) => {{
                let mut l = drive(LoRa::new($rk, true, e2.delay()))?.ok()?;
                let nsteps = steps.len();
                for (si, &((sf, bw), op, middle)) in steps.iter().enumerate() {
                    let mp = l.create_modulation_params(SFS[sf], BWS[bw], CodingRate::_4_5, 868_100_000).ok()?;
                    let mut txp = l.create_tx_packet_params(8, false, !crc_off, crc_off, &mp).ok()?;
                    let rxp = l.create_rx_packet_params(8, false, 64, !crc_off, true, &mp).ok()?;
                    let mut buf = [0u8; 64];
                    let abandon = ABANDON.with(|a| a.get());
                    if abandon && si + 2 == nsteps && let Some(k) = fault {
                        // the one and only attempt of this step fails; the application moves on
                        let p0 = e2.0.borrow().pos;
                        e2.0.borrow_mut().fault_at = Some(p0 + k);
                        let _ = match op {
                            0 => drive(l.prepare_for_tx(&mp, &mut txp, 14, &payload)),
                            1 => drive(l.prepare_for_rx(RxMode::Single(10), &mp, &rxp)),
                            2 => drive(l.prepare_for_rx(RxMode::Continuous, &mp, &rxp)),
                            4 => drive(l.listen(868_100_000, BWS[bw])),
                            _ => drive(l.prepare_for_cad(&mp)),
                        };
                        used.set(e2.0.borrow().pos - p0);
                        e2.0.borrow_mut().fault_at = None;
                        continue;
                    }
                    if !abandon
                        && si + 1 == nsteps
                        && let Some(k) = fault
                    {
                        // first attempt with one failing environment call; whatever it returns, the application retries
                        let p0 = e2.0.borrow().pos;
                        e2.0.borrow_mut().fault_at = Some(p0 + k);
                        let _ = match op {
                            0 => drive(l.prepare_for_tx(&mp, &mut txp, 14, &payload)),
                            1 => drive(l.prepare_for_rx(RxMode::Single(10), &mp, &rxp)),
                            2 => drive(l.prepare_for_rx(RxMode::Continuous, &mp, &rxp)),
                            4 => drive(l.listen(868_100_000, BWS[bw])),
                            _ => drive(l.prepare_for_cad(&mp)),
                        };
                        used.set(e2.0.borrow().pos - p0);
                        e2.0.borrow_mut().fault_at = None;
                    }
                    match op {
                        0 => drive(l.prepare_for_tx(&mp, &mut txp, 14, &payload))?.ok()?,
                        1 => drive(l.prepare_for_rx(RxMode::Single(10), &mp, &rxp))?.ok()?,
                        2 => drive(l.prepare_for_rx(RxMode::Continuous, &mp, &rxp))?.ok()?,
                        4 => drive(l.listen(868_100_000, BWS[bw]))?.ok()?,
                        _ => drive(l.prepare_for_cad(&mp))?.ok()?,
                    }
                    match (middle, op) {
                        (1, 0) => drive(l.tx())?.ok()?,
                        (1, 1) | (1, 2) => {
                            drive(l.start_rx())?.ok()?;
                            drive(l.complete_rx(&rxp, &mut buf))?.ok()?;
                        }
                        (1, _) => {
                            drive(l.cad(&mp))?.ok()?;
                        }
                        (2, _) => {
                            drive(l.listen(868_100_000, BWS[bw]))?.ok()?;
                        }
                        (3, 1) | (3, 2) => drive(l.start_rx())?.ok()?,
                        (7, 0) => {
                            drive(l.tx())?.ok()?;
                            drive(l.init())?.ok()?;
                        }
                        (4, _) | (7, _) => drive(l.init())?.ok()?,
                        (5, _) => drive(l.sleep(false))?.ok()?,
                        (6, _) => drive(l.sleep(true))?.ok()?,
                        _ => {}
                    }
                }
                Some(())
            }};
        }
        if is126 {
            go!(sx126x::Sx126x::new(e2.spi(), e2.iv(), sx126x::Config { chip: sx126x::Sx1262, tcxo_ctrl: None, use_dcdc: true, rx_boost: false }))
        } else if is72 {
            go!(sx127x::Sx127x::new(e2.spi(), e2.iv(), sx127x::Config { chip: sx127x::Sx1272, tcxo_used: false, tx_boost: false, rx_boost: false }))
        } else {
            go!(sx127x::Sx127x::new(e2.spi(), e2.iv(), sx127x::Config { chip: sx127x::Sx1276, tcxo_used: false, tx_boost: false, rx_boost: false }))
        }
    })?;
    if ok.is_none() {
        return Ok(None);
    }
    let n_used = used_cell.get();
    Ok(Some((if is126 {
        env.with_chip::<Sx126xChip, _>(|c| (c.mod_params[0], c.mod_params[1], c.mod_params[3] & 1 != 0))
    } else {
        env.with_chip::<Sx127xChip, _>(|c| if is72 { (c.regs[0x1E] >> 4, c.regs[0x1D] >> 6, c.regs[0x1D] & 0x01 != 0) } else { (c.regs[0x1E] >> 4, c.regs[0x1D] >> 4, c.regs[0x26] & 0x08 != 0) })
    }, n_used)))
}

pub fn eval_seq(c: &SeqCase) -> Vec<(String, String)> {
    if c.against_rule {
        let chip = &c.chip;
        let (sf, bw) = c.first;
        return match run_seq(chip, &[((sf, bw), c.op1, 0)], c.crc_off) {
            Err(p) => vec![(format!("C15|{chip}|front-end|panic|{}", panic_site(&p)), p)],
            Ok(Some((_, _, ldro))) => {
                let want = BaseBandModulationParams::new(SFS[sf], BWS[bw], CodingRate::_4_5).ldro;
                if ldro != want {
                    vec![(
                        format!("C15|{chip}|front-end|chip-ldro-differs-from-decision"),
                        format!("{chip}: prepare op{} SF{}/{} Hz (crc_off {}): the chip holds LDRO {ldro}, the decision is {want}", c.op1, SFS[sf].factor(), BWS[bw].hz(), c.crc_off),
                    )]
                } else {
                    vec![]
                }
            }
            Ok(None) => vec![],
        };
    }
    if c.abandon && let Some(k) = c.fault {
        let tag = format!("{}|sequence-with-an-abandoned-attempt", c.chip);
        let seq = run_seq_abandon(&c.chip, &[(c.first, c.op1, c.middle), (c.second, c.op2, 0), (c.first, c.op1, 0)], c.crc_off, k);
        let alone = run_seq(&c.chip, &[(c.first, c.op1, 0)], c.crc_off);
        return match (seq, alone) {
            (Err(p), _) | (_, Err(p)) => vec![(format!("C15|{tag}|panic|{}", panic_site(&p)), p)],
            (Ok(Some(a)), Ok(Some(b))) if a != b => vec![(
                format!("C15|{tag}|chip-modulation-differs-from-fresh-driver|{}", if a.2 != b.2 { "ldro" } else { "spreading-factor-or-bandwidth" }),
                format!(
                    "op{} SF{}/{} Hz (middle {}), then op{} SF{}/{} Hz failing at environment call {k} and given up, then the first preparation again: the chip holds (SF, BW code, LDRO) = {a:?}; a fresh driver programs {b:?}",
                    c.op1, SFS[c.first.0].factor(), BWS[c.first.1].hz(), c.middle, c.op2, SFS[c.second.0].factor(), BWS[c.second.1].hz()
                ),
            )],
            _ => vec![],
        };
    }
    let tag = format!("{}|sequence{}", c.chip, if c.fault.is_some() { "-with-a-failed-attempt" } else { "" });
    let seq = run_seq_f(&c.chip, &[(c.first, c.op1, c.middle), (c.second, c.op2, 0)], c.crc_off, c.fault).map(|r| r.map(|x| x.0));
    let alone = run_seq(&c.chip, &[(c.second, c.op2, 0)], c.crc_off);
    match (seq, alone) {
        (Err(p), _) | (_, Err(p)) => vec![(format!("C15|{tag}|panic|{}", panic_site(&p)), p)],
        (Ok(Some(a)), Ok(Some(b))) if a != b => {
            let what = if a.2 != b.2 { "ldro" } else { "spreading-factor-or-bandwidth" };
            vec![(
                format!("C15|{tag}|chip-modulation-differs-from-fresh-driver|{what}"),
                format!(
                    "op{} SF{}/{} Hz, middle {}, then op{} SF{}/{} Hz: the chip holds (SF, BW code, LDRO) = {a:?}; a fresh driver programs {b:?}",
                    c.op1,
                    SFS[c.first.0].factor(),
                    BWS[c.first.1].hz(),
                    c.middle,
                    c.op2,
                    SFS[c.second.0].factor(),
                    BWS[c.second.1].hz()
                ),
            )]
        }
        _ => vec![],
    }
}

pub fn eval(c: &Case) -> Vec<(String, String)> {
    let mut v = vec![];
    let sf = SFS[c.sf].factor();
    let nominal = rule(sf, crate::checks::c16::NOMINAL_BW_HZ[c.bw] as u64, 1);
    let (tn, td) = true_bw(c.bw);
    let exact = rule(sf, tn, td);
    let tag = format!("{}|SF{}|BW{}", c.chip, sf, BWS[c.bw].hz());
    match observe(&c.chip, c.sf, c.bw) {
        Err(p) => v.push((format!("C15|{tag}|panic|{}", panic_site(&p)), p)),
        Ok(None) => {}
        Ok(Some((decision, bits))) => {
            if c.chip == "sx1272" || c.chip == "sx1276" {
                match after_packet_params(&c.chip, c.sf, c.bw) {
                    Err(p) => v.push((format!("C15|{tag}|panic|{}", panic_site(&p)), p)),
                    Ok(None) => {}
                    Ok(Some((d, regs))) => {
                        if let Some((prior, bit)) = regs.into_iter().find(|(_, bit)| *bit != d) {
                            v.push((
                                format!("C15|{tag}|register-bit-after-packet-params-differs-from-decision"),
                                format!("decision {d}, LDRO bit in the chip's register after set_modulation_params + set_packet_params: {bit} (register held {prior:#x} before)"),
                            ));
                        }
                    }
                }
            }
            if nominal == exact {
                if decision != exact {
                    v.push((
                        format!("C15|{tag}|decision"),
                        format!("symbol time 2^{sf}/{} Hz = {:.3} ms: LDRO must be {}, {} decides {}", BWS[c.bw].hz(), (1u64 << sf) as f64 * 1000.0 * td as f64 / tn as f64, exact, c.chip, decision),
                    ));
                }
            } else {
                // nominal and true bandwidth disagree about this pair: only mutual agreement is required
                let air = BaseBandModulationParams::new(SFS[c.sf], BWS[c.bw], CodingRate::_4_5).ldro;
                if decision != air {
                    v.push((format!("C15|{tag}|disagrees-with-airtime-calculator"), format!("{} decides {decision}, airtime calculator {air}", c.chip)));
                }
            }
            for (prior, bit) in bits {
                match bit {
                    None => v.push((format!("C15|{tag}|ldro-not-programmed"), format!("no LDRO-carrying write seen (prior register value {prior:#x})"))),
                    Some(b) if b != decision => v.push((format!("C15|{tag}|spi-bit-differs-from-decision"), format!("decision {decision}, bit written {b} (prior register value {prior:#x})"))),
                    _ => {}
                }
            }
        }
    }
    v
}

pub fn run(tier: Tier, replay: Option<&str>) {
    if let Some(path) = replay {
        let cj = load_case(path);
        if cj.get("op1").is_some() {
            let c: SeqCase = serde_json::from_value(cj).expect("case");
            replay_exit("C15", path, eval_seq(&c).into_iter().map(|x| x.0).collect());
        }
        let c: Case = serde_json::from_value(cj).expect("case");
        replay_exit("C15", path, eval(&c).into_iter().map(|x| x.0).collect());
    }
    let ctx = Ctx::new("C15", tier);
    let mut supported = 0u64;
    let mut on = 0u64;
    for chip in CHIPS {
        for sf in 0..8 {
            for bw in 0..10 {
                let c = Case { chip: chip.into(), sf, bw };
                if let Ok(Some((d, _))) = observe(chip, sf, bw) {
                    supported += 1;
                    if d {
                        on += 1;
                    }
                }
                for (sig, what) in eval(&c) {
                    ctx.violation(sig, what, serde_json::to_value(&c).unwrap(), 0);
                }
                ctx.tick(1);
            }
        }
    }
    // sequences on one driver instance (SF7/9/11/12 at 125 kHz, SF12 at 250 kHz: both sides of the LDRO boundary)
    let mods: [(usize, usize); 5] = [(2, 7), (4, 7), (6, 7), (7, 7), (7, 8)];
    let mut seq_cases = 0u64;
    let mut seq_effective = 0u64;
    for chip in ["sx1262", "sx1276", "sx1272"] {
        for &first in &mods {
            for &second in &mods {
                for op1 in 0..4u8 {
                    for middle in 0..8u8 {
                        if middle == 3 && !(op1 == 1 || op1 == 2) {
                            continue;
                        }
                        for op2 in 0..4u8 {
                            for crc_off in [false, true] {
                                if crc_off && !(middle == 0 || middle == 4) {
                                    continue;
                                }
                                let c = SeqCase { chip: chip.into(), first, op1, middle, second, op2, crc_off, against_rule: false, fault: None, abandon: false };
                                let v = eval_seq(&c);
                                seq_cases += 1;
                                if matches!(run_seq(chip, &[(first, op1, middle), (second, op2, 0)], crc_off), Ok(Some(_))) {
                                    seq_effective += 1;
                                }
                                for (sig, what) in v {
                                    ctx.violation(sig, what, serde_json::to_value(&c).unwrap(), 2);
                                }
                                ctx.tick(1);
                            }
                        }
                    }
                }
            }
        }
    }
    // a preparation that fails at one environment call and is repeated: the chip ends up as after a clean preparation
    for chip in ["sx1262", "sx1276", "sx1272"] {
        for &first in &[(2usize, 7usize), (7, 7)] {
            for &second in &[(2usize, 7usize), (6, 7), (7, 7)] {
                if first == second {
                    continue;
                }
                for op2 in [0u8, 1] {
                    let steps = [(first, 0u8, 1u8), (second, op2, 0u8)];
                    let n = match run_seq_f(chip, &steps, false, Some(1_000_000)) {
                        Ok(Some((_, n))) => n,
                        _ => 0,
                    };
                    for k in 0..n {
                        let c = SeqCase { chip: chip.into(), first, op1: 0, middle: 1, second, op2, crc_off: false, against_rule: false, fault: Some(k), abandon: false };
                        for (sig, what) in eval_seq(&c) {
                            ctx.violation(sig, what, serde_json::to_value(&c).unwrap(), 3);
                        }
                        seq_cases += 1;
                        seq_effective += 1;
                        ctx.tick(1);
                    }
                }
            }
        }
    }
    // a preparation with another modulation that fails at one environment call and is given up; the application then
    // prepares with the first modulation again (on a driver that compares with what it programmed last, the chip must
    // still end up with it)
    for chip in ["sx1262", "sx1276", "sx1272"] {
        for &first in &[(7usize, 7usize), (2, 7), (7, 9)] {
            for &second in &[(4usize, 7usize), (7, 9), (7, 7), (2, 7)] {
                if first == second {
                    continue;
                }
                for (op1, op2) in [(0u8, 1u8), (1, 0), (0, 0), (0, 4)] {
                    for middle in [0u8, 1] {
                        let steps = [(first, op1, middle), (second, op2, 0u8)];
                        let n = match run_seq_f(chip, &steps, false, Some(1_000_000)) {
                            Ok(Some((_, n))) => n,
                            _ => 0,
                        };
                        for k in 0..n {
                            let c = SeqCase { chip: chip.into(), first, op1, middle, second, op2, crc_off: false, against_rule: false, fault: Some(k), abandon: true };
                            for (sig, what) in eval_seq(&c) {
                                ctx.violation(sig, what, serde_json::to_value(&c).unwrap(), 4);
                            }
                            seq_cases += 1;
                            seq_effective += 1;
                            ctx.tick(1);
                        }
                    }
                }
            }
        }
    }
    // listen() programs a modulation of its own (SF7 at the given bandwidth): its LDRO bit is the decision's too
    for chip in ["sx1262", "sx1276", "sx1272"] {
        let sf7 = SFS.iter().position(|s| s.factor() == 7).unwrap();
        for bw in 0..10usize {
            let c = SeqCase { chip: chip.into(), first: (sf7, bw), op1: 4, middle: 0, second: (sf7, bw), op2: 4, crc_off: false, against_rule: true, fault: None, abandon: false };
            for (sig, what) in eval_seq(&c) {
                ctx.violation(sig, what, serde_json::to_value(&c).unwrap(), 1);
            }
            seq_cases += 1;
            ctx.tick(1);
        }
    }
    // the decision a fresh driver programs is itself the rule's: after every sequence above the chip was compared with
    // a fresh driver, and a fresh driver's LDRO bit with the rule here (through the LoRa front-end, CRC on and off)
    for chip in ["sx1262", "sx1276", "sx1272"] {
        for sf in 0..8usize {
            for bw in 0..10usize {
                for op in 0..4u8 {
                    for crc_off in [false, true] {
                        let c = SeqCase { chip: chip.into(), first: (sf, bw), op1: op, middle: 0, second: (sf, bw), op2: op, crc_off, against_rule: true, fault: None, abandon: false };
                        for (sig, what) in eval_seq(&c) {
                            ctx.violation(sig, what, serde_json::to_value(&c).unwrap(), 1);
                        }
                        ctx.tick(1);
                    }
                }
            }
        }
    }
    if seq_effective * 2 < seq_cases {
        eprintln!("MACHINERY: C15 sequence part is vacuous: {seq_effective} of {seq_cases} sequences ran to the end");
        std::process::exit(2);
    }
    let coverage = json!({
        "sequence_cases": seq_cases,
        "sequences_run_to_the_end": seq_effective,
        "evaluations": ctx.evals(),
        "distinct_nontrivial": supported,
        "rule": "all 8 spreading factors x 10 bandwidths x {airtime calculator, SX1261, SX1262, STM32WL LP/HP, SX1272, SX1276, LR1110}; for every pair the chip accepts: the decision in ModulationParams / BaseBandModulationParams and the LDRO bit actually written on SPI by set_modulation_params (for the register-based SX127x with all 256 prior values of the read-modify-write register) against the exact rational rule 2^SF/BW >= 16.38 ms; for the SX127x additionally the bit left in the chip model's register file after set_modulation_params -> set_packet_params for every combination of header mode, payload CRC and IQ inversion; every pair through the LoRa front-end (prepare_for_tx / rx / cad, CRC on and off): the chip's LDRO bit equals the decision; sequences through the LoRa front-end on one driver instance (SX1262, SX1276, SX1272 chip models): {prepare_for_tx, prepare_for_rx single/continuous, prepare_for_cad} with one modulation, {nothing, operation completed, listen(), reception left running, init() (chip reset), sleep cold / warm, completed then init()}, then a prepare_for_* with a second modulation (the same one included): the chip's SF/BW/LDRO must equal what a fresh driver programs; the same when the second preparation first fails at one of its environment calls (every position) and is repeated, and when it fails and is given up and the first preparation is made again; listen() at every bandwidth against the decision for SF7; non-trivial = pairs the chip supports",
        "samples": [serde_json::to_value(Case { chip: "sx1276".into(), sf: 6, bw: 7 }).unwrap(), serde_json::to_value(Case { chip: "sx1262".into(), sf: 7, bw: 6 }).unwrap()],
        "exhaustive": true,
        "pairs_supported": supported,
        "pairs_with_ldro_on": on,
    });
    let replayer = |cj: &Value| -> Vec<String> {
        if cj.get("op1").is_some() {
            let c: SeqCase = serde_json::from_value(cj.clone()).unwrap();
            return eval_seq(&c).into_iter().map(|x| x.0).collect();
        }
        let c: Case = serde_json::from_value(cj.clone()).unwrap();
        eval(&c).into_iter().map(|x| x.0).collect()
    };
    ctx.finish(
        "exploration",
        coverage,
        vec![
            "rule evaluated with the datasheet's nominal bandwidth values (own table) and with the true LoRa bandwidths; where the two disagree (SF8 / 15.6 kHz) only agreement with the airtime calculator is required".into(),
            "pairs a chip rejects in create_modulation_params are skipped for that chip".into(),
        ],
        Some(&replayer),
    );
}
