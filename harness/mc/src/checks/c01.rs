//! C01 — built frames are byte-exact LoRaWAN 1.0.x (input-space sweep vs independent codec).
use crate::checks::{load_case, replay_exit};
use crate::ctx::{Ctx, Tier, catch, hex, panic_site};
use crate::refcodec::{self, DataDesc, JoinAcceptDesc};
use lorawan::creator::{DataFrame, JoinAccept, JoinRequest, Payload};
use lorawan::default_crypto::{DefaultCrypto, DefaultNetworkCrypto};
use lorawan::keys::{AES128, Crypto};
use lorawan::parser::{CfList, DataFrameType, DevAddr, DevEui, DevNonce, Frequency, JoinEui, JoinNonce, NetId};
use lorawan::types::{ChannelMask, DLSettings};
use rayon::prelude::*;
use serde::{Deserialize, Serialize};
use serde_json::{Value, json};
use std::collections::HashSet;
use std::num::NonZeroU8;
use std::sync::Mutex;
use std::sync::atomic::{AtomicU64, Ordering};

pub const KEYS: [[u8; 16]; 5] = [
    [0; 16],
    [0xff; 16],
    [0x2b, 0x7e, 0x15, 0x16, 0x28, 0xae, 0xd2, 0xa6, 0xab, 0xf7, 0x15, 0x88, 0x09, 0xcf, 0x4f, 0x3c],
    [0x3c, 0x4f, 0xcf, 0x09, 0x88, 0x15, 0xf7, 0xab, 0xa6, 0xd2, 0xae, 0x28, 0x16, 0x15, 0x7e, 0x2b],
    [0x01, 0x23, 0x45, 0x67, 0x89, 0xab, 0xcd, 0xef, 0xfe, 0xdc, 0xba, 0x98, 0x76, 0x54, 0x32, 0x10],
];
/// (nwk index, app index) pairs: zero/zero, FF/FF, NIST/NIST-reversed, equal keys, distinct constants
pub const KEY_PAIRS: [(usize, usize); 5] = [(0, 0), (1, 1), (2, 3), (4, 4), (4, 2)];
pub const COUNTERS: [u32; 10] =
    [0, 1, 0xFFFF, 0x1_0000, 0x1_0001, 0x1_FFFF, 0x7FFF_FFFF, 0x8000_0000, 0xFFFF_FFFE, 0xFFFF_FFFF];
pub const ADDRS: [u32; 5] = [0x0102_0304, 0xFFFF_FFFF, 0, 1, 0x8000_0001];

#[derive(Clone, Debug, Serialize, Deserialize)]
pub struct DataCase {
    pub mtype: u8,
    pub devaddr: u32,
    pub adr: bool,
    pub adr_ack_req: bool,
    pub ack: bool,
    pub f_pending: bool,
    pub fcnt: u32,
    pub fopts_len: usize,
    /// 0 = none, 1 = Data(port), 2 = MacCommands
    pub kind: u8,
    pub port: u8,
    pub len: usize,
    /// 0 = zeros, 1 = 0xFF, 2 = position pattern
    pub content: u8,
    pub keypair: usize,
    /// 0 = DefaultCrypto, 1 = DefaultNetworkCrypto
    pub crypto: u8,
    /// 0 = exact, 1 = exact-1, 2 = 256 bytes+
    pub buf: u8,
    /// false = app key withheld (Data must then be refused)
    pub app_key: bool,
}

fn fill(content: u8, len: usize, salt: u8) -> Vec<u8> {
    (0..len)
        .map(|i| match content {
            0 => 0,
            1 => 0xff,
            _ => (i as u8).wrapping_mul(7).wrapping_add(salt),
        })
        .collect()
}

impl DataCase {
    pub fn desc(&self) -> DataDesc {
        let fopts = fill(2, self.fopts_len, 0xA0);
        let (fport, frm) = match self.kind {
            0 => (None, vec![]),
            1 => (Some(self.port), fill(self.content, self.len, 1)),
            _ => (Some(0), fill(self.content, self.len, 2)),
        };
        DataDesc {
            mtype: self.mtype,
            devaddr: self.devaddr,
            adr: self.adr,
            adr_ack_req: self.adr_ack_req,
            ack: self.ack,
            f_pending: self.f_pending,
            fcnt: self.fcnt,
            fopts,
            fport,
            frm,
        }
    }
}

pub fn ftype(m: u8) -> DataFrameType {
    match m {
        2 => DataFrameType::UnconfirmedUp,
        3 => DataFrameType::UnconfirmedDown,
        4 => DataFrameType::ConfirmedUp,
        _ => DataFrameType::ConfirmedDown,
    }
}

/// Builds with the implementation under test. Ok(bytes) or Err(debug string of the error).
fn impl_build<C: Crypto>(d: &DataDesc, nwk: &C, app: Option<&C>, bufsz: usize) -> Result<Vec<u8>, String> {
    let payload = match d.fport {
        None => Payload::None,
        Some(0) => Payload::MacCommands(&d.frm),
        Some(p) => Payload::Data { f_port: NonZeroU8::new(p).unwrap(), data: &d.frm },
    };
    let f = DataFrame {
        frame_type: ftype(d.mtype),
        dev_addr: DevAddr::from_value(d.devaddr),
        adr: d.adr,
        adr_ack_req: d.adr_ack_req,
        ack: d.ack,
        f_pending: d.f_pending,
        fcnt: d.fcnt,
        f_opts: &d.fopts,
        payload,
    };
    let mut buf = vec![0xEEu8; bufsz];
    match f.build_into(&mut buf, nwk, app) {
        Ok(b) => Ok(b.to_vec()),
        Err(e) => Err(format!("{e:?}")),
    }
}

fn region_of(d: &DataDesc, idx: usize, total: usize) -> String {
    let fhdr_end = 8 + d.fopts.len();
    if idx == 0 {
        "mhdr".into()
    } else if idx < 5 {
        "devaddr".into()
    } else if idx == 5 {
        "fctrl".into()
    } else if idx < 8 {
        "fcnt".into()
    } else if idx < fhdr_end {
        "fopts".into()
    } else if idx >= total - 4 {
        "mic".into()
    } else if idx == fhdr_end {
        "fport".into()
    } else {
        format!("frm-block{}", ((idx - fhdr_end - 1) / 16).min(2))
    }
}

pub fn eval_data(c: &DataCase) -> Vec<(String, String)> {
    let d = c.desc();
    let (ni, ai) = KEY_PAIRS[c.keypair];
    let (nwk, app) = (KEYS[ni], KEYS[ai]);
    let reference = refcodec::encode_data(&d, &nwk, &app);
    let exact = 1 + 7 + d.fopts.len() + d.fport.map_or(0, |_| 1) + d.frm.len() + 4;
    let bufsz = match c.buf {
        0 => exact,
        1 => exact - 1,
        _ => exact.max(256) + 3,
    };
    let got = catch(|| {
        if c.crypto == 0 {
            let n = DefaultCrypto::new(&AES128(nwk));
            let a = DefaultCrypto::new(&AES128(app));
            impl_build(&d, &n, if c.app_key { Some(&a) } else { None }, bufsz)
        } else {
            let n = DefaultNetworkCrypto::new(&AES128(nwk));
            let a = DefaultNetworkCrypto::new(&AES128(app));
            impl_build(&d, &n, if c.app_key { Some(&a) } else { None }, bufsz)
        }
    });
    let mut v = vec![];
    let got = match got {
        Err(p) => {
            v.push((format!("C01|data|panic|{}", panic_site(&p)), format!("build_into panicked: {p}")));
            return v;
        }
        Ok(g) => g,
    };
    let missing_key = c.kind == 1 && !c.app_key;
    // the reference says forbidden, or the call itself is unsatisfiable (buffer / key)
    let must_refuse = reference.is_err() || missing_key || c.buf == 1;
    match (&got, must_refuse) {
        (Ok(b), true) => {
            let why = if let Err(f) = &reference {
                format!("{f:?}")
            } else if missing_key {
                "MissingKey".into()
            } else {
                "BufferTooSmall".into()
            };
            v.push((format!("C01|data|built-forbidden|{why}"), format!("forbidden description yielded a frame {}", hex(b))));
        }
        (Err(e), false) => {
            v.push((format!("C01|data|refused-valid|{e}"), format!("valid description refused with {e}")));
        }
        (Ok(b), false) => {
            let r = reference.as_ref().unwrap();
            if b != r {
                let idx = b.iter().zip(r.iter()).position(|(x, y)| x != y).unwrap_or(b.len().min(r.len()));
                let reg = if b.len() != r.len() { "length".into() } else { region_of(&d, idx, r.len()) };
                v.push((
                    format!("C01|data|mismatch|{reg}"),
                    format!("byte {idx} differs: built {} reference {}", hex(b), hex(r)),
                ));
            }
        }
        (Err(_), true) => {}
    }
    v
}

// ---------------- JoinRequest / JoinAccept -----------------

#[derive(Clone, Debug, Serialize, Deserialize)]
pub struct JoinReqCase {
    pub join_eui: u64,
    pub dev_eui: u64,
    pub dev_nonce: u16,
    pub key: usize,
    pub crypto: u8,
    pub buf: u8,
}

pub fn eval_joinreq(c: &JoinReqCase) -> Vec<(String, String)> {
    let key = KEYS[c.key];
    let r = refcodec::encode_join_request(&c.join_eui.to_le_bytes(), &c.dev_eui.to_le_bytes(), c.dev_nonce, &key);
    let bufsz = match c.buf {
        0 => 23,
        1 => 22,
        _ => 64,
    };
    let got = catch(|| {
        let jr = JoinRequest {
            join_eui: JoinEui::from_value(c.join_eui),
            dev_eui: DevEui::from_value(c.dev_eui),
            dev_nonce: DevNonce::from_value(c.dev_nonce),
        };
        let mut buf = vec![0xEE; bufsz];
        let res = if c.crypto == 0 {
            jr.build_into(&mut buf, &DefaultCrypto::new(&AES128(key))).map(|b| b.to_vec())
        } else {
            jr.build_into(&mut buf, &DefaultNetworkCrypto::new(&AES128(key))).map(|b| b.to_vec())
        };
        res.map_err(|e| format!("{e:?}"))
    });
    let mut v = vec![];
    match got {
        Err(p) => v.push((format!("C01|joinreq|panic|{}", panic_site(&p)), p)),
        Ok(Ok(b)) => {
            if c.buf == 1 {
                v.push(("C01|joinreq|built-forbidden|BufferTooSmall".into(), hex(&b)));
            } else if b != r {
                let idx = b.iter().zip(r.iter()).position(|(x, y)| x != y).unwrap_or(0);
                let reg = match idx {
                    0 => "mhdr",
                    1..=8 => "joineui",
                    9..=16 => "deveui",
                    17..=18 => "devnonce",
                    _ => "mic",
                };
                v.push((format!("C01|joinreq|mismatch|{reg}"), format!("built {} reference {}", hex(&b), hex(&r))));
            }
        }
        Ok(Err(e)) => {
            if c.buf != 1 {
                v.push((format!("C01|joinreq|refused-valid|{e}"), e));
            }
        }
    }
    v
}

#[derive(Clone, Debug, Serialize, Deserialize)]
pub struct JoinAccCase {
    pub join_nonce: u32,
    pub net_id: u32,
    pub devaddr: u32,
    pub dl_settings: u8,
    pub rx_delay: u8,
    /// 0 none, 1 type-0 frequencies, 2 type-1 mask
    pub cf_kind: u8,
    pub cf_pat: u8,
    pub key: usize,
    pub buf: u8,
}

const FREQ_PATS: [[u32; 5]; 4] = [
    [0, 0, 0, 0, 0],
    [8671000, 8673000, 8675000, 8677000, 8679000],
    [0xFFFFFF, 0, 1, 0x800000, 0x00FFFF],
    [0x010203, 0x040506, 0x070809, 0x0A0B0C, 0x0D0E0F],
];
const MASK_PATS: [[u8; 9]; 4] = [
    [0; 9],
    [0xff; 9],
    [0x00, 0xff, 0, 0, 0, 0, 0, 0, 0x02],
    [1, 2, 3, 4, 5, 6, 7, 8, 9],
];

pub fn eval_joinacc(c: &JoinAccCase) -> Vec<(String, String)> {
    let key = KEYS[c.key];
    let (cf_raw, cf_impl): (Option<[u8; 16]>, Option<CfList>) = match c.cf_kind {
        0 => (None, None),
        1 => {
            let f = FREQ_PATS[c.cf_pat as usize % 4];
            let mut raw = [0u8; 16];
            let mut fr = [Frequency::default(); 5];
            for i in 0..5 {
                let le = f[i].to_le_bytes();
                raw[3 * i..3 * i + 3].copy_from_slice(&le[..3]);
                fr[i] = Frequency::from_wire_bytes([le[0], le[1], le[2]]);
            }
            raw[15] = 0;
            (Some(raw), Some(CfList::DynamicChannel(fr)))
        }
        _ => {
            let m = MASK_PATS[c.cf_pat as usize % 4];
            let mut raw = [0u8; 16];
            raw[..9].copy_from_slice(&m);
            raw[15] = 1;
            (Some(raw), Some(CfList::FixedChannel(ChannelMask::<9>::from(m))))
        }
    };
    let d = JoinAcceptDesc {
        join_nonce: c.join_nonce,
        net_id: c.net_id,
        devaddr: c.devaddr,
        dl_settings: c.dl_settings,
        // the RxDelay octet carries Del in its low nibble; the high nibble is RFU and must be 0
        rx_delay: c.rx_delay & 0x0f,
        cflist: cf_raw,
    };
    let r = refcodec::encode_join_accept(&d, &key);
    let exact = r.len();
    let bufsz = match c.buf {
        0 => exact,
        1 => exact - 1,
        _ => 255,
    };
    let got = catch(|| {
        let ja = JoinAccept {
            join_nonce: JoinNonce::from_value(c.join_nonce),
            net_id: NetId::from_value(c.net_id),
            dev_addr: DevAddr::from_value(c.devaddr),
            dl_settings: DLSettings::new(c.dl_settings),
            rx_delay: c.rx_delay,
            c_f_list: cf_impl.clone(),
        };
        let mut buf = vec![0xEE; bufsz];
        ja.build_into(&mut buf, &DefaultNetworkCrypto::new(&AES128(key))).map(|b| b.to_vec()).map_err(|e| format!("{e:?}"))
    });
    let mut v = vec![];
    match got {
        Err(p) => v.push((format!("C01|joinacc|panic|{}", panic_site(&p)), p)),
        Ok(Ok(b)) => {
            if c.buf == 1 {
                v.push(("C01|joinacc|built-forbidden|BufferTooSmall".into(), hex(&b)));
            } else if b != r {
                // locate the difference in the clear text (decrypt both with the reference)
                let pb = refcodec::decode_join_accept(&b, &key).map(|x| x.0).unwrap_or_default();
                let pr = refcodec::decode_join_accept(&r, &key).map(|x| x.0).unwrap_or_default();
                let idx = pb.iter().zip(pr.iter()).position(|(x, y)| x != y).unwrap_or(0);
                let reg = if pb.len() != pr.len() {
                    "length"
                } else {
                    match idx {
                        0 => "mhdr",
                        1..=3 => "joinnonce",
                        4..=6 => "netid",
                        7..=10 => "devaddr",
                        11 => "dlsettings",
                        12 => "rxdelay",
                        i if i >= pr.len() - 4 => "mic",
                        _ => "cflist",
                    }
                };
                v.push((format!("C01|joinacc|mismatch|{reg}"), format!("built {} reference {}", hex(&b), hex(&r))));
            }
        }
        Ok(Err(e)) => {
            // rx_delay > 15 is outside the field: refusing it is as acceptable as masking
            if c.buf != 1 && c.rx_delay <= 15 {
                v.push((format!("C01|joinacc|refused-valid|{e}"), e));
            }
        }
    }
    // the same description with its identifiers given in their conventional text form (MSB-first hex, as a network
    // server's configuration holds them): where the text form is accepted the frame is the same
    if c.buf == 2 && c.rx_delay <= 15 {
        use core::str::FromStr;
        let got2 = catch(|| {
            let (Ok(jn), Ok(ni), Ok(da)) = (
                JoinNonce::from_str(&format!("{:06x}", c.join_nonce & 0xFF_FFFF)),
                NetId::from_str(&format!("{:06x}", c.net_id & 0xFF_FFFF)),
                DevAddr::from_str(&format!("{:08x}", c.devaddr)),
            ) else {
                return None;
            };
            let ja = JoinAccept { join_nonce: jn, net_id: ni, dev_addr: da, dl_settings: DLSettings::new(c.dl_settings), rx_delay: c.rx_delay, c_f_list: cf_impl.clone() };
            let mut buf = vec![0xEE; 255];
            ja.build_into(&mut buf, &DefaultNetworkCrypto::new(&AES128(key))).map(|b| b.to_vec()).ok()
        });
        match got2 {
            Err(p) => v.push((format!("C01|joinacc|panic|text-form|{}", panic_site(&p)), p)),
            Ok(Some(b)) if b != r => v.push(("C01|joinacc|mismatch|identifiers-from-text-form".into(), format!("built {} reference {}", hex(&b), hex(&r)))),
            _ => {}
        }
    }
    v
}

#[derive(Clone, Debug, Serialize, Deserialize)]
#[serde(tag = "t")]
pub enum Case {
    Data(DataCase),
    JoinReq(JoinReqCase),
    JoinAcc(JoinAccCase),
}

pub fn eval(c: &Case) -> Vec<(String, String)> {
    match c {
        Case::Data(d) => eval_data(d),
        Case::JoinReq(d) => eval_joinreq(d),
        Case::JoinAcc(d) => eval_joinacc(d),
    }
}

pub fn run(tier: Tier, replay: Option<&str>) {
    if let Some(path) = replay {
        let c: Case = serde_json::from_value(load_case(path)).expect("bad case");
        replay_exit("C01", path, eval(&c).into_iter().map(|x| x.0).collect());
    }
    let ctx = Ctx::new("C01", tier);
    let th = tier.thorough();
    let nontrivial = AtomicU64::new(0);
    let outcomes: Mutex<HashSet<&'static str>> = Mutex::new(HashSet::new());
    let record = |c: Case, weight: usize| {
        let v = eval(&c);
        for (sig, what) in v {
            ctx.violation(sig, what, serde_json::to_value(&c).unwrap(), weight);
        }
    };

    // ---- A: header product ----
    let lens_a: &[usize] = if th { &[0, 1, 15, 16, 17, 242] } else { &[0, 1, 17] };
    let ctr_a: &[u32] = if th { &[0, 0x1_FFFF, 0xFFFF_FFFF] } else { &[0x1_FFFF] };
    let addr_a: &[u32] = if th { &ADDRS[..2] } else { &ADDRS[..1] };
    let kp_a: &[usize] = if th { &[2, 4] } else { &[2] };
    // payload kinds: none, Data ports {1,2,223,224,255}, MacCommands
    let kinds: [(u8, u8); 7] = [(0, 0), (1, 1), (1, 2), (1, 223), (1, 224), (1, 255), (2, 0)];
    let mut groups_a = vec![];
    for mtype in 2..=5u8 {
        for flags in 0..16u8 {
            // (forbidden lengths beyond 17: around the points where a length kept in 4, 5 or 8 bits would wrap)
            for fol in (0..=17usize).chain([31, 32, 33, 255, 256, 257, 263, 270, 271, 272, 300, 511, 512, 527]) {
                groups_a.push((mtype, flags, fol));
            }
        }
    }
    groups_a.par_iter().for_each(|&(mtype, flags, fol)| {
        let mut n = 0;
        let mut nt = 0;
        for &(kind, port) in &kinds {
            for &len in lens_a {
                if kind == 0 && len != lens_a[0] {
                    continue;
                }
                for &fcnt in ctr_a {
                    for &devaddr in addr_a {
                        for &kp in kp_a {
                            for crypto in 0..2u8 {
                                for buf in 0..3u8 {
                                    for app_key in [true, false] {
                                        if !app_key && (buf != 0 || crypto != 0) {
                                            continue;
                                        }
                                        let c = DataCase {
                                            mtype,
                                            devaddr,
                                            adr: flags & 1 != 0,
                                            adr_ack_req: flags & 2 != 0,
                                            ack: flags & 4 != 0,
                                            f_pending: flags & 8 != 0,
                                            fcnt,
                                            fopts_len: fol,
                                            kind,
                                            port,
                                            len: if kind == 0 { 0 } else { len },
                                            content: 2,
                                            keypair: kp,
                                            crypto,
                                            buf,
                                            app_key,
                                        };
                                        if fol <= 15 && buf != 1 && app_key && !(kind == 2 && fol > 0) {
                                            nt += 1;
                                        }
                                        record(Case::Data(c), len + fol);
                                        n += 1;
                                    }
                                }
                            }
                        }
                    }
                }
            }
        }
        ctx.tick(n);
        nontrivial.fetch_add(nt, Ordering::Relaxed);
    });
    outcomes.lock().unwrap().insert("header-product");

    // ---- B: every payload length ----
    let ctr_b: &[u32] = if th { &COUNTERS } else { &[0, 0xFFFF, 0x1_0000, 0xFFFF_FFFF] };
    let addr_b: &[u32] = if th { &ADDRS } else { &ADDRS[..2] };
    let kp_b: &[usize] = if th { &[0, 1, 2, 3, 4] } else { &[2, 3] };
    let contents: &[u8] = if th { &[0, 1, 2] } else { &[0, 2] };
    let lens: Vec<usize> = (0..=242).collect();
    lens.par_iter().for_each(|&len| {
        let mut n = 0;
        for fol in [0usize, 1, 15] {
            for mtype in 2..=5u8 {
                for &(kind, port) in &[(1u8, 1u8), (2, 0), (1, 224)] {
                    if kind == 2 && fol > 0 {
                        continue;
                    }
                    for &fcnt in ctr_b {
                        for &devaddr in addr_b {
                            for &kp in kp_b {
                                for &content in contents {
                                    for crypto in 0..2u8 {
                                        for flags in [0u8, 0b0101] {
                                            let c = DataCase {
                                                mtype,
                                                devaddr,
                                                adr: flags & 1 != 0,
                                                adr_ack_req: flags & 2 != 0,
                                                ack: flags & 4 != 0,
                                                f_pending: flags & 8 != 0,
                                                fcnt,
                                                fopts_len: fol,
                                                kind,
                                                port,
                                                len,
                                                content,
                                                keypair: kp,
                                                crypto,
                                                buf: 2,
                                                app_key: true,
                                            };
                                            record(Case::Data(c), len + fol);
                                            n += 1;
                                        }
                                    }
                                }
                            }
                        }
                    }
                }
            }
        }
        ctx.tick(n);
        nontrivial.fetch_add(n, Ordering::Relaxed);
    });

    // ---- JoinRequest: all 2^16 DevNonce ----
    let euis: &[u64] = if th { &[0, u64::MAX, 0x0102_0304_0506_0708, 0x8000_0000_0000_0001] } else { &[0x0102_0304_0506_0708] };
    let nonces: Vec<u32> = (0..=0xFFFFu32).collect();
    nonces.par_chunks(1024).for_each(|chunk| {
        let mut n = 0;
        for &dn in chunk {
            for &je in euis {
                for &de in euis {
                    for key in if th { vec![0usize, 2, 4] } else { vec![2] } {
                        for crypto in 0..2u8 {
                            for buf in 0..3u8 {
                                if buf != 2 && dn & 0xff != 0 {
                                    continue;
                                }
                                let c = JoinReqCase { join_eui: je, dev_eui: de.rotate_left(8), dev_nonce: dn as u16, key, crypto, buf };
                                record(Case::JoinReq(c), 0);
                                n += 1;
                            }
                        }
                    }
                }
            }
        }
        ctx.tick(n);
        nontrivial.fetch_add(n, Ordering::Relaxed);
    });

    // ---- JoinAccept: all 256 DLSettings x RxDelay x CFList ----
    let b24: &[u32] = if th { &[0, 1, 0x010203, 0xFFFFFF] } else { &[0x010203] };
    let addrs: &[u32] = if th { &ADDRS } else { &ADDRS[..2] };
    let delays: Vec<u8> = if th { (0..=255).collect() } else { (0..=16).chain([255]).collect() };
    let dls: Vec<u8> = (0..=255).collect();
    dls.par_iter().for_each(|&dl| {
        let mut n = 0;
        for &rx_delay in &delays {
            for (cf_kind, cf_pat) in [(0u8, 0u8), (1, 0), (1, 1), (1, 2), (1, 3), (2, 0), (2, 1), (2, 2), (2, 3)] {
                for &jn in b24 {
                    for &ni in b24 {
                        for &da in addrs {
                            for key in if th { vec![0usize, 2, 4] } else { vec![2] } {
                                for buf in 0..3u8 {
                                    if buf != 0 && (rx_delay > 1 || dl & 0x0f != 0) {
                                        continue;
                                    }
                                    let c = JoinAccCase {
                                        join_nonce: jn,
                                        net_id: ni.rotate_left(8) & 0xFFFFFF,
                                        devaddr: da,
                                        dl_settings: dl,
                                        rx_delay,
                                        cf_kind,
                                        cf_pat,
                                        key,
                                        buf,
                                    };
                                    record(Case::JoinAcc(c), 0);
                                    n += 1;
                                }
                            }
                        }
                    }
                }
            }
        }
        ctx.tick(n);
        nontrivial.fetch_add(n, Ordering::Relaxed);
    });

    let samples = vec![
        serde_json::to_value(Case::Data(DataCase {
            mtype: 2, devaddr: ADDRS[0], adr: true, adr_ack_req: false, ack: true, f_pending: false, fcnt: 0x1_FFFF,
            fopts_len: 15, kind: 1, port: 224, len: 17, content: 2, keypair: 2, crypto: 0, buf: 0, app_key: true,
        })).unwrap(),
        serde_json::to_value(Case::Data(DataCase {
            mtype: 5, devaddr: ADDRS[1], adr: false, adr_ack_req: false, ack: false, f_pending: true, fcnt: 0xFFFF_FFFF,
            fopts_len: 16, kind: 2, port: 0, len: 242, content: 0, keypair: 4, crypto: 1, buf: 2, app_key: true,
        })).unwrap(),
        serde_json::to_value(Case::JoinReq(JoinReqCase { join_eui: 0x0102030405060708, dev_eui: 1, dev_nonce: 0xFFFF, key: 2, crypto: 0, buf: 0 })).unwrap(),
        serde_json::to_value(Case::JoinAcc(JoinAccCase { join_nonce: 0x010203, net_id: 0x020301, devaddr: ADDRS[0], dl_settings: 0xFF, rx_delay: 15, cf_kind: 2, cf_pat: 2, key: 2, buf: 0 })).unwrap(),
    ];
    let coverage = json!({
        "evaluations": ctx.evals(),
        "distinct_nontrivial": nontrivial.load(Ordering::Relaxed),
        "rule": "JoinAccepts are also built from identifiers given in their MSB-first text form (FromStr); four full cartesian sub-products, each tuple a distinct frame description: (A) MType(4) x 16 flag combinations x FOpts length 0..=17 and forbidden lengths up to 527 (31..33, 255..257, 263, 270..272, 300, 511, 512, 527) x payload kind(7: none / Data ports 1,2,223,224,255 / MacCommands) x boundary lengths x counters x addresses x key pairs x crypto variant(2) x buffer size(exact, exact-1, large) x app key present/withheld; (B) every payload length 0..=242 x FOpts {0,1,15} x MType x kind(3) x counters x addresses x key pairs x contents x crypto variant; (C) JoinRequest: all 65536 DevNonce x EUI patterns x keys x crypto x buffer; (D) JoinAccept: all 256 DLSettings x RxDelay set x 9 CFList variants x nonce/netid/addr boundary sets x keys x buffer. non-trivial = description that must yield a frame (compared byte for byte); the rest must be refused",
        "samples": samples,
        "exhaustive": true,
        "sub_products": ["header", "length", "joinrequest", "joinaccept"],
    });
    let replayer = |cj: &Value| -> Vec<String> {
        let c: Case = serde_json::from_value(cj.clone()).unwrap();
        eval(&c).into_iter().map(|x| x.0).collect()
    };
    ctx.finish(
        "exploration",
        coverage,
        vec![
            "reference encoder = /verif/harness/mc/src/refcodec.rs over refcrypto.rs (self-tested against FIPS-197, SP800-38A, RFC 4493 at start-up)".into(),
            "keys, addresses and payload contents are drawn from fixed alphabets; the builders have no value-dependent branch on them (argued, not checked)".into(),
            "JoinAccept RxDelay values above 15 may be masked to the low nibble or refused".into(),
        ],
        Some(&replayer),
    );
}
