//! C18 — reading a received packet never overruns the caller's buffer.
//! The chip model answers every reported length x offset x status; the real drivers fetch the
//! packet through LoRa::rx / get_rx_result and through the LoRaWAN radio adapter.
use crate::adev::drive;
use crate::checks::{load_case, replay_exit};
use crate::chips::{Outcome, Sx126xChip, Sx127xChip};
use crate::ctx::{Ctx, Tier, catch, panic_site};
use crate::phy::Env;
use lora_modulation::{Bandwidth, BaseBandModulationParams, CodingRate, SpreadingFactor};
use lora_phy::mod_params::{PacketParams, RadioError};
use lora_phy::mod_traits::RadioKind;
use lora_phy::lorawan_radio::LorawanRadio;
use lora_phy::{LoRa, RxMode, sx126x, sx127x};
use lorawan_device::async_device::radio::{PhyRxTx, RfConfig, RxConfig, RxMode as LwRxMode, RxStatus};
use rayon::prelude::*;
use serde::{Deserialize, Serialize};
use serde_json::{Value, json};
use std::sync::atomic::{AtomicU64, Ordering};

pub const BUFS: [usize; 6] = [0, 1, 12, 64, 255, 256];
const CANARY: u8 = 0xC5;

#[derive(Clone, Debug, Serialize, Deserialize)]
pub struct Group {
    /// "sx1262", "sx1276", "sx1272"
    pub chip: String,
    /// "rx", "get_rx_result", "adapter-single", "adapter-continuous"
    pub path: String,
    pub buf: usize,
    /// None = explicit header, Some(n) = implicit header with configured length n
    pub implicit: Option<u8>,
    pub continuous: bool,
    /// explicit header: the maximum payload length configured in the packet parameters (None = 255)
    #[serde(default)]
    pub max_len: Option<u8>,
}

#[derive(Clone, Debug, Serialize, Deserialize)]
pub struct Case {
    pub group: Group,
    pub len: u8,
    pub off: u8,
    /// SX126x command status 0..7 ; SX127x: 0 = done, 1 = CRC error
    pub status: u8,
    /// SX126x, continuous reception: the status is reported by GetPacketStatus only (the payload has been copied by
    /// then) and a second packet of this length arrives next
    #[serde(default)]
    pub second: Option<u8>,
}

fn chip_byte(i: usize) -> u8 {
    (i as u8).wrapping_mul(7).wrapping_add(3)
}

enum Rig {
    L126(Box<LoRa<sx126x::Sx126x<crate::phy::MockSpi, crate::phy::MockIv, sx126x::Sx1262>, crate::phy::MockDelay>>),
    L127a(Box<LoRa<sx127x::Sx127x<crate::phy::MockSpi, crate::phy::MockIv, sx127x::Sx1276>, crate::phy::MockDelay>>),
    L127b(Box<LoRa<sx127x::Sx127x<crate::phy::MockSpi, crate::phy::MockIv, sx127x::Sx1272>, crate::phy::MockDelay>>),
    A126(Box<LorawanRadio<sx126x::Sx126x<crate::phy::MockSpi, crate::phy::MockIv, sx126x::Sx1262>, crate::phy::MockDelay, 22>>),
    A127a(Box<LorawanRadio<sx127x::Sx127x<crate::phy::MockSpi, crate::phy::MockIv, sx127x::Sx1276>, crate::phy::MockDelay, 14>>),
    A127b(Box<LorawanRadio<sx127x::Sx127x<crate::phy::MockSpi, crate::phy::MockIv, sx127x::Sx1272>, crate::phy::MockDelay, 14>>),
}

struct Session {
    env: Env,
    rig: Rig,
    pp: Option<PacketParams>,
    g: Group,
}

fn build(g: &Group) -> Result<Session, String> {
    let is126 = g.chip == "sx1262";
    let env = if is126 { Env::new(Box::new(Sx126xChip::new())) } else { Env::new(Box::new(Sx127xChip::new(g.chip == "sx1272"))) };
    let adapter = g.path.starts_with("adapter");
    macro_rules! mk {
        ($rk:expr, $l:ident, $a:ident) => {{
            let lora = drive(LoRa::new($rk, false, env.delay())).ok_or("init pending")?.map_err(|e| format!("init: {e:?}"))?;
            if adapter { Rig::$a(Box::new(lora.into())) } else { Rig::$l(Box::new(lora)) }
        }};
    }
    let rig = match g.chip.as_str() {
        "sx1262" => mk!(sx126x::Sx126x::new(env.spi(), env.iv(), sx126x::Config { chip: sx126x::Sx1262, tcxo_ctrl: None, use_dcdc: false, rx_boost: false }), L126, A126),
        "sx1276" => mk!(sx127x::Sx127x::new(env.spi(), env.iv(), sx127x::Config { chip: sx127x::Sx1276, tcxo_used: false, tx_boost: false, rx_boost: false }), L127a, A127a),
        _ => mk!(sx127x::Sx127x::new(env.spi(), env.iv(), sx127x::Config { chip: sx127x::Sx1272, tcxo_used: false, tx_boost: false, rx_boost: false }), L127b, A127b),
    };
    let mut s = Session { env, rig, pp: None, g: g.clone() };
    prepare(&mut s)?;
    Ok(s)
}

fn prepare(s: &mut Session) -> Result<(), String> {
    let (sf, bw, cr, f) = (SpreadingFactor::_7, Bandwidth::_125KHz, CodingRate::_4_5, 868_100_000u32);
    let mode = if s.g.continuous { RxMode::Continuous } else { RxMode::Single(20) };
    macro_rules! prep {
        ($l:expr) => {{
            let mp = $l.create_modulation_params(sf, bw, cr, f).map_err(|e| format!("{e:?}"))?;
            let pp = $l.create_rx_packet_params(8, s.g.implicit.is_some(), s.g.implicit.or(s.g.max_len).unwrap_or(255), true, true, &mp).map_err(|e| format!("{e:?}"))?;
            drive($l.prepare_for_rx(mode, &mp, &pp)).ok_or("prepare pending")?.map_err(|e| format!("prepare: {e:?}"))?;
            s.pp = Some(pp);
        }};
    }
    macro_rules! prepa {
        ($a:expr) => {{
            let cfg = RxConfig {
                rf: RfConfig { frequency: f, bb: BaseBandModulationParams::new(sf, bw, cr), max_payload_len: 250 },
                mode: if s.g.continuous { LwRxMode::Continuous } else { LwRxMode::Single { ms: 10 } },
            };
            drive($a.setup_rx(cfg)).ok_or("setup_rx pending")?.map_err(|e| format!("setup_rx: {e:?}"))?;
        }};
    }
    match &mut s.rig {
        Rig::L126(l) => prep!(l),
        Rig::L127a(l) => prep!(l),
        Rig::L127b(l) => prep!(l),
        Rig::A126(a) => prepa!(a),
        Rig::A127a(a) => prepa!(a),
        Rig::A127b(a) => prepa!(a),
    }
    Ok(())
}

/// Runs one reception on a prepared session. Returns violations and whether a packet was returned.
fn run_one(s: &mut Session, len: u8, off: u8, status: u8, second: Option<u8>) -> (Vec<(String, String)>, bool) {
    let is126 = s.g.chip == "sx1262";
    // script the chip
    if is126 {
        s.env.with_chip::<Sx126xChip, _>(|c| {
            c.rx_len = len;
            c.rx_off = off;
            c.cmd_status = status;
            c.status_only_op = second.map(|_| 0x14);
            c.rx_len_next = second;
            c.outcome = Outcome::Done;
            c.irq = 0;
            for i in 0..256 {
                c.buffer[i] = chip_byte(i);
            }
        });
    } else {
        s.env.with_chip::<Sx127xChip, _>(|c| {
            c.rx_len = len;
            c.rx_off = off;
            c.outcome = if status == 0 { Outcome::Done } else { Outcome::CrcError };
            c.regs[0x12] = 0;
            for i in 0..256 {
                c.fifo[i] = chip_byte(i);
            }
        });
    }
    let mut backing = vec![CANARY; s.g.buf + 8];
    let n = s.g.buf;
    let path = s.g.path.clone();
    let pp = s.pp.take();
    {
        let mut g = s.env.0.borrow_mut();
        g.budget_end = Some(g.pos + 4000);
    }
    let res: Result<Result<(usize, bool), String>, String> = catch(|| {
        let buf = &mut backing[4..4 + n];
        macro_rules! direct {
            ($l:expr) => {{
                let p = pp.as_ref().unwrap();
                if path == "get_rx_result" {
                    match drive($l.start_rx()) {
                        Some(Ok(())) => {}
                        other => return Err(format!("start_rx: {:?}", other.map(|r| r.err()))),
                    }
                    match drive($l.get_rx_result(p, buf)) {
                        Some(Ok((l, _))) => Ok((l as usize, true)),
                        Some(Err(e)) => Err(format!("{e:?}")),
                        None => Err("pending".into()),
                    }
                } else {
                    match drive($l.rx(p, buf)) {
                        Some(Ok((l, _))) => Ok((l as usize, true)),
                        Some(Err(e)) => Err(format!("{e:?}")),
                        None => Err("pending".into()),
                    }
                }
            }};
        }
        macro_rules! adapt {
            ($a:expr) => {{
                if path == "adapter-continuous" {
                    match drive($a.rx_continuous(buf)) {
                        Some(Ok((l, _))) => Ok((l, true)),
                        Some(Err(e)) => Err(format!("{e:?}")),
                        None => Err("pending".into()),
                    }
                } else {
                    match drive($a.rx_single(buf)) {
                        Some(Ok(RxStatus::Rx(l, _))) => Ok((l, true)),
                        Some(Ok(RxStatus::RxTimeout)) => Err("timeout".into()),
                        Some(Err(e)) => Err(format!("{e:?}")),
                        None => Err("pending".into()),
                    }
                }
            }};
        }
        match &mut s.rig {
            Rig::L126(l) => direct!(l),
            Rig::L127a(l) => direct!(l),
            Rig::L127b(l) => direct!(l),
            Rig::A126(a) => adapt!(a),
            Rig::A127a(a) => adapt!(a),
            Rig::A127b(a) => adapt!(a),
        }
    });
    s.pp = pp;
    s.env.0.borrow_mut().budget_end = None;
    if is126 {
        s.env.with_chip::<Sx126xChip, _>(|c| {
            c.status_only_op = None;
            c.rx_len_next = None;
        });
    }
    let tag = format!("{}|{}|{}", s.g.chip, s.g.path, if s.g.implicit.is_some() { "implicit" } else { "explicit" });
    let mut v = vec![];
    let mut got = false;
    match res {
        Err(p) if p.contains("does not return") => v.push((format!("C18|{tag}|fetch-does-not-return"), format!("len {len} off {off} status {status} second {second:?} buffer {n}: more than 4000 environment calls without returning a packet or an error"))),
        Err(p) => v.push((format!("C18|{tag}|panic|{}", panic_site(&p)), format!("len {len} off {off} status {status} buffer {n}: {p}"))),
        Ok(Err(_e)) => {}
        Ok(Ok((l, _))) => {
            got = true;
            // the length the chip's state defines (whether a packet may be returned despite an error status is not
            // part of the property: with a second packet either one may come back, complete and alone)
            let len = match second {
                Some(l2) if l == l2 as usize => l2,
                _ => len,
            };
            let want = match s.g.implicit {
                None => len as usize,
                Some(cfg) => {
                    if s.g.path.starts_with("adapter") { 255 } else { cfg as usize }
                }
            };
            if l > n {
                v.push((format!("C18|{tag}|returned-length-exceeds-buffer"), format!("returned {l} for a {n}-byte buffer (chip reports len {len} off {off})")));
            } else {
                if l != want {
                    v.push((format!("C18|{tag}|wrong-length"), format!("returned {l}, chip defines {want} (reported len {len}, off {off}, buffer {n})")));
                }
                let data = &backing[4..4 + l];
                if let Some(i) = (0..l).find(|i| data[*i] != chip_byte((off as usize + i) % 256)) {
                    v.push((format!("C18|{tag}|wrong-bytes"), format!("byte {i} is {:#x}, chip buffer at {} holds {:#x} (len {len} off {off})", data[i], (off as usize + i) % 256, chip_byte((off as usize + i) % 256))));
                }
                if backing[..4].iter().chain(backing[4 + l..].iter()).any(|b| *b != CANARY) {
                    v.push((format!("C18|{tag}|buffer-touched-beyond-packet"), format!("len {len} off {off} returned {l} buffer {n}")));
                }
            }
        }
    }
    (v, got)
}


/// A fetch that fails part-way (an SPI fault at the k-th transaction of get_rx_result) and is retried: the
/// retry must again return the chip-defined bytes, or fail. Returns (violations, transactions of one fetch).
#[derive(Clone, Debug, Serialize, Deserialize)]
pub struct RetryCase {
    pub chip: String,
    pub len: u8,
    pub off: u8,
    /// None: probe run without a fault
    pub fault_at: Option<usize>,
    /// the running reception uses implicit headers of this length (None: explicit headers)
    #[serde(default)]
    pub run_implicit: Option<u8>,
    /// before the fetch, a preparation with the *other* header mode is attempted and fails at this environment
    /// call of its own (0 = its first chip access); the running reception's packets are still fetched by its own rules
    #[serde(default)]
    pub stale_prepare_fault: Option<usize>,
}

fn eval_retry(c: &RetryCase) -> (Vec<(String, String)>, usize) {
    let g = Group { chip: c.chip.clone(), path: "get_rx_result".into(), buf: 64, implicit: c.run_implicit, continuous: true, max_len: None };
    let mut s = match build(&g) {
        Ok(s) => s,
        Err(e) => return (vec![(format!("C18|{}|setup-failed", c.chip), e)], 0),
    };
    let is126 = c.chip == "sx1262";
    if is126 {
        s.env.with_chip::<Sx126xChip, _>(|ch| {
            ch.rx_len = c.len;
            ch.rx_off = c.off;
            ch.cmd_status = 2;
            ch.outcome = Outcome::Done;
            ch.irq = 0;
            for i in 0..256 {
                ch.buffer[i] = chip_byte(i);
            }
        });
    } else {
        s.env.with_chip::<Sx127xChip, _>(|ch| {
            ch.rx_len = c.len;
            ch.rx_off = c.off;
            ch.outcome = Outcome::Done;
            ch.regs[0x12] = 0;
            for i in 0..256 {
                ch.fifo[i] = chip_byte(i);
            }
        });
    }
    let pp = s.pp.take().unwrap();
    let env = s.env.clone();
    let tag = format!("{}|get_rx_result|{}", c.chip, if c.stale_prepare_fault.is_some() { "after-a-failed-preparation-with-the-other-header-mode" } else { "retry-after-fault" });
    let fault = c.fault_at;
    let stale = c.stale_prepare_fault;
    let run_implicit = c.run_implicit;
    // the length the running reception's rules define
    let (len, off) = (run_implicit.unwrap_or(c.len), c.off);
    let r = catch(|| {
        let mut v: Vec<(String, String)> = vec![];
        let mut consumed = 0usize;
        macro_rules! go {
            ($l:expr) => {{
                if !matches!(drive($l.start_rx()), Some(Ok(()))) {
                    return (v, 0);
                }
                if let Some(k) = stale {
                    let (sf, bw, cr, f) = (SpreadingFactor::_7, Bandwidth::_125KHz, CodingRate::_4_5, 868_100_000u32);
                    let Ok(mp) = $l.create_modulation_params(sf, bw, cr, f) else { return (v, 0) };
                    let Ok(other) = $l.create_rx_packet_params(8, run_implicit.is_none(), if run_implicit.is_none() { 17 } else { 255 }, true, true, &mp) else { return (v, 0) };
                    let p0 = env.0.borrow().pos;
                    env.0.borrow_mut().fault_at = Some(p0 + k);
                    let _ = drive($l.prepare_for_rx(RxMode::Continuous, &mp, &other));
                    env.0.borrow_mut().fault_at = None;
                }
                let start = env.0.borrow().pos;
                env.0.borrow_mut().fault_at = fault.map(|k| start + k);
                let mut fetches = vec![];
                for round in 0..2 {
                    let mut backing = vec![CANARY; 64 + 8];
                    let res = drive($l.get_rx_result(&pp, &mut backing[4..68]));
                    if round == 0 {
                        consumed = env.0.borrow().pos - start;
                        env.0.borrow_mut().fault_at = None;
                    }
                    fetches.push((res.map(|x| x.map(|y| y.0 as usize).map_err(|e| format!("{e:?}"))), backing));
                    if fault.is_none() {
                        break;
                    }
                }
                for (i, (res, backing)) in fetches.iter().enumerate() {
                    if let Some(Ok(l)) = res {
                        let l = *l;
                        let which = if i == 0 { "first-fetch" } else { "retry" };
                        if l > 64 {
                            v.push((format!("C18|{tag}|returned-length-exceeds-buffer"), format!("{which}: {l}")));
                            continue;
                        }
                        if l != len as usize {
                            v.push((format!("C18|{tag}|wrong-length"), format!("{which} returned {l}, chip reports {len} at {off} (fault at transaction {fault:?})")));
                        }
                        if let Some(j) = (0..l).find(|j| backing[4 + j] != chip_byte((off as usize + j) % 256)) {
                            v.push((
                                format!("C18|{tag}|wrong-bytes"),
                                format!("{which} after a fault at transaction {fault:?}: byte {j} is {:#x}, chip buffer at {} holds {:#x} (len {len} off {off})", backing[4 + j], (off as usize + j) % 256, chip_byte((off as usize + j) % 256)),
                            ));
                        }
                        if backing[..4].iter().chain(backing[4 + l..].iter()).any(|b| *b != CANARY) {
                            v.push((format!("C18|{tag}|buffer-touched-beyond-packet"), format!("{which}")));
                        }
                    }
                }
            }};
        }
        match &mut s.rig {
            Rig::L126(l) => go!(l),
            Rig::L127a(l) => go!(l),
            Rig::L127b(l) => go!(l),
            _ => {}
        }
        (v, consumed)
    });
    match r {
        Err(p) => (vec![(format!("C18|{tag}|panic|{}", panic_site(&p)), p)], 0),
        Ok(x) => x,
    }
}

pub fn eval(c: &Case) -> Vec<(String, String)> {
    match build(&c.group) {
        Err(e) => vec![(format!("C18|{}|setup-failed", c.group.chip), e)],
        Ok(mut s) => run_one(&mut s, c.len, c.off, c.status, c.second).0,
    }
}

/// One level up: the LoRaWAN device copies the received frame into its own radio buffer of N bytes
/// before the MAC sees it. A device with a 64-byte buffer receives an authentic downlink whose PHY
/// length is 13 + `len`; everything that fits (PHY length <= 64, which is also the EU868 DR0 limit)
/// must reach the application unchanged, anything longer must not corrupt or crash.
fn eval_device(len: usize, rx2: bool) -> Vec<(String, String)> {
    use crate::adev::{ACore, AEv, AResp, Script};
    use crate::dev::{DevCfg, Fcnt, Frame, Tamper};
    let mut v = vec![];
    let r = catch(|| {
        let cfg = DevCfg::abp("EU868");
        let mut core: ACore<14, 0, 64> = ACore::new(&cfg, false);
        let payload: Vec<u8> = (0..len).map(|i| chip_byte(i)).collect();
        let f = Frame::Down { fcnt: Fcnt::Rel(1), confirmed: false, ack: false, fopts: vec![], port: Some(7), payload: payload.clone(), tamper: Tamper::None };
        let script = if rx2 { Script { rx2: Some(f), ..Default::default() } } else { Script { rx1: Some(f), ..Default::default() } };
        let st = core.apply(&AEv::Send { confirmed: false, port: 1, len: 1, script });
        (st, payload)
    });
    let w = if rx2 { "rx2" } else { "rx1" };
    match r {
        Err(p) => v.push((format!("C18|device-level|panic|{}", panic_site(&p)), format!("{len}-byte payload in {w}: {p}"))),
        Ok((None, _)) => {}
        Ok((Some(st), payload)) => {
            if let AResp::Panic(p) = &st.resp {
                v.push((format!("C18|device-level|panic|{}", panic_site(p)), format!("{len}-byte payload in {w}: {p}")));
            } else if 13 + len <= 64 {
                // fits the buffer and the data rate: delivered byte for byte
                if st.downlinks != vec![(7u8, payload.clone())] {
                    v.push((
                        format!("C18|device-level|frame-that-fits-the-radio-buffer-not-delivered|{}", if 13 + len == 64 { "exactly-full" } else { "shorter" }),
                        format!("PHY length {} in {w} with a 64-byte radio buffer: answered {:?}, application received {:?}", 13 + len, st.resp, st.downlinks.iter().map(|d| (d.0, d.1.len())).collect::<Vec<_>>()),
                    ));
                }
            } else if !st.downlinks.is_empty() && st.downlinks != vec![(7u8, payload.clone())] {
                v.push((format!("C18|device-level|oversized-frame-delivered-corrupted"), format!("PHY length {} in {w}: {:?}", 13 + len, st.downlinks)));
            }
        }
    }
    v
}

pub fn run(tier: Tier, replay: Option<&str>) {
    if let Some(path) = replay {
        let cj = load_case(path);
        if let Some(d) = cj.get("device_level") {
            let len = d["len"].as_u64().unwrap_or(0) as usize;
            let rx2 = d["rx2"].as_bool().unwrap_or(false);
            replay_exit("C18", path, eval_device(len, rx2).into_iter().map(|x| x.0).collect());
        }
        if cj.get("fault_at").is_some() {
            let c: RetryCase = serde_json::from_value(cj).expect("case");
            replay_exit("C18", path, eval_retry(&c).0.into_iter().map(|x| x.0).collect());
        }
        let c: Case = serde_json::from_value(cj).expect("case");
        replay_exit("C18", path, eval(&c).into_iter().map(|x| x.0).collect());
    }
    let ctx = Ctx::new("C18", tier);
    let th = tier.thorough();
    let mut groups = vec![];
    for chip in ["sx1262", "sx1276", "sx1272"] {
        for path in ["rx", "get_rx_result", "adapter-single", "adapter-continuous"] {
            for buf in BUFS {
                let implicits: Vec<Option<u8>> = if path.starts_with("adapter") { vec![None] } else { vec![None, Some(0), Some(1), Some(12), Some(255)] };
                for imp in implicits {
                    let conts: Vec<bool> = if path == "rx" { vec![false, true] } else { vec![path == "adapter-continuous"] };
                    for continuous in conts {
                        groups.push(Group { chip: chip.into(), path: path.into(), buf, implicit: imp, continuous, max_len: None });
                        // explicit header with a configured maximum below what the chip then reports
                        if imp.is_none() && !path.starts_with("adapter") && (buf == 64 || buf == 256) {
                            for m in [0u8, 16, 64] {
                                groups.push(Group { chip: chip.into(), path: path.into(), buf, implicit: None, continuous, max_len: Some(m) });
                            }
                        }
                    }
                }
            }
        }
    }
    let returned = AtomicU64::new(0);
    let refused = AtomicU64::new(0);
    let offs: Vec<u8> = if th { (0..=255).collect() } else { (0..=255).step_by(5).chain([1, 2, 128, 254]).collect() };
    groups.par_iter().for_each(|g| {
        let mut sess = match build(g) {
            Ok(s) => s,
            Err(e) => {
                ctx.violation(format!("C18|{}|setup-failed", g.chip), e, serde_json::to_value(g).unwrap(), 0);
                return;
            }
        };
        let statuses: Vec<u8> = if g.chip == "sx1262" { (0..8).collect() } else { vec![0, 1] };
        let mut n = 0u64;
        for len in 0..=255u8 {
            for &off in &offs {
                for &st in &statuses {
                    if !th && st > 1 && !(len % 16 == 0 || len > 250) {
                        continue;
                    }
                    let (v, got) = run_one(&mut sess, len, off, st, None);
                    if got {
                        returned.fetch_add(1, Ordering::Relaxed);
                    } else {
                        refused.fetch_add(1, Ordering::Relaxed);
                        // an error may have taken the driver out of receive mode: set up again
                        if prepare(&mut sess).is_err() {
                            match build(g) {
                                Ok(s) => sess = s,
                                Err(_) => return,
                            }
                        }
                    }
                    for (sig, what) in v {
                        ctx.violation(sig, what, serde_json::to_value(Case { group: g.clone(), len, off, status: st, second: None }).unwrap(), len as usize);
                    }
                    n += 1;
                }
            }
        }
        // continuous reception, SX126x: the error status comes with GetPacketStatus only (the payload of the first packet
        // is in the caller's buffer by then), and a second, shorter / equal / longer packet arrives next
        if g.chip == "sx1262" && g.continuous {
            for len in (0..=255u8).filter(|l| th || l % 8 == 0 || *l > 250) {
                for st in [3u8, 4, 5] {
                    for l2 in [0u8, 1, len / 2, len.saturating_sub(1), len, len.saturating_add(1)] {
                        let (v, got) = run_one(&mut sess, len, 0, st, Some(l2));
                        if got {
                            returned.fetch_add(1, Ordering::Relaxed);
                        } else {
                            refused.fetch_add(1, Ordering::Relaxed);
                            if prepare(&mut sess).is_err() {
                                match build(g) {
                                    Ok(s) => sess = s,
                                    Err(_) => return,
                                }
                            }
                        }
                        for (sig, what) in v {
                            ctx.violation(sig, what, serde_json::to_value(Case { group: g.clone(), len, off: 0, status: st, second: Some(l2) }).unwrap(), len as usize + 1);
                        }
                        n += 1;
                    }
                }
            }
        }
        ctx.tick(n);
    });
    // a fetch interrupted by an SPI fault at each of its transactions, then retried
    let mut retry_cases = 0u64;
    for chip in ["sx1262", "sx1276", "sx1272"] {
        for len in [1u8, 12, 64] {
            for off in [0u8, 1, 0x40, 0xF8] {
                let (_, n) = eval_retry(&RetryCase { chip: chip.into(), len, off, fault_at: None, run_implicit: None, stale_prepare_fault: None });
                for k in 0..n {
                    let c = RetryCase { chip: chip.into(), len, off, fault_at: Some(k), run_implicit: None, stale_prepare_fault: None };
                    for (sig, what) in eval_retry(&c).0 {
                        ctx.violation(sig, what, serde_json::to_value(&c).unwrap(), k);
                    }
                    retry_cases += 1;
                    ctx.tick(1);
                }
                // a running reception, then a preparation with the other header mode that fails at its k-th environment
                // call: the running reception's packets are still fetched by its own rules
                for run_implicit in [None, Some(17u8)] {
                    for k in 0..6usize {
                        let c = RetryCase { chip: chip.into(), len, off, fault_at: None, run_implicit, stale_prepare_fault: Some(k) };
                        for (sig, what) in eval_retry(&c).0 {
                            ctx.violation(sig, what, serde_json::to_value(&c).unwrap(), k + 1);
                        }
                        retry_cases += 1;
                        ctx.tick(1);
                    }
                }
            }
        }
    }
    if retry_cases == 0 {
        eprintln!("MACHINERY: C18 retry part did not run");
        std::process::exit(2);
    }
    // device level (64-byte radio buffer): every payload length up to well past the buffer, both windows
    let mut device_cases = 0u64;
    for len in 0..=120usize {
        for rx2 in [false, true] {
            for (sig, what) in eval_device(len, rx2) {
                ctx.violation(sig, what, json!({"device_level": {"len": len, "rx2": rx2}}), len);
            }
            device_cases += 1;
            ctx.tick(1);
        }
    }
    let coverage = json!({
        "evaluations": ctx.evals(),
        "device_level_cases": device_cases,
        "retry_after_fault_cases": retry_cases,
        "distinct_nontrivial": returned.load(Ordering::Relaxed),
        "rule": "chip model (SX1262, SX1276, SX1272) reports every length 0..=255 x offset (all 256 in thorough) x status (SX126x: all 8 command-status values; SX127x: done / CRC error) after a reception; the real driver fetches the packet through LoRa::rx (single and continuous), LoRa::get_rx_result and LorawanRadio::rx_single / rx_continuous into caller buffers of 0, 1, 12, 64, 255, 256 bytes embedded in canaries, in explicit-header mode (configured maximum 255, and 0 / 16 / 64 below what the chip reports) and in implicit-header mode with configured lengths 0, 1, 12, 255; chip buffer holds position-dependent bytes; SX126x continuous reception with an error status on GetPacketStatus only followed by a second packet of length 0 / 1 / half / one less / equal / one more; a fetch that consumes more than 4000 environment calls without returning counts as not returning; a running continuous reception (explicit / implicit headers) followed by a preparation with the other header mode that fails at its 1st..6th environment call, then the fetch; a fetch (get_rx_result, continuous reception) with an SPI fault at each of its transactions followed by a retry; plus the device level (see assumptions). non-trivial = cases in which a packet was returned (and compared byte for byte)",
        "samples": [
            serde_json::to_value(Case { group: groups[0].clone(), len: 13, off: 250, status: 2, second: None }).unwrap(),
            serde_json::to_value(Case { group: groups[groups.len() - 1].clone(), len: 255, off: 1, status: 0, second: None }).unwrap(),
        ],
        "exhaustive": true,
        "packets_returned": returned.load(Ordering::Relaxed),
        "errors_returned": refused.load(Ordering::Relaxed),
        "groups": groups.len(),
    });
    let replayer = |cj: &Value| -> Vec<String> {
        if let Some(d) = cj.get("device_level") {
            return eval_device(d["len"].as_u64().unwrap_or(0) as usize, d["rx2"].as_bool().unwrap_or(false)).into_iter().map(|x| x.0).collect();
        }
        if cj.get("fault_at").is_some() {
            let c: RetryCase = serde_json::from_value(cj.clone()).unwrap();
            return eval_retry(&c).0.into_iter().map(|x| x.0).collect();
        }
        let c: Case = serde_json::from_value(cj.clone()).unwrap();
        eval(&c).into_iter().map(|x| x.0).collect()
    };
    ctx.finish(
        "exploration",
        coverage,
        vec![
            "chip models: /verif/harness/mc/src/chips.rs (data buffer / FIFO wrap at 256, RegFifoRxCurrentAddr / GetRxBufferStatus semantics from the datasheets)".into(),
            "an error return is always acceptable; a returned packet must have the chip-defined length, the chip's bytes and leave the rest of the caller's memory untouched".into(),
            "one level up: an async LoRaWAN device with a 64-byte radio buffer receives authentic downlinks of every PHY length 13..133 in RX1 and RX2; everything that fits must reach the application byte for byte".into(),
        ],
        Some(&replayer),
    );
}

#[allow(dead_code)]
fn _t(_: RadioError) {}
