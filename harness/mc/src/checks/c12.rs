//! C12 — uplink header bits and ADR back-off follow the session history.
//! Complete reachable graph of (ADR counter, data rate, ADR flag, owed ACK, ...) explored by
//! BFS; each state is restored in O(1) through the public session (de)serialisation, so
//! histories of several hundred uplinks are covered. A reference model runs in lock-step.
use crate::adev::*;
use crate::checks::{load_case, replay_exit};
use crate::ctx::{Ctx, Tier, hex, panic_site};
use crate::dev::*;
use crate::refcodec;
use crate::refregion as rr;
use lorawan_device::verif::VerifMacState;
use rayon::prelude::*;
use serde::{Deserialize, Serialize};
use serde_json::{Value, json};
use std::collections::{BTreeMap, HashSet};

/// Reference model state (a set of candidates is carried where the statement admits several).
/// `strict` is unused (kept for replay-file compatibility).
#[derive(Clone, Debug, PartialEq, Eq, Hash, Serialize, Deserialize, PartialOrd, Ord)]
pub struct Model {
    pub cnt: u32,
    pub dr: u8,
    pub owed: bool,
    pub adr: bool,
    pub strict: bool,
}

#[derive(Clone, Debug, PartialEq, Eq, Hash, Serialize, Deserialize)]
pub struct St {
    pub dr: u8,
    pub adr: bool,
    pub cnt: u32,
    pub owed_ack: bool,
    pub confirmed: bool,
    pub has_down: bool,
    pub models: Vec<Model>,
}

#[derive(Clone, Debug, PartialEq, Eq, Hash, Serialize, Deserialize)]
pub enum E {
    /// outcome: 0 nothing, 1 accepted unconfirmed dl in RX1, 2 accepted confirmed dl in RX2, 3 rejected dl in RX1,
    /// 4 (Class C) accepted confirmed dl before RX1, 5 (Class C) accepted unconfirmed dl before RX2, 7 oversized frame in RX2
    Up { confirmed: bool, outcome: u8 },
    SetAdr(bool),
    SetDr(u8),
}

fn next_lower(region: &str, dr: u8) -> Option<u8> {
    (0..dr).rev().find(|d| rr::dr(region, *d).is_some() && !(region == "EU868" && *d == 6))
}

fn dlf(confirmed: bool, tamper: Tamper) -> Frame {
    Frame::Down { fcnt: Fcnt::Rel(1), confirmed, ack: false, fopts: vec![], port: Some(1), payload: vec![5], tamper }
}

/// an authentic, fresh frame that is longer than the RX2 data rate of every region allows: it ends the receive
/// procedure like a timeout, the uplink still counts as one without an accepted downlink
fn oversized() -> Frame {
    Frame::Down { fcnt: Fcnt::Rel(1), confirmed: false, ack: false, fopts: vec![], port: Some(1), payload: vec![7; 200], tamper: Tamper::None }
}

fn cfg_of(region: &str, s: &St) -> DevCfg {
    let mut c = DevCfg::abp(region);
    c.fcnt_up = Some(1000);
    c.fcnt_down = Some(if s.has_down { Some(1000) } else { None });
    c.adr_ack_cnt = Some(s.cnt);
    c.dr = Some(s.dr);
    c.adr = Some(s.adr);
    c.owed_ack = Some(s.owed_ack);
    c.last_confirmed = Some(s.confirmed);
    c
}

struct Observed {
    tx: Option<(Vec<u8>, Rf)>,
    accepted: bool,
    accepted_confirmed: bool,
    after: lorawan_device::verif::VerifMac,
    panic: Option<String>,
}

fn run_event(front: &str, region: &str, s: &St, e: &E) -> Observed {
    let cfg = cfg_of(region, s);
    let mut tx = None;
    let mut accepted = false;
    let mut accepted_confirmed = false;
    let mut panic = None;
    if front == "nb" {
        let mut core: NbCore<14, 0> = NbCore::new(&cfg);
        // set_adr(false) in the start state must not be re-applied through the setter (it would reset the count)
        let ev = match e {
            E::Up { confirmed, outcome } => {
                let (rx1, rx2) = match outcome {
                    1 => (Some(dlf(false, Tamper::None)), None),
                    2 => (None, Some(dlf(true, Tamper::None))),
                    3 => (Some(dlf(true, Tamper::BadMic)), None),
                    7 => (None, Some(oversized())),
                    _ => (None, None),
                };
                Ev::Cycle { confirmed: *confirmed, port: 1, len: 1, rx1, rx2 }
            }
            E::SetAdr(a) => Ev::SetAdr(*a),
            E::SetDr(d) => Ev::SetDr(*d),
        };
        for m in core.apply(&ev) {
            if let Resp::Panic(p) = &m.resp {
                panic = Some(p.clone());
            }
            for op in &m.ops {
                if let RadioOp::Tx { bytes, rf, .. } = op {
                    tx = Some((bytes.clone(), rf.clone()));
                }
            }
            if let Some(Judge::Accept { confirmed, .. }) = &m.judge {
                accepted = true;
                accepted_confirmed |= *confirmed;
            }
        }
        Observed { tx, accepted, accepted_confirmed, after: core.snap(), panic }
    } else {
        let mut core: ACore<14, 0> = ACore::new(&cfg, true);
        let ev = match e {
            E::Up { confirmed, outcome } => {
                let script = match outcome {
                    1 => Script { rx1: Some(dlf(false, Tamper::None)), ..Default::default() },
                    2 => Script { rx2: Some(dlf(true, Tamper::None)), ..Default::default() },
                    3 => Script { rx1: Some(dlf(true, Tamper::BadMic)), ..Default::default() },
                    7 => Script { rx2: Some(oversized()), ..Default::default() },
                    4 => Script { rxc1: vec![dlf(true, Tamper::None)], ..Default::default() },
                    5 => Script { rxc2: vec![dlf(false, Tamper::None)], ..Default::default() },
                    // a confirmed Class C downlink before RX1, then an unconfirmed downlink in RX1: the ACK stays owed
                    6 => Script { rxc1: vec![dlf(true, Tamper::None)], rx1: Some(dlf(false, Tamper::None)), ..Default::default() },
                    _ => Script::default(),
                };
                AEv::Send { confirmed: *confirmed, port: 1, len: 1, script }
            }
            E::SetAdr(a) => AEv::SetAdr(*a),
            E::SetDr(d) => AEv::SetDr(*d),
        };
        if let Some(st) = core.apply(&ev) {
            if let AResp::Panic(p) = &st.resp {
                panic = Some(p.clone());
            }
            for op in &st.ops {
                if let AOp::Tx { bytes, rf, .. } = op {
                    tx = Some((bytes.clone(), rf.clone()));
                }
            }
            for d in &st.deliveries {
                if let Judge::Accept { confirmed, .. } = &d.judge {
                    accepted = true;
                    accepted_confirmed |= *confirmed;
                }
            }
        }
        Observed { tx, accepted, accepted_confirmed, after: core.snap(), panic }
    }
}

/// One step: runs the event on the real device restored to `s`, advances the model
/// candidates, returns (violations, successor state).
pub fn step(front: &str, region: &str, s: &St, e: &E) -> (Vec<(String, String)>, Option<St>) {
    let mut v = vec![];
    let o = run_event(front, region, s, e);
    if let Some(p) = o.panic {
        v.push((format!("C12|{front}|panic|{}", panic_site(&p)), p));
        return (v, None);
    }
    let VerifMacState::Joined(sess) = o.after.state else {
        v.push((format!("C12|{front}|session-lost"), "device no longer joined".into()));
        return (v, None);
    };
    let mut models: Vec<Model> = vec![];
    match e {
        E::SetAdr(a) => {
            for m in &s.models {
                let mut n = m.clone();
                // The statement is silent on whether uplinks sent while ADR is disabled count:
                // while disabled the count is irrelevant (kept at 0 in the model), and when ADR is
                // (re-)enabled the model adopts the device's own counter.
                if *a && !m.adr {
                    n.cnt = sess.adr_ack_cnt;
                }
                if !*a {
                    n.cnt = 0;
                }
                n.adr = *a;
                models.push(n);
            }
        }
        E::SetDr(d) => {
            for m in &s.models {
                let mut n = m.clone();
                n.dr = *d;
                models.push(n);
            }
        }
        E::Up { confirmed, .. } => {
            let Some((bytes, rf)) = &o.tx else {
                v.push((format!("C12|{front}|no-uplink"), "send did not hand a frame to the radio".into()));
                return (v, None);
            };
            let Ok(h) = refcodec::parse_data(bytes) else {
                v.push((format!("C12|{front}|uplink-unparseable"), hex(bytes)));
                return (v, None);
            };
            let want_mtype = if *confirmed { 4 } else { 2 };
            if h.mtype != want_mtype {
                v.push(("C12|mtype".into(), format!("application asked for confirmed={confirmed}, MType on the air is {}", h.mtype)));
            }
            if h.devaddr != DEVADDR {
                v.push(("C12|devaddr".into(), format!("{:#x}", h.devaddr)));
            }
            let adr_bit = h.fctrl & 0x80 != 0;
            let req_bit = h.fctrl & 0x40 != 0;
            let ack_bit = h.fctrl & 0x20 != 0;
            let tx_dr: Vec<u8> = rr::dr_index(region, rf.sf, rf.bw).into_iter().filter(|d| *d <= 7 || s.dr >= 8).collect();
            // keep the model candidates that explain this uplink
            let mut why = vec![];
            for m in &s.models {
                let want_req = m.adr && m.cnt >= 64 && next_lower(region, m.dr).is_some();
                let ok = adr_bit == m.adr && req_bit == want_req && ack_bit == m.owed && tx_dr.contains(&m.dr);
                if !ok {
                    why.push(format!(
                        "model {m:?} expects ADR={} ADRACKReq={} ACK={} DR{}, uplink has ADR={adr_bit} ADRACKReq={req_bit} ACK={ack_bit} DR{tx_dr:?}",
                        m.adr, want_req, m.owed, m.dr
                    ));
                    continue;
                }
                // advance the candidate over the rest of the transaction
                let mut n = m.clone();
                n.owed = false;
                if o.accepted {
                    n.cnt = 0;
                    if o.accepted_confirmed {
                        n.owed = true;
                    }
                    if let E::Up { outcome: 4 | 5 | 6, .. } = e {
                        // A Class C downlink accepted between TX and the windows restarts the count;
                        // whether the uplink that was in flight then counts as 'one uplink since' is
                        // not fixed by the statement: both are admissible.
                        let mut n1 = n.clone();
                        if n1.adr {
                            n1.cnt = 1;
                        }
                        models.push(n1);
                    }
                } else if n.adr {
                    n.cnt += 1;
                    if n.adr && n.cnt >= 96 && (n.cnt - 64) % 32 == 0 {
                        if let Some(l) = next_lower(region, n.dr) {
                            n.dr = l;
                        }
                    }
                }
                models.push(n);
            }
            if models.is_empty() {
                // classify the first mismatch for the signature
                let m = &s.models[0];
                let want_req = m.adr && m.cnt >= 64 && next_lower(region, m.dr).is_some();
                let field = if adr_bit != m.adr {
                    "adr-bit"
                } else if ack_bit != m.owed {
                    if ack_bit { "ack-bit-spurious" } else { "ack-bit-missing" }
                } else if req_bit != want_req {
                    if req_bit { "adrackreq-spurious" } else { "adrackreq-missing" }
                } else {
                    "data-rate"
                };
                v.push((format!("C12|{field}"), format!("[{front}/{region}] state {s:?}: {}", why.join(" ; "))));
                return (v, None);
            }
        }
    }
    models.sort();
    models.dedup();
    // the data rate must never change on its own except by the back-off the model predicts
    if !models.iter().any(|m| m.dr == o.after.data_rate) {
        v.push((
            "C12|data-rate-changed-on-its-own".into(),
            format!("[{front}/{region}] after {e:?} from {s:?}: device data rate {} , model candidates {models:?}", o.after.data_rate),
        ));
        return (v, None);
    }
    models.retain(|m| m.dr == o.after.data_rate && m.owed == sess.owed_ack);
    if models.is_empty() {
        v.push(("C12|owed-ack-state".into(), format!("[{front}/{region}] after {e:?} from {s:?}: owed ACK {}", sess.owed_ack)));
        return (v, None);
    }
    let ns = St {
        dr: o.after.data_rate,
        adr: o.after.adr_enabled,
        cnt: sess.adr_ack_cnt,
        owed_ack: sess.owed_ack,
        confirmed: sess.confirmed,
        has_down: sess.fcnt_down.is_some(),
        models,
    };
    (v, Some(ns))
}


/// Straight-line histories on one device instance (state that the session snapshot does not carry, e.g. a
/// TX power commanded by the network, stays in place): an accepted LinkADRReq that keeps the data rate and
/// commands a TX power, then `n` uplinks nobody answers. `variant` 0: LinkADRReq first; 1: no command at all.
pub fn line(region: &str, variant: u8, n: u32) -> Vec<(String, String, usize)> {
    let mut v = vec![];
    let drs: Vec<u8> = (0..8).filter(|d| rr::dr(region, *d).is_some() && !(region == "EU868" && *d == 6)).collect();
    // the highest 125 kHz rate (the 500 kHz rate of the fixed plans needs its own mask)
    let top = *drs.iter().filter(|d| rr::dr(region, **d).map(|x| x.bw) == Some(125_000)).max().unwrap();
    let mut cfg = DevCfg::abp(region);
    cfg.dr = Some(top);
    let mut core: NbCore<14, 0> = NbCore::new(&cfg);
    let mut model = Model { cnt: 0, dr: top, owed: false, adr: true, strict: true };
    let mut cmd: Vec<u8> = if rr::is_fixed(region) { vec![0x03, (top << 4) | 2, 0xFF, 0x00, 0x61] } else { vec![0x03, (top << 4) | 2, 0x07, 0x00, 0x01] };
    // variant 2 (72-channel plans): the network leaves only the 500 kHz channels enabled and commands their data rate
    let wide = drs.iter().copied().find(|d| rr::dr(region, *d).map(|x| x.bw) == Some(500_000));
    if variant == 2 {
        let Some(w) = wide else { return v };
        cmd = vec![0x03, (w << 4) | 0x0F, 0xFF, 0x00, 0x71];
    }
    for i in 0..=n {
        let rx1 = if i == 0 && (variant == 0 || variant == 2) {
            Some(Frame::Down { fcnt: Fcnt::Rel(1), confirmed: false, ack: false, fopts: cmd.clone(), port: None, payload: vec![], tamper: Tamper::None })
        } else {
            None
        };
        let first = rx1.is_some();
        let mut tx = None;
        let mut accepted = false;
        for m in core.apply(&Ev::Cycle { confirmed: false, port: 1, len: 1, rx1, rx2: None }) {
            if let Resp::Panic(p) = &m.resp {
                v.push((format!("C12|line|panic|{}", panic_site(p)), p.clone(), i as usize));
                return v;
            }
            for op in &m.ops {
                if let RadioOp::Tx { bytes, rf, .. } = op {
                    tx = Some((bytes.clone(), rf.clone()));
                }
            }
            accepted |= matches!(m.judge, Some(Judge::Accept { .. }));
        }
        let Some((bytes, rf)) = tx else {
            v.push(("C12|line|no-uplink".into(), format!("[{region}] uplink {i}"), i as usize));
            return v;
        };
        let Ok(h) = refcodec::parse_data(&bytes) else { return v };
        let req_bit = h.fctrl & 0x40 != 0;
        let want_req = model.cnt >= 64 && next_lower(region, model.dr).is_some();
        let tx_dr: Vec<u8> = rr::dr_index(region, rf.sf, rf.bw).into_iter().filter(|d| *d <= 7).collect();
        if !tx_dr.contains(&model.dr) {
            v.push((
                format!("C12|line|data-rate|{}", match variant { 0 => "after-linkadr-with-txpower", 2 => "500khz-channels-only", _ => "plain" }),
                format!("[{region}] uplink {i} after {} uplinks without a downlink went out at DR{tx_dr:?}, the back-off schedule gives DR{}", model.cnt, model.dr),
                i as usize,
            ));
            return v;
        }
        if req_bit != want_req {
            v.push((format!("C12|line|adrackreq-{}", if req_bit { "spurious" } else { "missing" }), format!("[{region}] uplink {i}, {} uplinks without a downlink, DR{}", model.cnt, model.dr), i as usize));
            return v;
        }
        if first && !accepted {
            return v; // the command downlink was not constructible / accepted: nothing to follow
        }
        if first && variant == 2 {
            // the data rate the device reports after the command is the one the schedule starts from
            if core.snap().data_rate != wide.unwrap() {
                return v; // refused: nothing to follow
            }
            model.dr = wide.unwrap();
        }
        if accepted {
            model.cnt = 0;
        } else {
            model.cnt += 1;
            if model.cnt >= 96 && (model.cnt - 64) % 32 == 0
                && let Some(l) = next_lower(region, model.dr)
            {
                model.dr = l;
            }
        }
    }
    v
}

/// An application that leaves a downlink in a one-entry queue while the next one arrives: the owed ACK follows the
/// accepted confirmed downlinks, whatever became of their payloads.
pub fn queue_scenario(region: &str, pattern: [u8; 3]) -> Vec<(String, String, usize)> {
    let mut v = vec![];
    let mut cfg = DevCfg::abp(region);
    cfg.hold_downlinks = true;
    let mut core: NbCore<14, 0, 1> = NbCore::new(&cfg);
    let mut owed = false;
    for i in 0..4usize {
        let dl = match pattern.get(i).copied().unwrap_or(0) {
            1 => Some(dlf(false, Tamper::None)),
            2 => Some(dlf(true, Tamper::None)),
            _ => None,
        };
        let mut tx = None;
        let mut acc_conf = false;
        for m in core.apply(&Ev::Cycle { confirmed: false, port: 1, len: 1, rx1: dl, rx2: None }) {
            if let Resp::Panic(p) = &m.resp {
                v.push((format!("C12|queue|panic|{}", panic_site(p)), p.clone(), i));
                return v;
            }
            for op in &m.ops {
                if let RadioOp::Tx { bytes, .. } = op {
                    tx = Some(bytes.clone());
                }
            }
            if let Some(Judge::Accept { confirmed, .. }) = &m.judge {
                acc_conf |= *confirmed;
            }
        }
        let Some(bytes) = tx else { return v };
        let Ok(h) = refcodec::parse_data(&bytes) else { return v };
        let ack = h.fctrl & 0x20 != 0;
        if ack != owed {
            v.push((
                format!("C12|queue|ack-{}", if ack { "spurious" } else { "missing" }),
                format!("[{region}] downlinks {pattern:?} (1 unconfirmed, 2 confirmed) with a one-entry queue the application empties every other uplink: uplink {i} carries ACK={ack}, owed={owed}"),
                i,
            ));
            return v;
        }
        owed = acc_conf;
    }
    v
}

#[derive(Clone, Debug, Serialize, Deserialize)]
pub struct Case {
    pub front: String,
    pub region: String,
    pub state: St,
    pub event: E,
    /// events from the initial state (informational: how the state was reached)
    pub path_len: usize,
}

fn events(front: &str, region: &str) -> Vec<E> {
    let mut v = vec![];
    let outs: &[u8] = if front == "nb" { &[0, 1, 2, 3, 7] } else { &[0, 1, 2, 3, 7, 4, 5, 6] };
    for c in [false, true] {
        for &o in outs {
            v.push(E::Up { confirmed: c, outcome: o });
        }
    }
    v.push(E::SetAdr(false));
    v.push(E::SetAdr(true));
    let drs: Vec<u8> = (0..8).filter(|d| rr::dr(region, *d).is_some() && !(region == "EU868" && *d == 6)).collect();
    // lowest, a middle one and the highest uplink rate
    let mut pick = vec![drs[0], drs[drs.len() / 2], *drs.last().unwrap()];
    pick.dedup();
    if rr::is_fixed(region) {
        // a region-defined rate above a gap in the table (DR5..7 / DR7 are RFU): the next lower defined rate is
        // not "current - 1"
        pick.push(8);
    }
    for d in pick {
        v.push(E::SetDr(d));
    }
    v
}

pub fn run(tier: Tier, replay: Option<&str>) {
    if let Some(path) = replay {
        let c: Case = serde_json::from_value(load_case(path)).expect("case");
        if c.front == "queue" {
            let p = [(c.state.cnt / 9 % 3) as u8, (c.state.cnt / 3 % 3) as u8, (c.state.cnt % 3) as u8];
            replay_exit("C12", path, queue_scenario(&c.region, p).into_iter().map(|x| x.0).collect());
        }
        if c.front == "line" {
            replay_exit("C12", path, line(&c.region, c.state.cnt as u8, 400).into_iter().map(|x| x.0).collect());
        }
        replay_exit("C12", path, step(&c.front, &c.region, &c.state, &c.event).0.into_iter().map(|x| x.0).collect());
    }
    let ctx = Ctx::new("C12", tier);
    let th = tier.thorough();
    let regions: Vec<&str> = if th { REGIONS.to_vec() } else { vec!["EU868", "US915", "IN865"] };
    let mut states_total = 0u64;
    let mut transitions = 0u64;
    let mut max_cnt_seen = 0u32;
    let mut outcomes: BTreeMap<String, u64> = BTreeMap::new();
    let mut capped = false;
    for region in &regions {
        for front in ["nb", "async-c"] {
            let drs: Vec<u8> = (0..8).filter(|d| rr::dr(region, *d).is_some() && !(*region == "EU868" && *d == 6)).collect();
            let top = *drs.last().unwrap();
            // the counter horizon: past every back-off step down to the lowest rate, plus two periods
            let horizon = 64 + 32 * (drs.len() as u32 + 2);
            let init = St {
                dr: top,
                adr: true,
                cnt: 0,
                owed_ack: false,
                confirmed: false,
                has_down: false,
                models: vec![Model { cnt: 0, dr: top, owed: false, adr: true, strict: true }],
            };
            let evs = events(front, region);
            let mut seen: HashSet<St> = HashSet::new();
            seen.insert(init.clone());
            let mut frontier = vec![init];
            let mut depth = 0usize;
            while !frontier.is_empty() {
                depth += 1;
                let results: Vec<Vec<(Vec<(String, String)>, Option<St>, St, E)>> = frontier
                    .par_iter()
                    .map(|s| {
                        let mut out = vec![];
                        for e in &evs {
                            // beyond the horizon only downlinks / toggles are interesting
                            if s.cnt > horizon && matches!(e, E::Up { outcome: 0 | 3 | 7, .. }) {
                                continue;
                            }
                            let (v, ns) = step(front, region, s, e);
                            out.push((v, ns, s.clone(), e.clone()));
                        }
                        ctx.tick(out.len() as u64);
                        out
                    })
                    .collect();
                let mut next = vec![];
                for r in results {
                    for (v, ns, s, e) in r {
                        transitions += 1;
                        let oc = match &e {
                            E::Up { outcome, .. } => format!("up-outcome{outcome}"),
                            E::SetAdr(_) => "set_adr".into(),
                            E::SetDr(_) => "set_datarate".into(),
                        };
                        *outcomes.entry(oc).or_insert(0) += 1;
                        for (sig, what) in v {
                            let c = Case { front: front.into(), region: region.to_string(), state: s.clone(), event: e.clone(), path_len: depth };
                            ctx.violation(sig, what, serde_json::to_value(&c).unwrap(), depth);
                        }
                        if let Some(ns) = ns {
                            max_cnt_seen = max_cnt_seen.max(ns.cnt);
                            if seen.insert(ns.clone()) {
                                next.push(ns);
                            }
                        }
                    }
                }
                if seen.len() > 400_000 || ctx.saturated() {
                    capped = true;
                    break;
                }
                frontier = next;
            }
            states_total += seen.len() as u64;
        }
    }
    // straight-line histories on one device instance, in every region
    let mut line_uplinks = 0u64;
    for region in REGIONS {
        for k in 0..27u32 {
            let p = [(k / 9 % 3) as u8, (k / 3 % 3) as u8, (k % 3) as u8];
            for (sig, what, at) in queue_scenario(region, p) {
                let c = Case {
                    front: "queue".into(),
                    region: region.to_string(),
                    state: St { dr: 0, adr: true, cnt: k, owed_ack: false, confirmed: false, has_down: false, models: vec![] },
                    event: E::Up { confirmed: false, outcome: 0 },
                    path_len: at,
                };
                ctx.violation(sig, what, serde_json::to_value(&c).unwrap(), at);
            }
            line_uplinks += 4;
        }
        for variant in [0u8, 1, 2] {
            for (sig, what, at) in line(region, variant, 400) {
                let c = Case {
                    front: "line".into(),
                    region: region.to_string(),
                    state: St { dr: 0, adr: true, cnt: variant as u32, owed_ack: false, confirmed: false, has_down: false, models: vec![] },
                    event: E::Up { confirmed: false, outcome: 0 },
                    path_len: at,
                };
                ctx.violation(sig, what, serde_json::to_value(&c).unwrap(), at);
            }
            line_uplinks += 401;
            ctx.tick(401);
        }
    }
    transitions += line_uplinks;
    let coverage = json!({
        "line_history_uplinks": line_uplinks,
        "states": states_total,
        "transitions": transitions,
        "traces_validated_against_impl": transitions,
        "samples": [serde_json::to_value(Case { front: "nb".into(), region: "EU868".into(), state: St { dr: 5, adr: true, cnt: 95, owed_ack: true, confirmed: false, has_down: true, models: vec![Model { cnt: 95, dr: 5, owed: true, adr: true, strict: true }] }, event: E::Up { confirmed: true, outcome: 0 }, path_len: 96 }).unwrap()],
        "evaluations": ctx.evals(),
        "distinct_nontrivial": states_total,
        "rule": "complete reachable graph of (data rate, ADR flag, ADR counter, owed ACK, last uplink confirmed, downlink seen, reference-model candidates) from the fresh session at the highest uplink rate, per region and front-end (nb; async with Class C); every state is restored on a fresh real device through Session (de)serialisation + public setters, then one event is applied: uplink (confirmed / unconfirmed) with outcome {nothing, accepted unconfirmed dl RX1, accepted confirmed dl RX2, rejected dl, authentic but oversized dl in RX2, Class C accepted dl before RX1 / RX2, confirmed Class C dl before RX1 followed by an unconfirmed dl in RX1}, set_adr(on/off), set_datarate(lowest/middle/highest, and DR8 above the RFU gap of the fixed plans). The counter dimension is followed until it has passed every back-off step plus two periods. In addition, in every region, two straight-line histories of 400 unanswered uplinks on one device instance (after an accepted LinkADRReq that commands a TX power, without one, and - 72-channel plans - after one that leaves only the 500 kHz channels enabled), each uplink compared with the back-off schedule; all 27 patterns of three downlinks {none, unconfirmed, confirmed} on a device whose one-entry downlink queue the application empties every other uplink (ACK bit of every uplink)",
        "max_adr_counter_reached": max_cnt_seen,
        "regions": regions,
        "outcomes": outcomes,
        "exhaustive": !capped,
        "capped": capped,
    });
    let replayer = |cj: &Value| -> Vec<String> {
        let c: Case = serde_json::from_value(cj.clone()).unwrap();
        if c.front == "line" {
            return line(&c.region, c.state.cnt as u8, 400).into_iter().map(|x| x.0).collect();
        }
        if c.front == "queue" {
            let p = [(c.state.cnt / 9 % 3) as u8, (c.state.cnt / 3 % 3) as u8, (c.state.cnt % 3) as u8];
            return queue_scenario(&c.region, p).into_iter().map(|x| x.0).collect();
        }
        step(&c.front, &c.region, &c.state, &c.event).0.into_iter().map(|x| x.0).collect()
    };
    ctx.finish(
        "model_checking",
        coverage,
        vec![
            "state restoration relies on the public Session serde interface and public setters (their losslessness is C20's subject); the frame counters are normalised (they appear only in frame bytes, never in the control flow of this property)".into(),
            "where the statement is silent (do uplinks sent while ADR is disabled count?) the model adopts the device's own counter at the moment ADR is re-enabled; after a Class C downlink accepted mid-transaction both 0 and 1 are admissible counts".into(),
            "header fields are decoded with refcodec; the data rate is read from the TxConfig handed to the radio".into(),
        ],
        Some(&replayer),
    );
}
