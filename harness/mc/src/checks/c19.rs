//! C19 — MAC-command builders, parsers and identifier text forms round-trip.
//! Each builder is explored as a small state machine (sequences of setter calls with exhaustive
//! value domains for fields up to 16 bits) against a plain field-value model; built streams are
//! parsed back; text forms are enumerated.
use crate::checks::{load_case, replay_exit};
use crate::ctx::{Ctx, Tier, catch, hex, panic_site};
use lorawan::certification::*;
use lorawan::default_crypto::{DefaultCrypto, DefaultNetworkCrypto};
use lorawan::keys::{AES128, McKey};
use lorawan::maccommandcreator::*;
use lorawan::maccommands::{DownlinkMacCommand, SerializableMacCommand, UplinkMacCommand, mac_commands_len, parse_downlink_mac_commands, parse_uplink_mac_commands};
use lorawan::multicast::*;
use lorawan::parser::McAddr;
use rayon::prelude::*;
use serde::{Deserialize, Serialize};
use serde_json::{Value, json};
use std::str::FromStr;
use std::sync::atomic::{AtomicU64, Ordering};

#[derive(Clone, Copy, Debug, PartialEq, Eq)]
pub enum SetRes {
    Accepted,
    Refused,
}

pub struct Field {
    pub name: &'static str,
    /// full value domain to enumerate (as u64)
    pub domain: Vec<u64>,
    /// boundary subset used in the non-leading positions of sequences
    pub boundary: Vec<u64>,
    pub admissible: fn(u64) -> bool,
    /// value an accepted out-of-range input may be truncated to
    pub trunc: fn(u64) -> u64,
}

pub struct Builder {
    pub name: &'static str,
    pub fields: Vec<Field>,
    /// initial value of every field
    pub init: Vec<u64>,
    /// Applies (field, value) ops on a fresh creator, builds, parses back and reads every field.
    /// Returns per-op results and the readings (Err = round trip broke structurally).
    #[allow(clippy::type_complexity)]
    pub run: Box<dyn Fn(&[(usize, u64)]) -> (Vec<SetRes>, Result<Vec<u64>, String>) + Sync + Send>,
}

fn d8() -> Vec<u64> {
    (0..=255).collect()
}
fn b8() -> Vec<u64> {
    vec![0, 1, 3, 4, 15, 16, 0x55, 0xAA, 127, 128, 255]
}
fn dbool() -> Vec<u64> {
    vec![0, 1]
}
fn d16() -> Vec<u64> {
    (0..=0xFFFF).collect()
}
fn b16() -> Vec<u64> {
    vec![0, 1, 0xFF, 0x100, 0x7FFF, 0x8000, 0xFFFF, 0x1234]
}
fn d24() -> Vec<u64> {
    let mut v: Vec<u64> = vec![0, 1, 0xFF, 0x100, 0xFFFF, 0x1_0000, 0x7F_FFFF, 0x80_0000, 0xFF_FFFF, 0x12_3456, 8_681_000];
    for i in 0..24 {
        v.push(1 << i);
        v.push(0xFF_FFFF ^ (1 << i));
    }
    v
}
fn d32() -> Vec<u64> {
    let mut v: Vec<u64> = vec![0, 1, 0xFFFF, 0x1_0000, 0x7FFF_FFFF, 0x8000_0000, 0xFFFF_FFFF, 0x0102_0304, 0x1234_5678];
    for i in 0..32 {
        v.push(1 << i);
    }
    v
}
fn any(_: u64) -> bool {
    true
}
fn id(v: u64) -> u64 {
    v
}
fn le15(v: u64) -> bool {
    v <= 15
}
fn lo4(v: u64) -> u64 {
    v & 0x0f
}
fn lo2(v: u64) -> u64 {
    v & 3
}
fn lt4(v: u64) -> bool {
    v < 4
}
fn lo3(v: u64) -> u64 {
    v & 7
}
fn lt8(v: u64) -> bool {
    v < 8
}

fn f(name: &'static str, domain: Vec<u64>, boundary: Vec<u64>, admissible: fn(u64) -> bool, trunc: fn(u64) -> u64) -> Field {
    Field { name, domain, boundary, admissible, trunc }
}

fn r<T>(x: Result<T, impl Sized>) -> SetRes {
    if x.is_ok() { SetRes::Accepted } else { SetRes::Refused }
}

fn fb(v: u64) -> [u8; 3] {
    let b = (v as u32).to_le_bytes();
    [b[0], b[1], b[2]]
}

const EIRP: [u8; 16] = [8, 10, 12, 13, 14, 16, 18, 20, 21, 24, 26, 27, 29, 30, 33, 36];

macro_rules! one_down {
    ($bytes:expr, $pat:pat => $body:expr) => {{
        let b: &[u8] = $bytes;
        let mut it = parse_downlink_mac_commands(b);
        match (it.next(), it.next()) {
            (Some(Ok($pat)), None) => Ok($body),
            (a, b2) => Err(format!("stream {} parsed as {:?} then {:?}", hex(b), a, b2.is_some())),
        }
    }};
}
macro_rules! one_up {
    ($bytes:expr, $pat:pat => $body:expr) => {{
        let b: &[u8] = $bytes;
        let mut it = parse_uplink_mac_commands(b);
        match (it.next(), it.next()) {
            (Some(Ok($pat)), None) => Ok($body),
            (a, b2) => Err(format!("stream {} parsed as {:?} then {:?}", hex(b), a, b2.is_some())),
        }
    }};
}

pub fn builders() -> Vec<Builder> {
    let mut v: Vec<Builder> = vec![];
    v.push(Builder {
        name: "LinkCheckAns",
        fields: vec![f("margin", d8(), b8(), any, id), f("gateway_count", d8(), b8(), any, id)],
        init: vec![0, 0],
        run: Box::new(|ops| {
            let mut c = LinkCheckAnsCreator::new();
            let mut rs = vec![];
            for &(i, x) in ops {
                match i {
                    0 => {
                        c.set_margin(x as u8);
                    }
                    _ => {
                        c.set_gateway_count(x as u8);
                    }
                }
                rs.push(SetRes::Accepted);
            }
            (rs, one_down!(c.build(), DownlinkMacCommand::LinkCheckAns(p) => vec![p.margin() as u64, p.gateway_count() as u64]))
        }),
    });
    v.push(Builder {
        name: "LinkADRReq",
        fields: vec![f("data_rate", d8(), b8(), le15, lo4), f("tx_power", d8(), b8(), le15, lo4), f("channel_mask", d16(), b16(), any, id), f("redundancy", d8(), b8(), any, id)],
        init: vec![0, 0, 0, 0],
        run: Box::new(|ops| {
            let mut c = LinkADRReqCreator::new();
            let mut rs = vec![];
            for &(i, x) in ops {
                rs.push(match i {
                    0 => r(c.set_data_rate(x as u8)),
                    1 => r(c.set_tx_power(x as u8)),
                    2 => {
                        c.set_channel_mask([(x & 0xff) as u8, (x >> 8) as u8]);
                        SetRes::Accepted
                    }
                    _ => {
                        c.set_redundancy(x as u8);
                        SetRes::Accepted
                    }
                });
            }
            (rs, one_down!(c.build(), DownlinkMacCommand::LinkADRReq(p) => {
                let m = p.channel_mask();
                vec![p.data_rate() as u64, p.tx_power() as u64, m.as_ref()[0] as u64 | ((m.as_ref()[1] as u64) << 8), p.redundancy().raw_value() as u64]
            }))
        }),
    });
    v.push(Builder {
        name: "DutyCycleReq",
        fields: vec![f("max_duty_cycle", d8(), b8(), le15, lo4)],
        init: vec![0],
        run: Box::new(|ops| {
            let mut c = DutyCycleReqCreator::new();
            let rs = ops.iter().map(|&(_, x)| r(c.set_max_duty_cycle(x as u8))).collect();
            (rs, one_down!(c.build(), DownlinkMacCommand::DutyCycleReq(p) => vec![p.max_duty_cycle_raw() as u64]))
        }),
    });
    v.push(Builder {
        name: "RXParamSetupReq",
        fields: vec![f("dl_settings", d8(), b8(), any, id), f("frequency", d24(), d24()[..8].to_vec(), any, id)],
        init: vec![0, 0],
        run: Box::new(|ops| {
            let mut c = RXParamSetupReqCreator::new();
            let mut rs = vec![];
            for &(i, x) in ops {
                if i == 0 {
                    c.set_dl_settings(x as u8);
                } else {
                    c.set_frequency(&fb(x));
                }
                rs.push(SetRes::Accepted);
            }
            (rs, one_down!(c.build(), DownlinkMacCommand::RXParamSetupReq(p) => vec![p.dl_settings().raw_value() as u64, (p.frequency().value() / 100) as u64]))
        }),
    });
    v.push(Builder {
        name: "NewChannelReq",
        fields: vec![f("channel_index", d8(), b8(), any, id), f("frequency", d24(), d24()[..8].to_vec(), any, id), f("data_rate_range", d8(), b8(), any, id)],
        init: vec![0, 0, 0],
        run: Box::new(|ops| {
            let mut c = NewChannelReqCreator::new();
            let mut rs = vec![];
            for &(i, x) in ops {
                match i {
                    0 => {
                        c.set_channel_index(x as u8);
                    }
                    1 => {
                        c.set_frequency(&fb(x));
                    }
                    _ => {
                        c.set_data_rate_range(x as u8);
                    }
                }
                rs.push(SetRes::Accepted);
            }
            (rs, one_down!(c.build(), DownlinkMacCommand::NewChannelReq(p) => {
                let raw = p.bytes()[4] as u64;
                // a well-ordered range is exposed by the accessor with the same bounds
                let rng = match p.data_rate_range() {
                    Ok(rg) => rg.raw_value() as u64,
                    Err(_) => if (raw >> 4) < (raw & 15) { raw } else { 0x1_0000 },
                };
                vec![p.channel_index() as u64, (p.frequency().value() / 100) as u64, rng]
            }))
        }),
    });
    v.push(Builder {
        name: "RXTimingSetupReq",
        fields: vec![f("delay", d8(), b8(), le15, lo4)],
        init: vec![0],
        run: Box::new(|ops| {
            let mut c = RXTimingSetupReqCreator::new();
            let rs = ops.iter().map(|&(_, x)| r(c.set_delay(x as u8))).collect();
            (rs, one_down!(c.build(), DownlinkMacCommand::RXTimingSetupReq(p) => vec![p.delay() as u64]))
        }),
    });
    v.push(Builder {
        name: "TXParamSetupReq",
        fields: vec![f("downlink_dwell_time", dbool(), dbool(), any, id), f("uplink_dwell_time", dbool(), dbool(), any, id), f("max_eirp", d8(), b8(), le15, lo4)],
        init: vec![0, 0, 0],
        run: Box::new(|ops| {
            let mut c = TXParamSetupReqCreator::new();
            let mut rs = vec![];
            for &(i, x) in ops {
                rs.push(match i {
                    0 => {
                        c.set_downlink_dwell_time(x != 0);
                        SetRes::Accepted
                    }
                    1 => {
                        c.set_uplink_dwell_time(x != 0);
                        SetRes::Accepted
                    }
                    _ => r(c.set_max_eirp(x as u8)),
                });
            }
            (rs, one_down!(c.build(), DownlinkMacCommand::TXParamSetupReq(p) => {
                let idx = EIRP.iter().position(|e| *e == p.max_eirp()).map(|i| i as u64).unwrap_or(0xFFFF);
                vec![p.downlink_dwell_time() as u64, p.uplink_dwell_time() as u64, idx]
            }))
        }),
    });
    v.push(Builder {
        name: "DlChannelReq",
        fields: vec![f("channel_index", d8(), b8(), any, id), f("frequency", d24(), d24()[..8].to_vec(), any, id)],
        init: vec![0, 0],
        run: Box::new(|ops| {
            let mut c = DlChannelReqCreator::new();
            let mut rs = vec![];
            for &(i, x) in ops {
                if i == 0 {
                    c.set_channel_index(x as u8);
                } else {
                    c.set_frequency(&fb(x));
                }
                rs.push(SetRes::Accepted);
            }
            (rs, one_down!(c.build(), DownlinkMacCommand::DlChannelReq(p) => vec![p.channel_index() as u64, (p.frequency().value() / 100) as u64]))
        }),
    });
    v.push(Builder {
        name: "DeviceTimeAns",
        fields: vec![
            f("seconds", d32(), d32()[..9].to_vec(), any, id),
            // the field holds 1/256 s: admissible nanosecond values are the multiples of 3906250 below one second
            f("nano_seconds", (0..=257).map(|k| k * 3_906_250).chain([1, 3_906_249, 999_999_999, 1_000_000_001, 0xFFFF_FFFF]).collect(), vec![0, 3_906_250, 996_093_750], |v| v % 3_906_250 == 0 && v / 3_906_250 <= 255, |v| ((v / 3_906_250) & 0xff) * 3_906_250),
        ],
        init: vec![0, 0],
        run: Box::new(|ops| {
            let mut c = DeviceTimeAnsCreator::new();
            let mut rs = vec![];
            for &(i, x) in ops {
                rs.push(if i == 0 {
                    c.set_seconds(x as u32);
                    SetRes::Accepted
                } else {
                    r(c.set_nano_seconds(x as u32))
                });
            }
            (rs, one_down!(c.build(), DownlinkMacCommand::DeviceTimeAns(p) => vec![p.seconds() as u64, p.nano_seconds() as u64]))
        }),
    });
    // ---- uplink set
    macro_rules! ack_builder {
        ($name:literal, $creator:ident, $variant:ident, [$(($fname:literal, $setter:ident, $getter:ident)),+]) => {
            v.push(Builder {
                name: $name,
                fields: vec![$(f($fname, dbool(), dbool(), any, id)),+],
                init: vec![$({ let _ = $fname; 0 }),+],
                run: Box::new(|ops| {
                    let mut c = $creator::new();
                    let mut rs = vec![];
                    for &(i, x) in ops {
                        let mut k = 0;
                        $( if i == k { c.$setter(x != 0); } k += 1; )+
                        let _ = k;
                        rs.push(SetRes::Accepted);
                    }
                    (rs, one_up!(c.build(), UplinkMacCommand::$variant(p) => vec![$(p.$getter() as u64),+]))
                }),
            });
        };
    }
    ack_builder!("LinkADRAns", LinkADRAnsCreator, LinkADRAns, [("channel_mask_ack", set_channel_mask_ack, channel_mask_ack), ("data_rate_ack", set_data_rate_ack, data_rate_ack), ("tx_power_ack", set_tx_power_ack, powert_ack)]);
    ack_builder!("RXParamSetupAns", RXParamSetupAnsCreator, RXParamSetupAns, [("channel_ack", set_channel_ack, channel_ack), ("rx2_data_rate_ack", set_rx2_data_rate_ack, rx2_data_rate_ack), ("rx1_dr_offset_ack", set_rx1_data_rate_offset_ack, rx1_dr_offset_ack)]);
    ack_builder!("NewChannelAns", NewChannelAnsCreator, NewChannelAns, [("channel_freq_ack", set_channel_frequency_ack, channel_freq_ack), ("data_rate_range_ack", set_data_rate_range_ack, data_rate_range_ack)]);
    ack_builder!("DlChannelAns", DlChannelAnsCreator, DlChannelAns, [("channel_freq_ack", set_channel_frequency_ack, channel_freq_ack), ("uplink_freq_ack", set_uplink_frequency_exists_ack, uplink_freq_ack)]);
    v.push(Builder {
        name: "DevStatusAns",
        // margin is passed as the i8 bit pattern
        fields: vec![f("battery", d8(), b8(), any, id), f("margin", d8(), vec![0, 1, 31, 32, 0xE0, 0xDF, 0xFF, 0x80], |v| (-32..=31).contains(&(v as u8 as i8)), |v| (((v as u8) << 2) as i8 >> 2) as u8 as u64)],
        init: vec![0, 0],
        run: Box::new(|ops| {
            let mut c = DevStatusAnsCreator::new();
            let mut rs = vec![];
            for &(i, x) in ops {
                rs.push(if i == 0 {
                    c.set_battery(x as u8);
                    SetRes::Accepted
                } else {
                    r(c.set_margin(x as u8 as i8))
                });
            }
            (rs, one_up!(c.build(), UplinkMacCommand::DevStatusAns(p) => vec![p.battery() as u64, p.margin() as u8 as u64]))
        }),
    });
    // ---- certification
    v.push(Builder {
        name: "RxAppCntAns",
        fields: vec![f("rx_app_cnt", d16(), b16(), any, id)],
        init: vec![0],
        run: Box::new(|ops| {
            let mut c = RxAppCntAnsCreator::new();
            let rs = ops
                .iter()
                .map(|&(_, x)| {
                    c.set_rx_app_cnt(x as u16);
                    SetRes::Accepted
                })
                .collect();
            let b = c.build().to_vec();
            let mut it = parse_uplink_dut_commands(&b);
            let rd = match (it.next(), it.next()) {
                (Some(Ok(UplinkDUTCommand::RxAppCntAns(p))), None) => Ok(vec![u16::from_le_bytes([p.bytes()[0], p.bytes()[1]]) as u64]),
                (a, _) => Err(format!("{} parsed as {a:?}", hex(&b))),
            };
            (rs, rd)
        }),
    });
    v.push(Builder {
        name: "DutVersionsAns",
        // the 12 raw bytes are driven by a pattern index
        fields: vec![f("versions_raw", (0..64).collect(), vec![0, 1, 63], any, id)],
        init: vec![0x1_0000],
        run: Box::new(|ops| {
            let mut c = DutVersionsAnsCreator::new();
            let pat = |k: u64| -> [u8; 12] { core::array::from_fn(|i| (k as u8).wrapping_mul(37).wrapping_add(i as u8 * 11) ^ if k & 1 != 0 { 0xFF } else { 0 }) };
            let mut last = None;
            let rs = ops
                .iter()
                .map(|&(_, x)| {
                    c.set_versions_raw(pat(x));
                    last = Some(x);
                    SetRes::Accepted
                })
                .collect();
            let b = c.build().to_vec();
            let mut it = parse_uplink_dut_commands(&b);
            let rd = match (it.next(), it.next()) {
                (Some(Ok(UplinkDUTCommand::DutVersionsAns(p))), None) => {
                    let want = last.map(pat).unwrap_or([0; 12]);
                    Ok(vec![if p.bytes() == want { last.unwrap_or(0x1_0000) } else { 0xDEAD }])
                }
                (a, _) => Err(format!("{} parsed as {a:?}", hex(&b))),
            };
            (rs, rd)
        }),
    });
    v.push(Builder {
        name: "EchoIncPayloadAns",
        // value = payload length; content is a position pattern; the builder answers with every byte + 1
        fields: vec![f("payload_len", (0..=260).collect(), vec![1, 2, 241], |v| (1..=241).contains(&v), |v| if v == 0 { 0 } else { v.min(241) })],
        init: vec![0x1_0000],
        run: Box::new(|ops| {
            let mut c = EchoIncPayloadAnsCreator::new();
            let mut last = None;
            let rs = ops
                .iter()
                .map(|&(_, x)| {
                    let data: Vec<u8> = (0..x as usize).map(|i| (i as u8).wrapping_mul(5).wrapping_add(250)).collect();
                    c.payload(&data);
                    last = Some(x);
                    SetRes::Accepted
                })
                .collect();
            let b = c.build().to_vec();
            let mut it = parse_uplink_dut_commands(&b);
            let rd = match (it.next(), it.next()) {
                (Some(Ok(UplinkDUTCommand::EchoIncPayloadAns(p))), None) => {
                    let n = p.payload().len();
                    let ok = p.payload().iter().enumerate().all(|(i, b)| *b == (i as u8).wrapping_mul(5).wrapping_add(250).wrapping_add(1));
                    Ok(vec![if ok { n as u64 } else { 0xDEAD }])
                }
                // no payload (never set, or set to empty) is not a command: the parser may refuse it
                (None, _) | (Some(Err(_)), _) if last.is_none() || last == Some(0) => Ok(vec![last.map(|_| 0).unwrap_or(0x1_0000)]),
                (a, _) => Err(format!("{} parsed as {a:?}", hex(&b))),
            };
            (rs, rd)
        }),
    });
    // ---- multicast setup
    v.push(Builder {
        name: "PackageVersionAns",
        fields: vec![f("package_identifier", d8(), b8(), any, id), f("package_version", d8(), b8(), any, id)],
        init: vec![0, 0],
        run: Box::new(|ops| {
            let mut c = PackageVersionAnsCreator::new();
            let mut rs = vec![];
            for &(i, x) in ops {
                if i == 0 {
                    c.package_identifier(x as u8);
                } else {
                    c.package_version(x as u8);
                }
                rs.push(SetRes::Accepted);
            }
            let b = c.build().to_vec();
            let mut it = parse_uplink_multicast_commands(&b);
            let rd = match (it.next(), it.next()) {
                (Some(Ok(UplinkRemoteSetup::PackageVersionAns(p))), None) => Ok(vec![p.package_identifier() as u64, p.package_version() as u64]),
                (a, _) => Err(format!("{} parsed as {a:?}", hex(&b))),
            };
            (rs, rd)
        }),
    });
    macro_rules! id_builder {
        ($name:literal, $creator:ident, $parse:ident, $enum:ident :: $variant:ident) => {
            v.push(Builder {
                name: $name,
                fields: vec![f("mc_group_id_header", d8(), b8(), lt4, lo2)],
                init: vec![0],
                run: Box::new(|ops| {
                    let mut c = $creator::new();
                    let rs = ops
                        .iter()
                        .map(|&(_, x)| {
                            c.mc_group_id_header(x as u8);
                            SetRes::Accepted
                        })
                        .collect();
                    let b = c.build().to_vec();
                    let mut it = $parse(&b);
                    let rd = match (it.next(), it.next()) {
                        (Some(Ok($enum::$variant(p))), None) => Ok(vec![p.mc_group_id_header() as u64]),
                        (a, _) => Err(format!("{} parsed as {a:?}", hex(&b))),
                    };
                    (rs, rd)
                }),
            });
        };
    }
    id_builder!("McGroupSetupAns", McGroupSetupAnsCreator, parse_uplink_multicast_commands, UplinkRemoteSetup::McGroupSetupAns);
    id_builder!("McGroupDeleteReq", McGroupDeleteReqCreator, parse_downlink_multicast_commands, DownlinkRemoteSetup::McGroupDeleteReq);
    v.push(Builder {
        name: "McGroupDeleteAns",
        fields: vec![f("mc_group_id_header", d8(), b8(), lt4, lo2), f("mc_group_undefined", dbool(), dbool(), any, id)],
        init: vec![0, 0],
        run: Box::new(|ops| {
            let mut c = McGroupDeleteAnsCreator::new();
            let mut rs = vec![];
            for &(i, x) in ops {
                if i == 0 {
                    c.mc_group_id_header(x as u8);
                } else {
                    c.mc_group_undefined(x != 0);
                }
                rs.push(SetRes::Accepted);
            }
            let b = c.build().to_vec();
            let mut it = parse_uplink_multicast_commands(&b);
            let rd = match (it.next(), it.next()) {
                (Some(Ok(UplinkRemoteSetup::McGroupDeleteAns(p))), None) => Ok(vec![p.mc_group_id_header() as u64, p.mc_group_undefined() as u64]),
                (a, _) => Err(format!("{} parsed as {a:?}", hex(&b))),
            };
            (rs, rd)
        }),
    });
    v.push(Builder {
        name: "McGroupStatusReq",
        fields: vec![f("req_group_mask", d8(), b8(), le15, lo4)],
        init: vec![0],
        run: Box::new(|ops| {
            let mut c = McGroupStatusReqCreator::new();
            let rs = ops
                .iter()
                .map(|&(_, x)| {
                    c.req_group_mask(x as u8);
                    SetRes::Accepted
                })
                .collect();
            let b = c.build().to_vec();
            let mut it = parse_downlink_multicast_commands(&b);
            let rd = match (it.next(), it.next()) {
                (Some(Ok(DownlinkRemoteSetup::McGroupStatusReq(p))), None) => Ok(vec![p.req_group_mask() as u64]),
                (a, _) => Err(format!("{} parsed as {a:?}", hex(&b))),
            };
            (rs, rd)
        }),
    });
    v.push(Builder {
        name: "McGroupSetupReq",
        fields: vec![
            f("mc_group_id_header", d8(), b8(), lt4, lo2),
            f("mc_addr", d32(), d32()[..9].to_vec(), any, id),
            f("min_mc_fcount", d32(), d32()[..9].to_vec(), any, id),
            f("max_mc_fcount", d32(), d32()[..9].to_vec(), any, id),
            f("mc_key", (0..8).collect(), vec![0, 7], any, id),
        ],
        init: vec![0, 0, 0, 0, 0x1_0000],
        run: Box::new(|ops| {
            let mut c = McGroupSetupReqCreator::new();
            let ke = [0x66u8; 16];
            let key_of = |k: u64| -> [u8; 16] { core::array::from_fn(|i| (k as u8).wrapping_mul(0x21).wrapping_add(i as u8 * 7)) };
            let mut rs = vec![];
            for &(i, x) in ops {
                match i {
                    0 => {
                        c.mc_group_id_header(x as u8);
                    }
                    1 => {
                        c.mc_addr(&McAddr::from_value(x as u32));
                    }
                    2 => {
                        c.min_mc_fcount(x as u32);
                    }
                    3 => {
                        c.max_mc_fcount(x as u32);
                    }
                    _ => {
                        c.mc_key(&DefaultNetworkCrypto::new(&AES128(ke)), &McKey::from(key_of(x)));
                    }
                }
                rs.push(SetRes::Accepted);
            }
            let b = c.build().to_vec();
            let mut it = parse_downlink_multicast_commands(&b);
            let rd = match (it.next(), it.next()) {
                (Some(Ok(DownlinkRemoteSetup::McGroupSetupReq(p))), None) => {
                    let k = p.mc_key_decrypted(&DefaultCrypto::new(&AES128(ke)));
                    let kk = (0..8u64).find(|x| key_of(*x)[..] == *k.as_ref()).unwrap_or(0x1_0000);
                    Ok(vec![p.mc_group_id_header() as u64, p.mc_addr().value() as u64, p.min_mc_fcount() as u64, p.max_mc_fcount() as u64, kk])
                }
                (a, _) => Err(format!("{} parsed as {a:?}", hex(&b))),
            };
            (rs, rd)
        }),
    });
    v
}

#[derive(Clone, Debug, Serialize, Deserialize)]
pub struct Case {
    pub builder: String,
    pub ops: Vec<(usize, u64)>,
}

/// Runs a setter sequence and judges it against the field-value model.
pub fn eval_seq(b: &Builder, ops: &[(usize, u64)]) -> Vec<(String, String)> {
    let mut out = vec![];
    let res = catch(|| (b.run)(ops));
    let (rs, reads) = match res {
        Err(p) => {
            let (i, x) = ops.last().copied().unwrap_or((0, 0));
            let adm = (b.fields[i].admissible)(x);
            return vec![(
                format!("C19|{}|{}|panic|{}", b.name, b.fields[i].name, if adm { "admissible-value" } else { "out-of-range-value" }),
                format!("ops {:?}: {p}", ops),
            )];
        }
        Ok(x) => x,
    };
    // model
    let mut model: Vec<Vec<u64>> = b.init.iter().map(|v| vec![*v]).collect();
    for (k, &(i, x)) in ops.iter().enumerate() {
        let fld = &b.fields[i];
        if (fld.admissible)(x) {
            if rs[k] == SetRes::Refused {
                out.push((format!("C19|{}|{}|admissible-value-refused", b.name, fld.name), format!("value {x:#x}")));
                return out;
            }
            model[i] = vec![x];
        } else if rs[k] == SetRes::Accepted {
            // accepted out-of-range input: must be truncated to the field
            model[i] = vec![(fld.trunc)(x)];
        }
    }
    match reads {
        Err(e) => {
            let (i, _) = ops.last().copied().unwrap_or((0, 0));
            out.push((format!("C19|{}|{}|built-command-does-not-parse-back", b.name, b.fields[i].name), format!("ops {ops:?}: {e}")));
        }
        Ok(vals) => {
            for (i, fld) in b.fields.iter().enumerate() {
                if !model[i].contains(&vals[i]) {
                    let touched = ops.iter().any(|o| o.0 == i);
                    let last_adm = ops.iter().rev().find(|o| o.0 == i).map(|o| (fld.admissible)(o.1)).unwrap_or(true);
                    let kind = if !touched {
                        "neighbour-field-disturbed"
                    } else if !last_adm {
                        "out-of-range-value-not-truncated-to-field"
                    } else if ops.iter().filter(|o| o.0 == i).count() > 1 && ops.len() > 1 {
                        "round-trip-after-repeated-set"
                    } else {
                        "round-trip"
                    };
                    out.push((format!("C19|{}|{}|{kind}", b.name, fld.name), format!("ops {ops:?}: parsed {:#x}, expected {:x?}", vals[i], model[i])));
                }
            }
        }
    }
    out
}

// ---- McGroupStatusAns: a builder with push()
fn eval_status_ans(nb: Option<u8>, pushes: &[(u8, u32)], nb_after: Option<u8>) -> Vec<(String, String)> {
    let ops = format!("nb_total_groups {nb:?}, push {pushes:?}, nb_total_groups {nb_after:?}");
    let r = catch(|| {
        let mut c = McGroupStatusAnsCreator::new();
        if let Some(n) = nb {
            c.nb_total_groups(n);
        }
        let mut res = vec![];
        for (g, a) in pushes {
            res.push(c.push(*g, McAddr::from_value(*a)).is_ok());
        }
        if let Some(n) = nb_after {
            c.nb_total_groups(n);
        }
        let b = c.build().to_vec();
        (res, b)
    });
    let (res, bytes) = match r {
        Err(p) => {
            let kind = if pushes.len() > 4 { "fifth-item" } else if pushes.iter().any(|x| x.0 >= 4) { "group-id-out-of-range" } else { "valid-items" };
            return vec![(format!("C19|McGroupStatusAns|push|panic|{kind}"), format!("{ops}: {p}"))];
        }
        Ok(x) => x,
    };
    // model: accepted pushes with valid ids, at most 4
    let mut items: Vec<(u8, u32)> = vec![];
    let mut out = vec![];
    for (k, (g, a)) in pushes.iter().enumerate() {
        let valid = *g < 4 && items.len() < 4;
        if valid {
            if !res[k] {
                out.push(("C19|McGroupStatusAns|push|valid-item-refused".into(), ops.clone()));
                return out;
            }
            items.push((*g, *a));
        } else if res[k] {
            // accepted although out of range: only acceptable if truncated to the field without touching neighbours
            items.push((*g & 3, *a));
        }
    }
    let want_nb = nb_after.or(nb).unwrap_or(0) & 7;
    let mut it = parse_uplink_multicast_commands(&bytes);
    match (it.next(), it.next()) {
        (Some(Ok(UplinkRemoteSetup::McGroupStatusAns(p))), None) => {
            if p.nb_total_groups() != want_nb {
                out.push((
                    format!("C19|McGroupStatusAns|nb_total_groups|{}", if pushes.iter().any(|x| x.0 >= 4) { "neighbour-field-disturbed" } else { "round-trip" }),
                    format!("{ops}: parsed {} expected {want_nb}", p.nb_total_groups()),
                ));
            }
            let got: Vec<(u8, u32)> = p.item_iterator().map(|i| (i.mc_group_id(), i.mc_addr().value())).collect();
            let mask: u8 = items.iter().fold(0, |m, (g, _)| m | (1 << g));
            // items of the same group pushed twice are not representable: only judge distinct groups
            let distinct = items.iter().map(|x| x.0).collect::<std::collections::HashSet<_>>().len() == items.len();
            if distinct && (got != items || p.ans_group_mask() != mask) {
                out.push(("C19|McGroupStatusAns|items|round-trip".into(), format!("{ops}: parsed mask {:#x} items {got:?}, expected mask {mask:#x} items {items:?}", p.ans_group_mask())));
            }
        }
        (a, _) => {
            let distinct = items.iter().map(|x| x.0).collect::<std::collections::HashSet<_>>().len() == items.len();
            if distinct {
                out.push(("C19|McGroupStatusAns|items|built-command-does-not-parse-back".into(), format!("{ops}: {} parsed as {a:?}", hex(&bytes))));
            }
        }
    }
    // the same command followed by two others in one stream: it must parse to the same items and payload
    // bytes, and the followers must come out after it (variable-length framing)
    let mut stream = bytes.clone();
    stream.extend([0x03, 0x06, 0x00, 0x02, 0x01]);
    let alone: Option<(Vec<(u8, u32)>, Vec<u8>)> = match parse_uplink_multicast_commands(&bytes).next() {
        Some(Ok(UplinkRemoteSetup::McGroupStatusAns(p))) => Some((p.item_iterator().map(|i| (i.mc_group_id(), i.mc_addr().value())).collect(), p.bytes().to_vec())),
        _ => None,
    };
    let distinct_groups = items.iter().map(|x| x.0).collect::<std::collections::HashSet<_>>().len() == items.len();
    if let Some((items_alone, bytes_alone)) = alone
        && distinct_groups
    {
        let mut it = parse_uplink_multicast_commands(&stream);
        let first = it.next();
        let rest: Vec<bool> = it.map(|x| x.is_ok()).collect();
        match first {
            Some(Ok(UplinkRemoteSetup::McGroupStatusAns(p))) => {
                let got: Vec<(u8, u32)> = p.item_iterator().map(|i| (i.mc_group_id(), i.mc_addr().value())).collect();
                if got != items_alone || p.bytes() != &bytes_alone[..] || rest != vec![true, true] {
                    out.push((
                        "C19|McGroupStatusAns|in-a-stream|differs-from-alone".into(),
                        format!("{ops}: alone items {items_alone:?} ({} payload bytes); followed by 03 06 00 02 01: items {got:?} ({} payload bytes), followers parsed {rest:?}", bytes_alone.len(), p.bytes().len()),
                    ));
                }
            }
            other => out.push(("C19|McGroupStatusAns|in-a-stream|does-not-parse".into(), format!("{ops}: {} parsed as {other:?}", hex(&stream)))),
        }
    }
    out
}


// ---- validated constructors (`Payload::new`, `Frequency::new`, `ChannelMask::new`): the bytes a builder
// produced (without the CID) must come back as the same command; shorter input is refused; longer input
// is refused or cut to the command and never leaks into it
/// kind 0: McGroupStatusAns (x = group mask | tail << 8); 1: Frequency (x = 24-bit value | len << 24);
/// 2: ChannelMask (x = 16-bit mask | len << 16); 3: fixed-length derive-generated payloads
/// (x = selector | delta+1 << 8 | value << 16); 4: payloads that run to the end of the frame (x = len)
pub fn eval_ctor(kind: usize, x: u64) -> Vec<(String, String)> {
    let mut out = vec![];
    match kind {
        0 => {
            let mask = (x & 0xF) as u8;
            let tail = ((x >> 8) & 0xF) as usize;
            let r = catch(|| {
                let mut c = McGroupStatusAnsCreator::new();
                c.nb_total_groups(mask.count_ones() as u8);
                let mut items = vec![];
                for g in 0..4u8 {
                    if mask & (1 << g) != 0 {
                        let a = 0xC0DE_0000 + g as u32;
                        let _ = c.push(g, McAddr::from_value(a));
                        items.push((g, a));
                    }
                }
                let built = c.build().to_vec();
                let payload = built[1..].to_vec();
                let mut data = payload.clone();
                data.extend(std::iter::repeat_n(0xEE, tail));
                let full = McGroupStatusAnsPayload::new(&data).ok().map(|p| (p.bytes().to_vec(), p.len(), p.item_iterator().map(|i| (i.mc_group_id(), i.mc_addr().value())).collect::<Vec<_>>(), p.ans_group_mask()));
                let short = McGroupStatusAnsPayload::new(&payload[..payload.len() - 1]).is_ok();
                (items, payload, full, short)
            });
            match r {
                Err(p) => out.push(("C19|ctor|McGroupStatusAnsPayload::new|panic".into(), format!("mask {mask:#x} tail {tail}: {p}"))),
                Ok((items, payload, full, short)) => {
                    match full {
                        None => out.push(("C19|ctor|McGroupStatusAnsPayload::new|built-command-refused".into(), format!("mask {mask:#x}: payload {} + {tail} trailing bytes refused", hex(&payload)))),
                        Some((bytes, len, got, m)) => {
                            if bytes != payload || len != payload.len() || got != items || m != mask {
                                out.push((
                                    "C19|ctor|McGroupStatusAnsPayload::new|round-trip".into(),
                                    format!("mask {mask:#x}: built payload {} (+{tail} trailing bytes) came back as {} (len() {len}), items {got:?}, expected {items:?}", hex(&payload), hex(&bytes)),
                                ));
                            }
                        }
                    }
                    if short {
                        out.push(("C19|ctor|McGroupStatusAnsPayload::new|truncated-command-accepted".into(), format!("mask {mask:#x}: {} minus its last byte was accepted", hex(&payload))));
                    }
                }
            }
        }
        1 => {
            let v = x & 0xFF_FFFF;
            let len = ((x >> 24) & 7) as usize;
            let buf = [v as u8, (v >> 8) as u8, (v >> 16) as u8, 0x50, 0xAA, 0x55, 0xFF];
            let r = catch(|| {
                lorawan::types::Frequency::new(&buf[..len]).map(|f| {
                    let bytes = f.as_ref().to_vec();
                    let val = if bytes.len() >= 3 { Some(f.value()) } else { None };
                    // a frequency taken from a constructor must be usable in a builder
                    let set = catch(|| {
                        let mut c = NewChannelReqCreator::new();
                        c.set_channel_index(3).set_frequency(f);
                        let b = c.build().to_vec();
                        b[2..5].to_vec()
                    });
                    (bytes, val, set)
                })
            });
            match r {
                Err(p) => out.push(("C19|ctor|Frequency::new|panic".into(), format!("{len} bytes: {p}"))),
                Ok(None) => {
                    if len == 3 {
                        out.push(("C19|ctor|Frequency::new|exact-length-refused".into(), format!("value {v:#x}")));
                    }
                }
                Ok(Some((bytes, val, set))) => {
                    if len < 3 {
                        out.push(("C19|ctor|Frequency::new|short-input-accepted".into(), format!("{len} bytes")));
                    } else if bytes != buf[..3] || val != Some(v as u32 * 100) {
                        out.push((
                            format!("C19|ctor|Frequency::new|{}", if len == 3 { "round-trip" } else { "long-input-not-cut-to-the-field" }),
                            format!("{len} bytes {}: as_ref {} value {val:?}", hex(&buf[..len]), hex(&bytes)),
                        ));
                    } else {
                        match set {
                            Err(p) => out.push(("C19|ctor|Frequency::new|panic-in-setter".into(), p)),
                            Ok(b) => {
                                if b != buf[..3] {
                                    out.push(("C19|ctor|Frequency::new|setter-round-trip".into(), hex(&b)));
                                }
                            }
                        }
                    }
                }
            }
        }
        2 => {
            let len = ((x >> 16) & 0xF) as usize;
            let buf = [x as u8, (x >> 8) as u8, 0x11, 0x22, 0x33, 0x44, 0x55, 0x66, 0x77, 0x88, 0x99, 0xAB];
            macro_rules! cm {
                ($n:literal) => {{
                    let r = catch(|| lorawan::types::ChannelMask::<$n>::new(&buf[..len]).ok().map(|m| m.as_ref().to_vec()));
                    match r {
                        Err(p) => out.push((format!("C19|ctor|ChannelMask<{}>::new|panic", $n), format!("{len} bytes: {p}"))),
                        Ok(None) => {
                            if len >= $n {
                                out.push((format!("C19|ctor|ChannelMask<{}>::new|sufficient-input-refused", $n), format!("{len} bytes")));
                            }
                        }
                        Ok(Some(b)) => {
                            if len < $n {
                                out.push((format!("C19|ctor|ChannelMask<{}>::new|short-input-accepted", $n), format!("{len} bytes")));
                            } else if b != buf[..$n] {
                                out.push((format!("C19|ctor|ChannelMask<{}>::new|round-trip", $n), format!("{} -> {}", hex(&buf[..len]), hex(&b))));
                            }
                        }
                    }
                }};
            }
            cm!(2);
            cm!(9);
        }
        3 => {
            let sel = (x & 0xFF) as usize;
            let delta = ((x >> 8) & 0xFF) as i64 - 1;
            let v = x >> 16;
            macro_rules! fixed {
                ($name:literal, $built:expr, $ty:ty, $read:expr) => {{
                    let built: Vec<u8> = $built;
                    let payload = &built[1..];
                    let mut data = payload.to_vec();
                    data.extend([0xEE, 0xEE]);
                    let n = (payload.len() as i64 + delta).clamp(0, data.len() as i64) as usize;
                    let r = catch(|| <$ty>::new(&data[..n]).ok().map(|p| (p.bytes().to_vec(), $read(&p))));
                    match r {
                        Err(p) => out.push((format!("C19|ctor|{}Payload::new|panic", $name), format!("{n} of {} bytes: {p}", payload.len()))),
                        Ok(None) => {
                            if n == payload.len() {
                                out.push((format!("C19|ctor|{}Payload::new|built-command-refused", $name), hex(payload)));
                            }
                        }
                        Ok(Some((bytes, got))) => {
                            if n < payload.len() {
                                out.push((format!("C19|ctor|{}Payload::new|truncated-command-accepted", $name), format!("{n} of {} bytes", payload.len())));
                            } else if bytes != payload || got != v {
                                out.push((format!("C19|ctor|{}Payload::new|round-trip", $name), format!("{} (+{} extra) came back as {} value {got:#x} expected {v:#x}", hex(payload), n - payload.len(), hex(&bytes))));
                            }
                        }
                    }
                }};
            }
            match sel {
                0 => fixed!(
                    "LinkADRReq",
                    {
                        let mut c = LinkADRReqCreator::new();
                        let _ = c.set_data_rate((v & 0xF) as u8);
                        let _ = c.set_tx_power(((v >> 4) & 0xF) as u8);
                        c.set_channel_mask([(v >> 8) as u8, (v >> 16) as u8]);
                        c.set_redundancy((v >> 24) as u8);
                        c.build().to_vec()
                    },
                    lorawan::maccommands::LinkADRReqPayload,
                    |p: &lorawan::maccommands::LinkADRReqPayload| {
                        let m = p.channel_mask();
                        p.data_rate() as u64 | (p.tx_power() as u64) << 4 | (m.as_ref()[0] as u64) << 8 | (m.as_ref()[1] as u64) << 16 | (p.redundancy().raw_value() as u64) << 24
                    }
                ),
                1 => fixed!(
                    "NewChannelReq",
                    {
                        let mut c = NewChannelReqCreator::new();
                        c.set_channel_index(v as u8);
                        let fbytes = fb(v >> 8);
                        c.set_frequency(lorawan::types::Frequency::new(&fbytes).unwrap());
                        c.set_data_rate_range((v >> 32) as u8);
                        c.build().to_vec()
                    },
                    lorawan::maccommands::NewChannelReqPayload,
                    |p: &lorawan::maccommands::NewChannelReqPayload| p.channel_index() as u64 | ((p.frequency().value() / 100) as u64) << 8 | (p.data_rate_range().map(|r| r.raw_value()).unwrap_or(0xFF) as u64) << 32
                ),
                2 => fixed!(
                    "DevStatusAns",
                    {
                        let mut c = DevStatusAnsCreator::new();
                        c.set_battery(v as u8);
                        let _ = c.set_margin((((v >> 8) & 0x3F) as i8) - 32);
                        c.build().to_vec()
                    },
                    lorawan::maccommands::DevStatusAnsPayload,
                    |p: &lorawan::maccommands::DevStatusAnsPayload| p.battery() as u64 | (((p.margin() as i64 + 32) as u64) & 0x3F) << 8
                ),
                _ => fixed!(
                    "RXTimingSetupReq",
                    {
                        let mut c = RXTimingSetupReqCreator::new();
                        let _ = c.set_delay((v & 0xF) as u8);
                        c.build().to_vec()
                    },
                    lorawan::maccommands::RXTimingSetupReqPayload,
                    |p: &lorawan::maccommands::RXTimingSetupReqPayload| p.delay() as u64
                ),
            }
        }
        _ => {
            let len = (x & 0x1FF) as usize;
            let data: Vec<u8> = (0..len).map(|i| (i as u8).wrapping_mul(7).wrapping_add(3)).collect();
            let r = catch(|| {
                (
                    EchoIncPayloadReqPayload::new(&data).ok().map(|p| p.payload().to_vec()),
                    EchoIncPayloadAnsPayload::new(&data).ok().map(|p| p.payload().to_vec()),
                    TxFramesCtrlReqPayload::new(&data).ok().map(|p| (p.len(), p.frame_type_override().ok())),
                )
            });
            match r {
                Err(p) => out.push(("C19|ctor|to-end-of-frame-payloads|panic".into(), format!("{len} bytes: {p}"))),
                Ok((a, b, c)) => {
                    let want = if len == 0 { None } else { Some(data.clone()) };
                    if a != want {
                        out.push(("C19|ctor|EchoIncPayloadReqPayload::new|round-trip".into(), format!("{len} bytes")));
                    }
                    if b != want {
                        out.push(("C19|ctor|EchoIncPayloadAnsPayload::new|round-trip".into(), format!("{len} bytes")));
                    }
                    if c.map(|x| x.0) != want.as_ref().map(|d| d.len()) {
                        out.push(("C19|ctor|TxFramesCtrlReqPayload::new|round-trip".into(), format!("{len} bytes")));
                    }
                }
            }
        }
    }
    out
}

fn eval_case(c: &Case) -> Vec<(String, String)> {
    if c.builder == "ctor" {
        return eval_ctor(c.ops[0].0, c.ops[0].1);
    }
    if c.builder == "McGroupStatusAns" {
        let nb = c.ops.iter().find(|o| o.0 == 0).map(|o| o.1 as u8);
        let pushes: Vec<(u8, u32)> = c.ops.iter().filter(|o| o.0 == 1).map(|o| ((o.1 >> 32) as u8, o.1 as u32)).collect();
        let nb_after = c.ops.iter().find(|o| o.0 == 2).map(|o| o.1 as u8);
        return eval_status_ans(nb, &pushes, nb_after);
    }
    if c.builder == "text" {
        return eval_text(c.ops[0].0, c.ops[0].1);
    }
    if c.builder == "stream" {
        return eval_stream(&c.ops);
    }
    let bs = builders();
    match bs.iter().find(|b| b.name == c.builder) {
        Some(b) => eval_seq(b, &c.ops),
        None => vec![],
    }
}

// ---- streams of several commands
fn eval_stream(sel: &[(usize, u64)]) -> Vec<(String, String)> {
    // pool of uplink creators with a value each
    let mk = |k: usize, x: u64| -> Box<dyn SerializableMacCommand> {
        match k % 6 {
            0 => {
                let mut c = LinkADRAnsCreator::new();
                c.set_channel_mask_ack(x & 1 != 0).set_data_rate_ack(x & 2 != 0).set_tx_power_ack(x & 4 != 0);
                Box::new(c)
            }
            1 => {
                let mut c = DevStatusAnsCreator::new();
                c.set_battery(x as u8);
                let _ = c.set_margin(((x >> 8) as i8).clamp(-32, 31));
                Box::new(c)
            }
            2 => Box::new(RXTimingSetupAnsCreator::new()),
            3 => {
                let mut c = RXParamSetupAnsCreator::new();
                c.set_channel_ack(x & 1 != 0).set_rx2_data_rate_ack(x & 2 != 0);
                Box::new(c)
            }
            4 => Box::new(lorawan::maccommandcreator::LinkCheckReqCreator::new()),
            _ => {
                let mut c = DlChannelAnsCreator::new();
                c.set_channel_frequency_ack(x & 1 != 0);
                Box::new(c)
            }
        }
    };
    let cmds: Vec<Box<dyn SerializableMacCommand>> = sel.iter().map(|&(k, x)| mk(k, x)).collect();
    let refs: Vec<&dyn SerializableMacCommand> = cmds.iter().map(|b| b.as_ref()).collect();
    let r = catch(|| {
        let n = mac_commands_len(&refs);
        let mut buf = vec![0xEEu8; n + 2];
        let w = build_mac_commands(&refs, &mut buf[..]).map_err(|e| format!("{e:?}"))?;
        // exact-size and one-short buffers
        let mut exact = vec![0u8; n];
        let e2 = build_mac_commands(&refs, &mut exact[..]).is_ok();
        let mut short = vec![0u8; n.saturating_sub(1)];
        let e3 = n > 0 && build_mac_commands(&refs, &mut short[..]).is_ok();
        Ok::<_, String>((n, w, buf, e2, e3))
    });
    let mut out = vec![];
    match r {
        Err(p) => out.push((format!("C19|stream|panic|{}", panic_site(&p)), p)),
        Ok(Err(e)) => out.push(("C19|stream|build-refused".into(), e)),
        Ok(Ok((n, w, buf, e2, e3))) => {
            if w != n || !e2 || e3 {
                out.push(("C19|stream|length-accounting".into(), format!("mac_commands_len {n}, written {w}, exact-buffer ok {e2}, short-buffer ok {e3}")));
            }
            if buf[n..] != [0xEE, 0xEE] {
                out.push(("C19|stream|wrote-past-reported-length".into(), hex(&buf)));
            }
            let parsed: Vec<(u8, Vec<u8>)> = parse_uplink_mac_commands(&buf[..w]).filter_map(|c| c.ok()).map(|c| (c.cid(), c.payload_bytes().to_vec())).collect();
            let want: Vec<(u8, Vec<u8>)> = cmds.iter().map(|c| (c.cid(), c.payload_bytes().to_vec())).collect();
            if parsed != want {
                out.push(("C19|stream|sequence-round-trip".into(), format!("built {want:02x?} parsed {parsed:02x?}")));
            }
        }
    }
    out
}

// ---- text forms
fn msb_hex(wire_lsb_first: &[u8]) -> String {
    wire_lsb_first.iter().rev().map(|b| format!("{b:02x}")).collect()
}

/// kind: 0 DevNonce, 1 JoinNonce, 2 NetId, 3 DevAddr, 4 McAddr, 5 parser::DevEui, 6 parser::JoinEui,
/// 7 keys::DevEui, 8 keys::AppEui, 9 AES keys (pattern index)
pub fn eval_text(kind: usize, x: u64) -> Vec<(String, String)> {
    use lorawan::parser as p;
    let mut out = vec![];
    macro_rules! wire {
        ($t:ty, $name:literal, $val:expr, $n:expr) => {{
            let r = catch(|| {
                let v = <$t>::from_value($val);
                let s = v.to_string();
                let back = <$t>::from_str(&s);
                (v.as_wire_bytes().to_vec(), s, back.map(|b| b.as_wire_bytes().to_vec()).ok())
            });
            match r {
                Err(pn) => out.push((format!("C19|text|{}|panic", $name), pn)),
                Ok((wire, s, back)) => {
                    let want_wire: Vec<u8> = ($val as u64).to_le_bytes()[..$n].to_vec();
                    if wire != want_wire {
                        out.push((format!("C19|text|{}|value-to-wire", $name), format!("value {:#x}: wire {}", $val, hex(&wire))));
                    }
                    if s != msb_hex(&want_wire) {
                        out.push((format!("C19|text|{}|display-not-msb-first-hex", $name), format!("value {:#x}: printed {s}", $val)));
                    }
                    if back != Some(want_wire) {
                        out.push((format!("C19|text|{}|parse-of-printed-form", $name), format!("value {:#x}: printed {s}, parsed back {:?}", $val, back.map(|b| hex(&b)))));
                    }
                }
            }
        }};
    }
    match kind {
        0 => wire!(p::DevNonce, "DevNonce", x as u16, 2),
        1 => wire!(p::JoinNonce, "JoinNonce", x as u32, 3),
        2 => wire!(p::NetId, "NetId", x as u32, 3),
        3 => wire!(p::DevAddr, "DevAddr", x as u32, 4),
        4 => wire!(p::McAddr, "McAddr", x as u32, 4),
        5 => wire!(p::DevEui, "parser::DevEui", x, 8),
        6 => wire!(p::JoinEui, "parser::JoinEui", x, 8),
        7 | 8 => {
            let wirev = x.to_le_bytes();
            let r = catch(|| {
                if kind == 7 {
                    let e = lorawan::keys::DevEui::from(wirev);
                    let s = e.to_string();
                    (s.clone(), lorawan::keys::DevEui::from_str(&s).ok().map(<[u8; 8]>::from), <[u8; 8]>::from(lorawan::parser::DevEui::from(e).as_wire_bytes().to_owned()))
                } else {
                    let e = lorawan::keys::AppEui::from(wirev);
                    let s = e.to_string();
                    (s.clone(), lorawan::keys::AppEui::from_str(&s).ok().map(<[u8; 8]>::from), <[u8; 8]>::from(lorawan::parser::JoinEui::from(e).as_wire_bytes().to_owned()))
                }
            });
            let name = if kind == 7 { "keys::DevEui" } else { "keys::AppEui" };
            match r {
                Err(pn) => out.push((format!("C19|text|{name}|panic"), pn)),
                Ok((s, back, conv)) => {
                    if s != msb_hex(&wirev) {
                        out.push((format!("C19|text|{name}|display-not-msb-first-hex"), format!("wire {} printed {s}", hex(&wirev))));
                    }
                    if back != Some(wirev) {
                        out.push((format!("C19|text|{name}|parse-of-printed-form"), format!("wire {} printed {s} parsed {:?}", hex(&wirev), back)));
                    }
                    if conv != wirev {
                        out.push((format!("C19|text|{name}|conversion-to-parser-type"), hex(&conv)));
                    }
                }
            }
        }
        _ => {
            let key: [u8; 16] = core::array::from_fn(|i| match x {
                0 => 0,
                1 => 0xFF,
                2 => i as u8,
                3 => 0xF0 + i as u8,
                k => (k as u8).wrapping_mul(29).wrapping_add((i as u8).wrapping_mul(k as u8 | 1)),
            });
            macro_rules! key {
                ($t:ty, $name:literal) => {{
                    let r = catch(|| {
                        let k = <$t>::from(key);
                        let s = k.to_string();
                        (s.clone(), <$t>::from_str(&s).ok().map(|b| b.as_ref().to_vec()))
                    });
                    match r {
                        Err(pn) => out.push((format!("C19|text|{}|panic", $name), pn)),
                        Ok((s, back)) => {
                            if s != hex(&key) || back != Some(key.to_vec()) {
                                out.push((format!("C19|text|{}|round-trip", $name), format!("key {} printed {s} parsed {:?}", hex(&key), back.map(|b| hex(&b)))));
                            }
                        }
                    }
                }};
            }
            key!(lorawan::keys::AppKey, "AppKey");
            key!(lorawan::keys::NwkSKey, "NwkSKey");
            key!(lorawan::keys::AppSKey, "AppSKey");
            key!(lorawan::keys::McRootKey, "McRootKey");
            key!(lorawan::keys::McKEKey, "McKEKey");
            key!(lorawan::keys::McNetSKey, "McNetSKey");
            key!(lorawan::keys::McAppSKey, "McAppSKey");
            key!(lorawan::keys::GenAppKey, "GenAppKey");
            key!(lorawan::keys::McKey, "McKey");
        }
    }
    out
}

pub fn run(tier: Tier, replay: Option<&str>) {
    if let Some(path) = replay {
        let c: Case = serde_json::from_value(load_case(path)).expect("case");
        replay_exit("C19", path, eval_case(&c).into_iter().map(|x| x.0).collect());
    }
    let ctx = Ctx::new("C19", tier);
    let th = tier.thorough();
    let states = AtomicU64::new(0);
    let transitions = AtomicU64::new(0);
    let record = |builder: &str, ops: Vec<(usize, u64)>, v: Vec<(String, String)>| {
        for (sig, what) in v {
            ctx.violation(sig, what, serde_json::to_value(Case { builder: builder.into(), ops: ops.clone() }).unwrap(), ops.len());
        }
    };
    // ---- builders as state machines
    let bs = builders();
    bs.par_iter().for_each(|b| {
        let mut n = 0u64;
        let mut t = 0u64;
        // depth 0
        record(b.name, vec![], eval_seq(b, &[]));
        n += 1;
        // depth 1: full domains
        for (i, fld) in b.fields.iter().enumerate() {
            for &x in &fld.domain {
                record(b.name, vec![(i, x)], eval_seq(b, &[(i, x)]));
                n += 1;
                t += 1;
            }
        }
        // depth 2: full x boundary and boundary x full, every ordered pair of setters (incl. the same twice)
        for (i, fi) in b.fields.iter().enumerate() {
            for (j, fj) in b.fields.iter().enumerate() {
                for &x in &fi.domain {
                    for &y in &fj.boundary {
                        record(b.name, vec![(i, x), (j, y)], eval_seq(b, &[(i, x), (j, y)]));
                        record(b.name, vec![(j, y), (i, x)], eval_seq(b, &[(j, y), (i, x)]));
                        n += 2;
                        t += 2;
                    }
                }
            }
        }
        // depth 3 (thorough): boundary^3
        if th {
            let nf = b.fields.len();
            for i in 0..nf {
                for j in 0..nf {
                    for k in 0..nf {
                        for &x in &b.fields[i].boundary {
                            for &y in &b.fields[j].boundary {
                                for &z in &b.fields[k].boundary {
                                    let ops = vec![(i, x), (j, y), (k, z)];
                                    record(b.name, ops.clone(), eval_seq(b, &ops));
                                    n += 1;
                                    t += 1;
                                }
                            }
                        }
                    }
                }
            }
        }
        ctx.tick(n);
        states.fetch_add(n, Ordering::Relaxed);
        transitions.fetch_add(t, Ordering::Relaxed);
    });
    // ---- McGroupStatusAns (push): every group id 0..=255 alone, sequences of up to 5 items over ids 0..=4
    let mut n = 0u64;
    for g in 0..=255u8 {
        for nb in [None, Some(0u8), Some(5), Some(7), Some(8), Some(255)] {
            let ops = vec![(0usize, nb.unwrap_or(0) as u64), (1, ((g as u64) << 32) | 0x01020304)];
            let v = eval_status_ans(nb, &[(g, 0x01020304)], None);
            record("McGroupStatusAns", if nb.is_some() { ops } else { vec![(1, ((g as u64) << 32) | 0x01020304)] }, v);
            n += 1;
        }
    }
    let ids = [0u8, 1, 2, 3, 4];
    let mut seqs: Vec<Vec<u8>> = vec![vec![]];
    for _ in 0..5 {
        let mut next = vec![];
        for s in &seqs {
            for &i in &ids {
                let mut t = s.clone();
                t.push(i);
                next.push(t);
            }
        }
        for s in &next {
            let pushes: Vec<(u8, u32)> = s.iter().enumerate().map(|(k, g)| (*g, 0xA000_0000 + k as u32)).collect();
            for (nb, nba) in [(Some(3u8), None), (None, Some(6u8))] {
                let v = eval_status_ans(nb, &pushes, nba);
                let mut ops: Vec<(usize, u64)> = vec![];
                if let Some(x) = nb {
                    ops.push((0, x as u64));
                }
                ops.extend(pushes.iter().map(|(g, a)| (1usize, ((*g as u64) << 32) | *a as u64)));
                if let Some(x) = nba {
                    ops.push((2, x as u64));
                }
                record("McGroupStatusAns", ops, v);
                n += 1;
            }
        }
        seqs = next;
    }
    ctx.tick(n);
    states.fetch_add(n, Ordering::Relaxed);
    transitions.fetch_add(n, Ordering::Relaxed);
    // ---- validated constructors
    let mut ctor_cases: Vec<(usize, u64)> = vec![];
    for mask in 0..16u64 {
        for tail in 0..=6u64 {
            ctor_cases.push((0, mask | tail << 8));
        }
    }
    for &v in &d24() {
        for len in 0..=7u64 {
            ctor_cases.push((1, v | len << 24));
        }
    }
    for &m in &b16() {
        for len in 0..=12u64 {
            ctor_cases.push((2, m | len << 16));
        }
    }
    for sel in 0..4u64 {
        for d in 0..=3u64 {
            let vals: Vec<u64> = match sel {
                0 => d32(),
                1 => d24().iter().map(|f| 3 | f << 8 | 0x50 << 32).chain((0..=255).map(|i| i | 8_681_000 << 8 | 0x52 << 32)).collect(),
                2 => (0..=0x3FFFu64).filter(|x| th || x % 7 == 0 || x & 0xFF == 0xFF || x >> 8 == 0x3F).collect(),
                _ => (0..16).collect(),
            };
            for v in vals {
                ctor_cases.push((3, sel | d << 8 | v << 16));
            }
        }
    }
    for len in 0..=260u64 {
        ctor_cases.push((4, len));
    }
    ctor_cases.par_iter().for_each(|&(k, x)| {
        record("ctor", vec![(k, x)], eval_ctor(k, x));
    });
    ctx.tick(ctor_cases.len() as u64);
    states.fetch_add(ctor_cases.len() as u64, Ordering::Relaxed);
    transitions.fetch_add(ctor_cases.len() as u64, Ordering::Relaxed);
    // ---- streams of up to 3 commands
    let vals = [0u64, 7, 0x1FFF, 0xE0AA];
    let mut stream_cases = vec![vec![]];
    for a in 0..6usize {
        for &x in &vals {
            stream_cases.push(vec![(a, x)]);
            for b in 0..6usize {
                stream_cases.push(vec![(a, x), (b, x ^ 5)]);
                for c in 0..6usize {
                    stream_cases.push(vec![(a, x), (b, x ^ 5), (c, x.rotate_left(3))]);
                }
            }
        }
    }
    stream_cases.par_iter().for_each(|s| {
        record("stream", s.clone(), eval_stream(s));
        ctx.tick(1);
    });
    states.fetch_add(stream_cases.len() as u64, Ordering::Relaxed);
    // ---- text forms
    let text_n = AtomicU64::new(0);
    let text = |kind: usize, x: u64| {
        let v = eval_text(kind, x);
        if !v.is_empty() {
            record("text", vec![(kind, x)], v);
        }
    };
    (0..=0xFFFFu64).into_par_iter().for_each(|x| text(0, x));
    text_n.fetch_add(65536, Ordering::Relaxed);
    let n24: u64 = if th { 1 << 24 } else { 1 << 22 };
    (0..n24).into_par_iter().for_each(|x| {
        let v = if th { x } else { (x * 251) & 0xFF_FFFF };
        text(1, v);
        text(2, v);
    });
    text_n.fetch_add(2 * n24, Ordering::Relaxed);
    // values above 24 bits are truncated by from_value: boundary check
    for x in [0x0100_0000u64, 0xFFFF_FFFF, 0x8000_0001] {
        text(1, x & 0xFF_FFFF);
    }
    let n32: u64 = if th { 1 << 32 } else { 1 << 27 };
    (0..n32 >> 12).into_par_iter().for_each(|blk| {
        for k in 0..(1u64 << 12) {
            let x = (blk << 12) | k;
            let v = if th { x } else { x.wrapping_mul(16_381) & 0xFFFF_FFFF };
            text(3, v);
            if !th || v % 17 == 0 {
                text(4, v);
            }
        }
    });
    text_n.fetch_add(n32 + n32 / if th { 17 } else { 1 }, Ordering::Relaxed);
    let mut wide: Vec<u64> = vec![0, 1, u64::MAX, 0x0102_0304_0506_0708, 0x8000_0000_0000_0000, 0x00FF_00FF_00FF_00FF];
    for i in 0..64 {
        wide.push(1 << i);
        wide.push(!(1u64 << i));
    }
    for i in 0..8 {
        wide.push(0xFFu64 << (8 * i));
        wide.push(0xA5u64 << (8 * i));
    }
    for &x in &wide {
        for k in 5..=8 {
            text(k, x);
        }
    }
    for k in 0..64u64 {
        text(9, k);
    }
    text_n.fetch_add(wide.len() as u64 * 4 + 64 * 9, Ordering::Relaxed);
    ctx.tick(text_n.load(Ordering::Relaxed));
    let coverage = json!({
        "states": states.load(Ordering::Relaxed) + text_n.load(Ordering::Relaxed),
        "transitions": transitions.load(Ordering::Relaxed),
        "traces_validated_against_impl": states.load(Ordering::Relaxed),
        "samples": [
            serde_json::to_value(Case { builder: "LinkADRReq".into(), ops: vec![(0, 0x1F), (2, 0xFFFF), (0, 5)] }).unwrap(),
            serde_json::to_value(Case { builder: "McGroupStatusAns".into(), ops: vec![(0, 3), (1, (4u64 << 32) | 0x01020304)] }).unwrap(),
            serde_json::to_value(Case { builder: "text".into(), ops: vec![(3, 0x8000_0001)] }).unwrap(),
        ],
        "evaluations": ctx.evals(),
        "distinct_nontrivial": states.load(Ordering::Relaxed),
        "rule": "each command builder is a state machine: states = setter-call sequences on a fresh builder (empty; every setter with its full value domain - all 256 / 65536 values for fields up to 16 bits incl. out-of-range ones, boundary and walking-bit sets for 24/32-bit fields; every ordered pair of setters incl. the same setter twice with full x boundary domains; boundary^3 triples in thorough), judged by build -> parse -> read every field against a plain field-value model (accept / refuse / truncate to the field; no neighbour changes). McGroupStatusAns.push: every group id 0..255 and all sequences of up to 5 items over ids 0..4. Validated constructors (Payload::new of fixed-length, variable-length and to-end-of-frame payloads, Frequency::new, ChannelMask::new) on built bytes with 0..6 trailing bytes and 1 byte short. Streams of up to 3 commands through mac_commands_len / build_mac_commands parsed back. Text forms: all 65536 DevNonce, JoinNonce/NetId/DevAddr/McAddr ranges (all 2^24 / 2^32 in thorough), walking-bit / byte-pattern sets for 64-bit identifiers and 128-bit keys",
        "builders": bs.iter().map(|b| b.name).collect::<Vec<_>>(),
        "text_forms_checked": text_n.load(Ordering::Relaxed),
        "exhaustive": true,
    });
    let replayer = |cj: &Value| -> Vec<String> {
        let c: Case = serde_json::from_value(cj.clone()).unwrap();
        eval_case(&c).into_iter().map(|x| x.0).collect()
    };
    ctx.finish(
        "model_checking",
        coverage,
        vec![
            "field semantics (admissible range, truncation mask) are taken from LoRaWAN 1.0.x / TS009 / TS005 field widths".into(),
            "builders without setters are covered by the empty sequence; TxFramesCtrlReq / EchoIncPayloadReq have no builder in the crate".into(),
        ],
        Some(&replayer),
    );
}
