//! C06 — uplink frame counters never repeat within a session.
//! BFS over histories of both front-ends with a radio fault injected at every radio call
//! position (deviation bound 1, thorough 2); every frame handed to the radio is decoded with
//! the reference codec.
use crate::adev::*;
use crate::checks::{load_case, replay_exit};
use crate::ctx::{Ctx, Tier, hex, panic_site};
use crate::dev::*;
use crate::explore::{self, System, V};
use crate::refcodec;
use lorawan_device::verif::{VerifMac, VerifMacState};
use serde::{Deserialize, Serialize};
use serde_json::{Value, json};

/// Decodes every uplink handed to the radio and tracks the counters used.
#[derive(Clone, Debug, Default)]
pub struct UpMon {
    pub max: Option<u32>,
    pub last_bytes: Vec<u8>,
    pub start: u32,
    pub expired: bool,
    pub frames: u64,
    /// runs that start next to an ADR back-off threshold keep the ADR counter and data rate in the state key
    pub adr_matters: bool,
}

impl UpMon {
    pub fn new(start: u32) -> Self {
        UpMon { max: None, last_bytes: vec![], start, expired: false, frames: 0, adr_matters: false }
    }

    pub fn on_tx(&mut self, bytes: &[u8], nwk: &[u8; 16], app: &[u8; 16], site: &str) -> Vec<V> {
        let mut out = vec![];
        if self.expired {
            return out;
        }
        let Ok(v) = refcodec::parse_data(bytes) else { return out };
        if !v.uplink() {
            out.push(V { sig: format!("C06|not-an-uplink|{site}"), what: hex(bytes) });
            return out;
        }
        self.frames += 1;
        let base = self.max.unwrap_or(self.start);
        let hi = (base >> 16) as i64;
        let mut found = None;
        for e in [hi, hi + 1, hi - 1] {
            if !(0..=0xFFFF).contains(&e) {
                continue;
            }
            let n = ((e as u32) << 16) | v.fcnt16 as u32;
            if refcodec::data_mic_ok(bytes, &v, nwk, n) {
                found = Some(n);
                break;
            }
        }
        let Some(n) = found else {
            out.push(V {
                sig: format!("C06|mic-not-under-full-counter|{site}"),
                what: format!("uplink {} does not verify for any counter with low half {:#x} near {base:#x}", hex(bytes), v.fcnt16),
            });
            return out;
        };
        // the payload must be encrypted with that same counter (send data is a known pattern)
        if let Some(p) = v.fport
            && p != 0
        {
            let plain = refcodec::data_plain(&v, nwk, app, n);
            let want: Vec<u8> = (0..plain.len()).map(|i| (i as u8).wrapping_mul(3).wrapping_add(1)).collect();
            if plain != want {
                out.push(V { sig: format!("C06|payload-not-encrypted-with-full-counter|{site}"), what: format!("N={n:#x} frame {}", hex(bytes)) });
            }
        }
        match self.max {
            Some(m) if n < m => out.push(V {
                sig: format!("C06|counter-decreased|{site}"),
                what: format!("counter {n:#x} handed to the radio after {m:#x}"),
            }),
            Some(m) if n == m && bytes != &self.last_bytes[..] => out.push(V {
                sig: format!("C06|counter-reused-for-different-frame|{site}{}", if n == 0xFFFF_FFFF { "|at-exhaustion" } else { "" }),
                what: format!("counter {n:#x} used for {} and for {}", hex(&self.last_bytes), hex(bytes)),
            }),
            _ => {}
        }
        if self.max.is_none_or(|m| n >= m) {
            self.max = Some(n);
            self.last_bytes = bytes.to_vec();
        }
        out
    }
}

fn session_keys(s: &VerifMac) -> Option<([u8; 16], [u8; 16], u32)> {
    match s.state {
        VerifMacState::Joined(j) => Some((j.nwkskey, j.appskey, j.fcnt_up)),
        _ => None,
    }
}

/// Canonical form of the MAC snapshot for this property: the absolute counter is kept only
/// near the 16-bit and 32-bit boundaries, elsewhere only its distance to the highest counter
/// handed to the radio matters (the monitor is relative, and the code compares fcnt_up only
/// with 0xFFFF_FFFF).
fn canon(mut s: VerifMac, mon: &UpMon) -> (VerifMac, i64, bool, Vec<u8>) {
    let mut delta = 0i64;
    if let VerifMacState::Joined(ref mut j) = s.state {
        let near = j.fcnt_up >= 0xFFFF_FFF0 || (j.fcnt_up & 0xFFFF) >= 0xFFF0 || (j.fcnt_up & 0xFFFF) <= 0x10;
        delta = j.fcnt_up as i64 - mon.max.map(|m| m as i64).unwrap_or(-1);
        if !near {
            j.fcnt_up = 0x7777;
        }
        if !mon.adr_matters {
            j.adr_ack_cnt = 0;
        }
        j.fcnt_down = j.fcnt_down.map(|_| 1);
    }
    if !mon.adr_matters {
        s.data_rate = 0;
    }
    (s, delta, mon.expired, if delta <= 0 { mon.last_bytes.clone() } else { vec![] })
}

fn good(conf: bool) -> Frame {
    Frame::Down { fcnt: Fcnt::Rel(1), confirmed: conf, ack: false, fopts: vec![], port: Some(1), payload: vec![1, 2, 3], tamper: Tamper::None }
}
/// MAC-only downlinks: a request in the FRMPayload on port 0, and one in FOpts without any port
fn mac0() -> Frame {
    Frame::Down { fcnt: Fcnt::Rel(1), confirmed: false, ack: false, fopts: vec![], port: Some(0), payload: vec![0x06], tamper: Tamper::None }
}
fn macopts() -> Frame {
    Frame::Down { fcnt: Fcnt::Rel(1), confirmed: false, ack: false, fopts: vec![0x06], port: None, payload: vec![], tamper: Tamper::None }
}
/// an acceptable LinkADRReq (keep data rate and power, all channels on) that asks for `n` transmissions per uplink
fn nbtrans(n: u8) -> Frame {
    Frame::Down { fcnt: Fcnt::Rel(1), confirmed: false, ack: false, fopts: crate::cmds::link_adr(15, 15, 0x00FF, 6, n, false).bytes, port: None, payload: vec![], tamper: Tamper::None }
}
/// authentic and fresh, but longer than the data rate of the window admits (EU868: both windows at the default rate;
/// US915: RX2): ends the receive procedure like a timeout
fn oversized() -> Frame {
    Frame::Down { fcnt: Fcnt::Rel(1), confirmed: false, ack: false, fopts: vec![], port: Some(1), payload: vec![0x55; 80], tamper: Tamper::None }
}
fn bad() -> Frame {
    Frame::Down { fcnt: Fcnt::Rel(1), confirmed: false, ack: false, fopts: vec![], port: Some(1), payload: vec![1, 2, 3], tamper: Tamper::BadMic }
}

// ------------------------------------------------------------------ nb front-end

pub struct NbSys {
    core: NbCore<14, 0>,
    mon: UpMon,
    faults: usize,
    bound: usize,
    outcome: String,
    last_fault: String,
}

impl NbSys {
    pub fn new(cfg: &DevCfg, bound: usize) -> Self {
        NbSys { core: NbCore::new(cfg), mon: UpMon { adr_matters: cfg.adr_ack_cnt.is_some(), ..UpMon::new(cfg.fcnt_up.unwrap_or(0)) }, faults: 0, bound, outcome: String::new(), last_fault: "none".into() }
    }
}

impl System for NbSys {
    type Ev = Ev;
    type Key = ((VerifMac, i64, bool, Vec<u8>), usize, String);

    fn enabled(&self) -> Vec<Ev> {
        let mut v = vec![];
        for (len, conf) in [(1usize, false), (2, true)] {
            let outcomes: Vec<(Option<Frame>, Option<Frame>)> = vec![
                (None, None),
                (Some(good(false)), None),
                (None, Some(good(true))),
                (Some(bad()), None),
                (Some(bad()), Some(good(false))),
                (Some(mac0()), None),
                (None, Some(macopts())),
                (Some(nbtrans(2)), None),
                (None, Some(nbtrans(15))),
                (Some(oversized()), None),
                (None, Some(oversized())),
            ];
            for (rx1, rx2) in &outcomes {
                v.push(Ev::Cycle { confirmed: conf, port: 1, len, rx1: rx1.clone(), rx2: rx2.clone() });
            }
            if self.faults < self.bound {
                for (rx1, rx2) in &outcomes[..3] {
                    // micro steps of a cycle: send, txdone, open1, [rx], close1, open2, [rx], close2
                    let n = 6 + rx1.is_some() as usize + rx2.is_some() as usize;
                    for k in 0..n {
                        v.push(Ev::CycleF { confirmed: conf, port: 1, len, rx1: rx1.clone(), rx2: rx2.clone(), fault_at: k });
                        // the second radio call of the step fails (a step may cancel one reception and start the next)
                        v.push(Ev::CycleF2 { confirmed: conf, port: 1, len, rx1: rx1.clone(), rx2: rx2.clone(), fault_at: k });
                        // a radio outage that spans two / three consecutive radio calls (one deviation)
                        for burst in [2usize, 3] {
                            v.push(Ev::CycleFB { confirmed: conf, port: 1, len, rx1: rx1.clone(), rx2: rx2.clone(), fault_at: k, burst });
                        }
                    }
                }
            }
        }
        // an OTAA join attempt that nobody answers, from a joined state (afterwards the old session is gone, or at least
        // never continues below its counters)
        if self.core.joined_session().is_some() {
            v.push(Ev::JoinCycle { rx1: None, rx2: None });
        }
        v
    }

    fn step(&mut self, ev: &Ev) -> Vec<V> {
        let mut out = vec![];
        if matches!(ev, Ev::CycleF { .. } | Ev::CycleFB { .. } | Ev::CycleF2 { .. }) {
            self.faults += 1;
        }
        let micros = self.core.apply(ev);
        for m in &micros {
            if let Resp::Panic(p) = &m.resp {
                out.push(V { sig: format!("C06|nb|panic|{}", panic_site(p)), what: p.clone() });
            }
            for op in &m.ops {
                if let RadioOp::Tx { bytes, failed, .. } = op
                    && let Some((nwk, app, _)) = session_keys(&m.before)
                {
                    let site = format!("nb|after-fault-in:{}", self.last_fault);
                    out.extend(self.mon.on_tx(bytes, &nwk, &app, &site));
                    if *failed {
                        self.last_fault = "tx".into();
                    }
                }
            }
            for op in &m.ops {
                match op {
                    RadioOp::RxReq { failed: true, .. } => self.last_fault = "rx_request".into(),
                    RadioOp::Cancel { failed: true } => self.last_fault = "cancel_rx".into(),
                    RadioOp::Phy { failed: true } => self.last_fault = "phy_event".into(),
                    _ => {}
                }
            }
            if m.resp == Resp::SessionExpired {
                self.mon.expired = true;
            }
            // at exhaustion the device must report expiry instead of continuing
            if let (VerifMacState::Joined(b), VerifMacState::Joined(a)) = (m.before.state, m.after.state)
                && b.fcnt_up == 0xFFFF_FFFF
                && a.fcnt_up != 0xFFFF_FFFF
            {
                out.push(V { sig: "C06|nb|counter-wrapped".into(), what: format!("fcnt_up {:#x} -> {:#x}", b.fcnt_up, a.fcnt_up) });
            }
        }
        self.outcome = micros.last().map(|m| short_resp(&m.resp)).unwrap_or_default();
        out
    }

    fn key(&self) -> Self::Key {
        // (the front-end state is part of the key: a device left in the middle of a receive procedure by a fault has
        // other futures than an idle one with the same MAC state)
        (canon(self.core.snap(), &self.mon), self.faults, format!("{}|{:?}", self.last_fault, self.core.st()))
    }
    fn alive(&self) -> bool {
        self.core.dead.is_none()
    }
    fn outcome(&self) -> String {
        self.outcome.clone()
    }
}

// ------------------------------------------------------------------ async front-end

pub struct ASys {
    core: ACore<14, 0>,
    mon: UpMon,
    faults: usize,
    bound: usize,
    class_c: bool,
    outcome: String,
    last_fault: String,
}

impl ASys {
    pub fn new(cfg: &DevCfg, class_c: bool, bound: usize) -> Self {
        ASys { core: ACore::new(cfg, class_c), mon: UpMon { adr_matters: cfg.adr_ack_cnt.is_some(), ..UpMon::new(cfg.fcnt_up.unwrap_or(0)) }, faults: 0, bound, class_c, outcome: String::new(), last_fault: "none".into() }
    }
}

impl System for ASys {
    type Ev = AEv;
    type Key = ((VerifMac, i64, bool, Vec<u8>), usize, String);

    fn enabled(&self) -> Vec<AEv> {
        let mut v = vec![];
        let mut scripts = vec![
            Script::default(),
            Script { rx1: Some(good(false)), ..Default::default() },
            Script { rx2: Some(good(true)), ..Default::default() },
            Script { rx1: Some(bad()), ..Default::default() },
            Script { rx1: Some(mac0()), ..Default::default() },
            Script { rx2: Some(macopts()), ..Default::default() },
            Script { rx1: Some(nbtrans(2)), ..Default::default() },
            Script { rx2: Some(nbtrans(15)), ..Default::default() },
            Script { rx1: Some(oversized()), ..Default::default() },
            Script { rx2: Some(oversized()), ..Default::default() },
        ];
        if self.class_c {
            scripts.push(Script { rxc1: vec![good(false)], ..Default::default() });
            scripts.push(Script { rxc2: vec![good(true)], ..Default::default() });
            scripts.push(Script { rxc1: vec![good(false)], rx1: Some(good(false)), ..Default::default() });
        }
        for (len, conf) in [(1usize, false), (2, true)] {
            for s in &scripts {
                v.push(AEv::Send { confirmed: conf, port: 1, len, script: s.clone() });
            }
            if self.faults < self.bound {
                for s in &scripts {
                    // at most 12 radio calls in one send (tx, rxc setup, receptions, windows, ...)
                    for k in 0..12 {
                        v.push(AEv::Send { confirmed: conf, port: 1, len, script: Script { fault_at: Some(k), ..s.clone() } });
                        // a radio outage that spans two consecutive radio calls / the rest of the call (one deviation)
                        for burst in [2usize, 64] {
                            v.push(AEv::Send { confirmed: conf, port: 1, len, script: Script { fault_at: Some(k), fault_burst: burst, ..s.clone() } });
                        }
                    }
                }
            }
        }
        if matches!(self.core.snap().state, VerifMacState::Joined(_)) {
            v.push(AEv::Join(Script::default()));
        }
        if self.class_c {
            v.push(AEv::Listen { frames: vec![good(false)], fault_at: None });
            v.push(AEv::Listen { frames: vec![good(true), bad()], fault_at: None });
            if self.faults < self.bound {
                v.push(AEv::Listen { frames: vec![good(false)], fault_at: Some(0) });
            }
        }
        v
    }

    fn step(&mut self, ev: &AEv) -> Vec<V> {
        let mut out = vec![];
        let Some(st) = self.core.apply(ev) else { return out };
        let faulted = st.ops.iter().any(|o| {
            matches!(
                o,
                AOp::Tx { failed: true, .. } | AOp::SetupRx { failed: true, .. } | AOp::RxSingle { failed: true, .. } | AOp::RxCont { failed: true, .. } | AOp::LowPower { failed: true }
            )
        });
        if faulted {
            self.faults += 1;
        }
        if let AResp::Panic(p) = &st.resp {
            out.push(V { sig: format!("C06|async|panic|{}", panic_site(p)), what: p.clone() });
        }
        // which radio call failed (for the signature of what follows)
        let fsite = st
            .ops
            .iter()
            .find_map(|o| match o {
                AOp::Tx { failed: true, .. } => Some("tx"),
                AOp::SetupRx { failed: true, .. } => Some("setup_rx"),
                AOp::RxSingle { failed: true, .. } => Some("rx_single"),
                AOp::RxCont { failed: true, .. } => Some("rx_continuous"),
                AOp::LowPower { failed: true } => Some("low_power"),
                _ => None,
            })
            .unwrap_or("none");
        for op in &st.ops {
            if let AOp::Tx { bytes, .. } = op
                && let Some((nwk, app, _)) = session_keys(&st.before)
            {
                let site = format!("async|after-fault-in:{}", self.last_fault);
                out.extend(self.mon.on_tx(bytes, &nwk, &app, &site));
            }
        }
        if fsite != "none" {
            self.last_fault = fsite.to_string();
        }
        if st.resp == AResp::SessionExpired {
            self.mon.expired = true;
        }
        if let (VerifMacState::Joined(b), VerifMacState::Joined(a)) = (st.before.state, st.after.state)
            && b.fcnt_up == 0xFFFF_FFFF
            && a.fcnt_up != 0xFFFF_FFFF
        {
            out.push(V { sig: "C06|async|counter-wrapped".into(), what: format!("fcnt_up {:#x} -> {:#x}", b.fcnt_up, a.fcnt_up) });
        }
        self.outcome = short_aresp(&st.resp);
        out
    }

    fn key(&self) -> Self::Key {
        // (the downlinks an application has not collected yet are state the front-end can act on)
        (canon(self.core.snap(), &self.mon), self.faults, format!("{}|q{}", self.last_fault, self.core.dev.verif_queued_downlinks()))
    }
    fn alive(&self) -> bool {
        self.core.dead.is_none()
    }
    fn outcome(&self) -> String {
        self.outcome.clone()
    }
}

#[derive(Clone, Debug, Serialize, Deserialize)]
pub struct RunCfg {
    pub front: String,
    pub class_c: bool,
    pub bound: usize,
    pub dev: DevCfg,
}

fn replay_case(c: &Value) -> Vec<String> {
    let rc: RunCfg = serde_json::from_value(c["cfg"].clone()).expect("cfg");
    if rc.front == "nb" {
        let hist: Vec<Ev> = serde_json::from_value(c["history"].clone()).expect("history");
        explore::replay(&|| NbSys::new(&rc.dev, rc.bound), &hist)
    } else {
        let hist: Vec<AEv> = serde_json::from_value(c["history"].clone()).expect("history");
        explore::replay(&|| ASys::new(&rc.dev, rc.class_c, rc.bound), &hist)
    }
}

pub fn run(tier: Tier, replay: Option<&str>) {
    if let Some(path) = replay {
        replay_exit("C06", path, replay_case(&load_case(path)));
    }
    let ctx = Ctx::new("C06", tier);
    let th = tier.thorough();
    let bound = if crate::ctx::deep() { 3 } else if th { 2 } else { 1 };
    let depth = if crate::ctx::deep() { 7 } else if th { 5 } else { 4 };
    let starts: Vec<Option<u32>> = if th {
        vec![None, Some(0xFFFE), Some(0xFFFF), Some(0xFFFF_FFFD), Some(0xFFFF_FFFE), Some(0xFFFF_FFFF)]
    } else {
        vec![None, Some(0xFFFE), Some(0xFFFF_FFFD), Some(0xFFFF_FFFF)]
    };
    let mut states = 0u64;
    let mut transitions = 0u64;
    let mut capped = false;
    let mut outcomes: std::collections::BTreeMap<String, u64> = Default::default();
    let mut runs = vec![];
    // (two deviations per history are completed one level less deep than one deviation: the alphabet has several hundred
    // fault positions per state)
    // (only the deepest tier splits: the quick tier completes two deviations at its full depth everywhere)
    let b1 = if crate::ctx::deep() { 1 } else { bound };
    for region in ["EU868", "US915"] {
        for s in &starts {
            let mut d = DevCfg::abp(region);
            d.fcnt_up = *s;
            runs.push(RunCfg { front: "nb".into(), class_c: false, bound: b1, dev: d.clone() });
            runs.push(RunCfg { front: "async".into(), class_c: false, bound: b1, dev: d.clone() });
            runs.push(RunCfg { front: "async".into(), class_c: true, bound: b1, dev: d.clone() });
            if crate::ctx::deep() && matches!(s, None | Some(0xFFFF_FFFE)) {
                runs.push(RunCfg { front: "nb".into(), class_c: false, bound, dev: d.clone() });
                runs.push(RunCfg { front: "async".into(), class_c: true, bound, dev: d });
            }
        }
    }
    // boards whose receive windows stay open as long as / longer than the RX1 -> RX2 gap, and with a non-zero window offset
    // (the window bookkeeping of the nb front-end then takes other paths)
    for (dur, offs) in [(1000u32, 0i32), (2500, 0), (1000, 30), (100, 30)] {
        let mut d = DevCfg::abp("EU868");
        d.duration_ms = dur;
        d.offset_ms = offs;
        runs.push(RunCfg { front: "nb".into(), class_c: false, bound: b1, dev: d.clone() });
        runs.push(RunCfg { front: "async".into(), class_c: true, bound: b1, dev: d });
    }
    // an application that leaves received downlinks in the queue through the following uplink
    for class_c in [false, true] {
        let mut d = DevCfg::abp("EU868");
        d.hold_downlinks = true;
        runs.push(RunCfg { front: "async".into(), class_c, bound: bound.min(1), dev: d.clone() });
        if !class_c {
            runs.push(RunCfg { front: "nb".into(), class_c: false, bound: bound.min(1), dev: d });
        }
    }
    // sessions one uplink before each ADR back-off step (64 uplinks without a downlink: ADRACKReq; 96, 128: a
    // step down), at the lowest data rate, where nothing is left to step to, and above it
    for region in ["EU868", "US915"] {
        for cnt in [63u32, 95, 127] {
            for dr in [None, Some(if region == "US915" { 3u8 } else { 5 })] {
                let mut d = DevCfg::abp(region);
                d.adr_ack_cnt = Some(cnt);
                d.dr = dr;
                d.fcnt_up = Some(cnt);
                runs.push(RunCfg { front: "nb".into(), class_c: false, bound: 0, dev: d.clone() });
                runs.push(RunCfg { front: "async".into(), class_c: false, bound: 0, dev: d });
            }
        }
    }
    for rc in &runs {
        let cj = serde_json::to_value(rc).unwrap();
        // (the queue dimension multiplies the state space: the runs with held downlinks keep the quick tier's depth)
        let depth = if rc.dev.adr_ack_cnt.is_some() { 3 } else if rc.dev.hold_downlinks { depth.min(4) } else if crate::ctx::deep() && rc.bound >= 2 { depth - 1 } else { depth };
            let st = if rc.front == "nb" {
            explore::bfs(&ctx, &cj, &|| NbSys::new(&rc.dev, rc.bound), depth, 2_000_000)
        } else {
            explore::bfs(&ctx, &cj, &|| ASys::new(&rc.dev, rc.class_c, rc.bound), depth, 2_000_000)
        };
        states += st.states;
        transitions += st.transitions;
        capped |= st.capped;
        for (k, v) in st.outcomes {
            *outcomes.entry(format!("{}:{}", rc.front, k)).or_insert(0) += v;
        }
    }
    let coverage = json!({
        "states": states,
        "transitions": transitions,
        "traces_validated_against_impl": transitions,
        "samples": [
            {"cfg": serde_json::to_value(&runs[0]).unwrap(), "history": [serde_json::to_value(Ev::CycleF { confirmed: false, port: 1, len: 1, rx1: None, rx2: None, fault_at: 0 }).unwrap(), serde_json::to_value(Ev::Cycle { confirmed: true, port: 1, len: 2, rx1: None, rx2: None }).unwrap()]},
            {"cfg": serde_json::to_value(&runs[2]).unwrap(), "history": [serde_json::to_value(AEv::Send { confirmed: false, port: 1, len: 1, script: Script { rxc1: vec![good(false)], fault_at: Some(3), ..Default::default() } }).unwrap()]},
        ],
        "evaluations": ctx.evals(),
        "distinct_nontrivial": states,
        "rule": "BFS over histories of whole uplink transactions (and Class C idle listening) on the real nb and async devices, also with an application that leaves received downlinks in the queue through the next uplink; every transaction is run with every receive outcome of the alphabet (nothing, RX1 hit, RX2 hit confirmed, invalid frame, MAC-only downlink on port 0 / in FOpts, accepted LinkADRReq asking for 2 / 15 transmissions per uplink, an authentic but over-long downlink in RX1 / RX2, Class C downlink before RX1 / RX2; an unanswered OTAA join attempt from the joined state is an event too) and with a radio fault at every radio call position of the transaction - a single failing call (nb: the first or the second radio call of the step), or an outage spanning 2 / 3 consecutive radio calls (nb: the retried step fails again) or 2 calls / the rest of the public call (async) -, at most `fault_bound` such deviations per history; boards with receive windows of 100 / 1000 / 2500 ms and window offsets 0 / 30 ms; sessions start with fcnt_up at 0, 0xFFFE, 0xFFFF, 2^32-3, 2^32-2, 2^32-1, and (fault-free, depth 3) one uplink before each ADR back-off threshold (63, 95, 127 uplinks without a downlink) at the lowest and at a higher data rate; every frame handed to the radio is decoded by the reference codec (counter recovered by MIC verification)",
        "fault_bound_completed": bound,
        "depth": depth,
        "configurations": runs.len(),
        "outcomes": outcomes,
        "exhaustive": !capped,
        "capped": capped,
    });
    let replayer = |cj: &Value| -> Vec<String> { replay_case(cj) };
    ctx.finish(
        "fault_enumeration",
        coverage_with_generic(coverage),
        vec![
            "a frame counts as handed to the radio when it is the argument of TxRequest / tx(), whether or not the radio then reports an error".into(),
            "an identical retransmission of the same frame under the same counter is not flagged; a repeated counter with different bytes, or a lower counter, is".into(),
            "state canonicalisation keeps the absolute counter only near the 16/32-bit boundaries (elsewhere only its distance to the highest counter handed out)".into(),
        ],
        Some(&replayer),
    );
}

fn coverage_with_generic(c: Value) -> Value {
    c
}
