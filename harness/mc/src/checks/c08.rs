//! C08 — MAC command handling is consistent and atomic: the device does what it answers.
//! Every field value of every handled request (FOpts and port 0), blocks, answer-budget
//! overflows and sequences, from several base states, judged by the executable reference model.
use crate::adev::*;
use crate::checks::c04::{BASES, base_prefix, dangerous};
use crate::checks::{load_case, replay_exit};
use crate::cmds::{self, Cmd};
use crate::ctx::{Ctx, Tier, hex, panic_site};
use crate::dev::*;
use crate::refcodec;
use crate::refmac::{self, MState, Req};
use lorawan_device::verif::{VerifMac, VerifMacState};
use rayon::prelude::*;
use serde::{Deserialize, Serialize};
use serde_json::{Value, json};
use std::sync::atomic::{AtomicU64, Ordering};

#[derive(Clone, Debug, Serialize, Deserialize)]
pub struct Case {
    pub front: String,
    pub dev: DevCfg,
    pub base: String,
    /// command streams delivered (as authentic downlinks) before the judged one
    pub prior: Vec<Vec<u8>>,
    pub cmd: Cmd,
    pub port0: bool,
    /// deliver the judged downlink as a Class C reception (must neither execute nor clear)
    pub class_c_delivery: bool,
    /// the Class C reception arrives while the device listens between two transactions (rxc_listen), with the
    /// answers of the prior downlinks still waiting for their uplink
    #[serde(default)]
    pub class_c_idle: bool,
    /// an uplink on FPort 0 (the application sends no data: the answers travel as FRMPayload) goes out between the
    /// uplink that carries the answers first and the one in which the repeated answers are looked for
    #[serde(default)]
    pub port0_uplink_between: bool,
}

pub enum Dev {
    Nb(Box<NbCore<14, 0>>),
    As(Box<ACore<14, 0>>),
}

pub struct Obs {
    pub tx: Option<Vec<u8>>,
    pub accepted: bool,
    pub panic: Option<String>,
    pub after: VerifMac,
    pub tx_rf: Option<Rf>,
}

impl Dev {
    pub fn new(front: &str, cfg: &DevCfg) -> Dev {
        if front == "nb" { Dev::Nb(Box::new(NbCore::new(cfg))) } else { Dev::As(Box::new(ACore::new(cfg, front == "async-c"))) }
    }
    pub fn snap(&self) -> VerifMac {
        match self {
            Dev::Nb(n) => n.snap(),
            Dev::As(a) => a.snap(),
        }
    }
    pub fn apply_ev(&mut self, e: &Ev) -> Option<String> {
        match self {
            Dev::Nb(n) => {
                for m in n.apply(e) {
                    if let Resp::Panic(p) = m.resp {
                        return Some(p);
                    }
                }
                None
            }
            Dev::As(a) => {
                let ae = match e {
                    Ev::JoinCycle { rx1, rx2 } => AEv::Join(Script { rx1: rx1.clone(), rx2: rx2.clone(), ..Default::default() }),
                    Ev::Cycle { confirmed, port, len, rx1, rx2 } => {
                        AEv::Send { confirmed: *confirmed, port: *port, len: *len, script: Script { rx1: rx1.clone(), rx2: rx2.clone(), ..Default::default() } }
                    }
                    Ev::SetDr(d) => AEv::SetDr(*d),
                    Ev::SetAdr(x) => AEv::SetAdr(*x),
                    Ev::Rng(p) => AEv::Rng(p.clone()),
                    _ => return None,
                };
                match a.apply(&ae) {
                    Some(AStep { resp: AResp::Panic(p), .. }) => Some(p),
                    _ => None,
                }
            }
        }
    }
    /// Idle Class C listening (async front-end): the frames are heard by `rxc_listen()`.
    pub fn listen(&mut self, frames: Vec<Frame>) -> Obs {
        let mut accepted = false;
        let mut panic = None;
        if let Dev::As(a) = self
            && let Some(st) = a.apply(&AEv::Listen { frames, fault_at: None })
        {
            if let AResp::Panic(p) = &st.resp {
                panic = Some(p.clone());
            }
            accepted = st.deliveries.iter().any(|d| matches!(d.judge, Judge::Accept { .. }));
        }
        Obs { tx: None, accepted, panic, after: self.snap(), tx_rf: None }
    }
    /// One uplink transaction; `rx1` delivered in RX1, `rxc` as Class C receptions before RX1.
    pub fn cycle(&mut self, rx1: Option<Frame>, rxc: Vec<Frame>) -> Obs {
        let mut tx = None;
        let mut tx_rf = None;
        let mut accepted = false;
        let mut panic = None;
        match self {
            Dev::Nb(n) => {
                for m in n.apply(&Ev::Cycle { confirmed: false, port: 1, len: 1, rx1, rx2: None }) {
                    if let Resp::Panic(p) = &m.resp {
                        panic = Some(p.clone());
                    }
                    for op in &m.ops {
                        if let RadioOp::Tx { bytes, rf, .. } = op {
                            tx = Some(bytes.clone());
                            tx_rf = Some(rf.clone());
                        }
                    }
                    if matches!(m.judge, Some(Judge::Accept { .. })) {
                        accepted = true;
                    }
                }
            }
            Dev::As(a) => {
                if let Some(st) = a.apply(&AEv::Send { confirmed: false, port: 1, len: 1, script: Script { rx1, rxc1: rxc, ..Default::default() } }) {
                    if let AResp::Panic(p) = &st.resp {
                        panic = Some(p.clone());
                    }
                    for op in &st.ops {
                        if let AOp::Tx { bytes, rf, .. } = op {
                            tx = Some(bytes.clone());
                            tx_rf = Some(rf.clone());
                        }
                    }
                    accepted = st.deliveries.iter().any(|d| matches!(d.judge, Judge::Accept { .. }));
                }
            }
        }
        Obs { tx, accepted, panic, after: self.snap(), tx_rf }
    }
}

fn down(bytes: &[u8], port0: bool) -> Frame {
    if port0 {
        Frame::Down { fcnt: Fcnt::Rel(1), confirmed: false, ack: false, fopts: vec![], port: Some(0), payload: bytes.to_vec(), tamper: Tamper::None }
    } else {
        Frame::Down { fcnt: Fcnt::Rel(1), confirmed: false, ack: false, fopts: bytes.to_vec(), port: None, payload: vec![], tamper: Tamper::None }
    }
}

const HANDLED: [u8; 6] = [3, 5, 6, 7, 8, 0x0A];
const STICKY: [u8; 3] = [5, 8, 0x0A];

/// Answers carried by an uplink: (cid, payload) of the MAC commands in FOpts (or port 0).
fn uplink_answers(bytes: &[u8]) -> Result<Vec<(u8, Vec<u8>)>, String> {
    let v = refcodec::parse_data(bytes).map_err(|e| format!("{e:?}"))?;
    let stream = if v.fport == Some(0) { return Err("port-0 uplink".into()) } else { v.fopts.clone() };
    let mut out = vec![];
    let mut i = 0;
    while i < stream.len() {
        let cid = stream[i];
        let Some(l) = refmac::answer_len(cid) else { return Err(format!("unknown answer CID {cid:#x} in {}", hex(&stream))) };
        if i + l > stream.len() {
            return Err(format!("truncated answer {cid:#x} in {}", hex(&stream)));
        }
        out.push((cid, stream[i + 1..i + l].to_vec()));
        i += l;
    }
    Ok(out)
}

fn pending_of(s: &VerifMac) -> Vec<u8> {
    match s.state {
        VerifMacState::Joined(j) => j.pending[..j.pending_len as usize].to_vec(),
        _ => vec![],
    }
}

pub fn eval(c: &Case) -> Vec<(String, String)> {
    let region = c.dev.region.as_str();
    let front = c.front.as_str();
    let mut v: Vec<(String, String)> = vec![];
    let mut dev = Dev::new(front, &c.dev);
    for e in base_prefix(region, c.dev.otaa, &c.base) {
        if let Some(p) = dev.apply_ev(&e) {
            return vec![(format!("C08|{front}|panic-in-base|{}", panic_site(&p)), p)];
        }
    }
    for pr in &c.prior {
        let o = dev.cycle(Some(down(pr, false)), vec![]);
        if let Some(p) = o.panic {
            return vec![(format!("C08|{front}|panic|{}", panic_site(&p)), p)];
        }
        // flush its one-shot answers and acknowledge its sticky ones
        if !c.class_c_idle {
            dev.cycle(Some(down(&[], false)), vec![]);
        }
    }
    let s0 = dev.snap();
    let pend0 = pending_of(&s0);
    // ---- the judged downlink
    let o = if c.class_c_idle {
        dev.listen(vec![down(&c.cmd.bytes, c.port0)])
    } else if c.class_c_delivery {
        dev.cycle(None, vec![down(&c.cmd.bytes, c.port0)])
    } else {
        dev.cycle(Some(down(&c.cmd.bytes, c.port0)), vec![])
    };
    if let Some(p) = o.panic {
        return vec![(format!("C08|{front}|panic|{}", panic_site(&p)), format!("{p}; command {}", hex(&c.cmd.bytes)))];
    }
    if !o.accepted {
        return v; // not an accepted downlink (e.g. not constructible): nothing to judge
    }
    let s1 = o.after;
    if c.class_c_delivery {
        // Class C receptions neither execute MAC commands nor clear pending answers
        let d = MState::of(&s0).diff(region, &s1);
        if !d.is_empty() {
            v.push(("C08|classc-reception-executed-commands".into(), format!("{region}: {}: {}", hex(&c.cmd.bytes), d.join("; "))));
        }
        if pending_of(&s1) != pend0 {
            v.push(("C08|classc-reception-changed-pending-answers".into(), format!("before {} after {}", hex(&pend0), hex(&pending_of(&s1)))));
        }
        return v;
    }
    let reqs = refmac::parse_requests(region, &c.cmd.bytes);
    // ---- U1: the answers
    let u1 = dev.cycle(None, vec![]);
    let Some(u1b) = u1.tx else { return vec![(format!("C08|{front}|no-uplink-after-command"), hex(&c.cmd.bytes))] };
    let a1 = match uplink_answers(&u1b) {
        Ok(a) => a,
        Err(e) => return vec![("C08|answers-not-whole-commands".into(), format!("{e}; request {}", hex(&c.cmd.bytes)))],
    };
    let total: usize = a1.iter().map(|(c, p)| 1 + p.len()).map(|x| { let _ = c; x }).sum();
    if total > 15 {
        v.push(("C08|answers-exceed-15-bytes".into(), format!("{total} bytes")));
    }
    let expected: Vec<u8> = reqs.iter().filter(|r| HANDLED.contains(&r.cid())).flat_map(|r| std::iter::repeat_n(r.cid(), r.answers())).collect();
    let observed: Vec<(u8, Vec<u8>)> = a1.iter().filter(|(c, _)| HANDLED.contains(c)).cloned().collect();
    let obs_cids: Vec<u8> = observed.iter().map(|x| x.0).collect();
    let is_prefix = obs_cids.len() <= expected.len() && obs_cids[..] == expected[..obs_cids.len()];
    if !is_prefix {
        // a later, shorter answer after a dropped one, a missing answer, or a spurious one
        let kind = if obs_cids.len() > expected.len() {
            "spurious-answer"
        } else if obs_cids.iter().all(|c| expected.contains(c)) {
            "non-trailing-answer-dropped"
        } else {
            "unexpected-answer"
        };
        v.push((format!("C08|{kind}"), format!("{region}: request {} expects answers {expected:02x?}, uplink carries {obs_cids:02x?}", hex(&c.cmd.bytes))));
        return v;
    }
    if obs_cids.len() < expected.len() {
        let next = expected[obs_cids.len()];
        let need = refmac::answer_len(next).unwrap();
        if total + need <= 15 {
            v.push((format!("C08|answer-missing|cid{next:02x}"), format!("{region}: request {} expects {expected:02x?}, uplink carries {obs_cids:02x?} in {total} bytes", hex(&c.cmd.bytes))));
            return v;
        }
    }
    // ---- model: the device does what it answers
    let mut st = MState::of(&s0);
    let mut k = 0usize;
    let mut naks = 0;
    let mut unknown = false;
    for r in &reqs {
        if !HANDLED.contains(&r.cid()) || r.answers() == 0 {
            continue;
        }
        let n = r.answers();
        if k + n > observed.len() {
            unknown = true; // answers dropped by the budget: status unknown from here on
            break;
        }
        let ans = &observed[k..k + n];
        k += n;
        if let Req::LinkAdrBlock(_) = r
            && ans.iter().any(|a| a.1 != ans[0].1)
        {
            v.push(("C08|linkadr-block-answers-differ".into(), format!("{:?}", ans)));
        }
        let status = ans[0].1.first().copied();
        let full = match refmac::full_ack(r.cid()) {
            Some(f) => status.map(|s| s & f == f).unwrap_or(false),
            None => true,
        };
        if let Some(why) = refmac::must_nak(region, &st, r)
            && full
        {
            v.push((format!("C08|invalid-request-acknowledged|{why}"), format!("{region}: {r:?} acknowledged with {status:02x?}")));
            // what an invalid request 'commands' is not defined: the state is not judged further
            unknown = true;
            break;
        }
        if full {
            refmac::apply(region, &mut st, r);
        } else {
            naks += 1;
        }
    }
    if !unknown {
        let d = st.diff(region, &s1);
        if !d.is_empty() {
            let fields: Vec<String> = d.iter().map(|x| x.split(' ').next().unwrap_or("").to_string()).collect();
            let kind = if naks > 0 && reqs.iter().filter(|r| HANDLED.contains(&r.cid())).count() == 1 { "rejected-request-changed-state" } else { "acknowledged-effect-differs" };
            let cmdname = reqs.iter().find(|r| HANDLED.contains(&r.cid())).map(|r| format!("cid{:02x}", r.cid())).unwrap_or_default();
            v.push((format!("C08|{kind}|{cmdname}|{}", fields.join("+")), format!("{region} [{front}] request {}: answers {:02x?}: {}", hex(&c.cmd.bytes), observed, d.join("; "))));
        }
        // the next transmission reflects the data rate in force
        if let Some(rf) = &u1.tx_rf {
            let drs = crate::refregion::dr_index(region, rf.sf, rf.bw);
            if !drs.contains(&s1.data_rate) && crate::refregion::dr(region, s1.data_rate).is_some() {
                v.push(("C08|next-uplink-not-at-commanded-datarate".into(), format!("data rate in force {}, uplink at SF{}/{}", s1.data_rate, rf.sf, rf.bw)));
            }
        }
    }
    // ---- sticky vs one-shot answers
    let sticky: Vec<(u8, Vec<u8>)> = observed.iter().filter(|(c, _)| STICKY.contains(c)).cloned().collect();
    if c.port0_uplink_between {
        if let Some(p) = dev.apply_ev(&Ev::Cycle { confirmed: false, port: 0, len: 0, rx1: None, rx2: None }) {
            return vec![(format!("C08|{front}|panic|{}", panic_site(&p)), format!("{p}; FPort 0 uplink after {}", hex(&c.cmd.bytes)))];
        }
    }
    let u2 = dev.cycle(None, vec![]);
    if let Some(b) = u2.tx
        && let Ok(a2) = uplink_answers(&b)
    {
        let h2: Vec<(u8, Vec<u8>)> = a2.into_iter().filter(|(c, _)| HANDLED.contains(c)).collect();
        if h2 != sticky {
            let kind = if h2.len() < sticky.len() { "sticky-answer-not-repeated" } else { "one-shot-answer-repeated" };
            v.push((format!("C08|{kind}"), format!("{region}: request {}: first uplink {observed:02x?}, second uplink {h2:02x?}", hex(&c.cmd.bytes))));
        }
    }
    // an accepted Class A downlink clears them
    let u3 = dev.cycle(Some(down(&[], false)), vec![]);
    if u3.accepted {
        let u4 = dev.cycle(None, vec![]);
        if let Some(b) = u4.tx
            && let Ok(a4) = uplink_answers(&b)
            && a4.iter().any(|(c, _)| HANDLED.contains(c))
        {
            v.push(("C08|answers-survive-acknowledging-downlink".into(), format!("{a4:02x?}")));
        }
    }
    v
}

/// A LinkADRReq's TX power on boards with an antenna gain and their own power ceiling: the conducted power of the
/// next transmission is the commanded EIRP minus the gain, capped by the board - for every TXPower index, also
/// after an earlier commanded level.
#[derive(Clone, Debug, serde::Serialize, serde::Deserialize)]
pub struct BoardCase {
    pub region: String,
    pub maxpw: u8,
    pub gain: i8,
    pub txp: u8,
    pub prior_txp: Option<u8>,
}

fn eval_board_g<const PW: u8, const GAIN: i8>(c: &BoardCase) -> Vec<(String, String)> {
    let region = c.region.as_str();
    let mut core: NbCore<PW, GAIN> = NbCore::new(&DevCfg::abp(region));
    let mut cycle = |core: &mut NbCore<PW, GAIN>, rx1: Option<Frame>| -> Result<(Option<i8>, Option<Vec<u8>>), String> {
        let (mut pw, mut tx) = (None, None);
        for m in core.apply(&Ev::Cycle { confirmed: false, port: 1, len: 1, rx1, rx2: None }) {
            if let Resp::Panic(p) = &m.resp {
                return Err(p.clone());
            }
            for op in &m.ops {
                if let RadioOp::Tx { pw: p, bytes, .. } = op {
                    pw = Some(*p);
                    tx = Some(bytes.clone());
                }
            }
        }
        Ok((pw, tx))
    };
    let run = |core: &mut NbCore<PW, GAIN>, cycle: &mut dyn FnMut(&mut NbCore<PW, GAIN>, Option<Frame>) -> Result<(Option<i8>, Option<Vec<u8>>), String>| -> Result<Vec<(String, String)>, String> {
        let mut v = vec![];
        let (mut prev, _) = cycle(core, None)?;
        let mut txps = vec![];
        txps.extend(c.prior_txp);
        txps.push(c.txp);
        for (k, txp) in txps.iter().enumerate() {
            cycle(core, Some(down(&cmds::link_adr(15, *txp, 0x00FF, 6, 1, false).bytes, false)))?;
            let (pw, tx) = cycle(core, None)?;
            let Some(tx) = tx else { return Ok(v) };
            let Ok(ans) = uplink_answers(&tx) else { return Ok(v) };
            let Some(status) = ans.iter().find(|a| a.0 == 0x03).and_then(|a| a.1.first().copied()) else { return Ok(v) };
            let want: Vec<i16> = if status & 7 == 7 && *txp != 15 {
                refmac::tx_power_values(region, *txp).into_iter().flatten().map(|e| (e as i16 - GAIN as i16).min(PW as i16)).collect()
            } else {
                prev.iter().map(|p| *p as i16).collect()
            };
            if k + 1 == txps.len()
                && !want.is_empty()
                && let Some(p) = pw
                && !want.contains(&(p as i16))
            {
                let kind = if status & 7 == 7 && *txp != 15 { "acknowledged-tx-power-not-in-effect" } else { "tx-power-changed-without-acknowledged-command" };
                v.push((
                    format!("C08|{kind}|board"),
                    format!("{region}, board maximum {PW} dBm, antenna gain {GAIN} dBi: LinkADRReq TXPower {txp} (after {:?}) answered {status:#04x}; the next uplink asks the radio for {p} dBm, expected {want:?} dBm (before: {prev:?})", c.prior_txp),
                ));
            }
            prev = pw;
        }
        Ok(v)
    };
    match run(&mut core, &mut cycle) {
        Ok(v) => v,
        Err(p) => vec![(format!("C08|nb|panic|{}", panic_site(&p)), p)],
    }
}

pub fn eval_board(c: &BoardCase) -> Vec<(String, String)> {
    match (c.maxpw, c.gain) {
        (14, 3) => eval_board_g::<14, 3>(c),
        (14, 6) => eval_board_g::<14, 6>(c),
        (22, -3) => eval_board_g::<22, -3>(c),
        (30, 2) => eval_board_g::<30, 2>(c),
        _ => eval_board_g::<10, 0>(c),
    }
}

fn handled_cmd(c: &Cmd) -> bool {
    !c.bytes.is_empty() && HANDLED.contains(&c.bytes[0])
}

pub fn run(tier: Tier, replay: Option<&str>) {
    if let Some(path) = replay {
        let cj = load_case(path);
        if let Some(b) = cj.get("board") {
            let c: BoardCase = serde_json::from_value(b.clone()).expect("board case");
            replay_exit("C08", path, eval_board(&c).into_iter().map(|x| x.0).collect());
        }
        let c: Case = serde_json::from_value(cj).expect("case");
        replay_exit("C08", path, eval(&c).into_iter().map(|x| x.0).collect());
    }
    let ctx = Ctx::new("C08", tier);
    let th = tier.thorough();
    let regions: Vec<&str> = if th { REGIONS.to_vec() } else { vec!["EU868", "US915", "AS923_1"] };
    let nontrivial = AtomicU64::new(0);
    let mut total_cases = 0u64;
    let mut samples = vec![];
    for region in &regions {
        // (quick: the full value domain for one dynamic-plan region, the reduced one elsewhere)
        let singles: Vec<Cmd> = cmds::single_commands(region, th || *region == "EU868").into_iter().filter(handled_cmd).collect();
        let blocks = cmds::link_adr_blocks(th);
        // answer-budget overflows: k DevStatusReq followed by each kind of request (port 0)
        let mut budget = vec![];
        let f = cmds::freq_bytes(cmds::freqs(region)[7]);
        let tails: Vec<Vec<u8>> = vec![
            vec![0x05, 0x00, f[0], f[1], f[2]],
            vec![0x08, 0x03],
            cmds::link_adr(15, 15, 0xFFFF, 0, 1, false).bytes,
            vec![0x07, 4, f[0], f[1], f[2], 0x50],
            vec![0x0A, 0, f[0], f[1], f[2]],
            vec![0x06],
        ];
        for k in 0..=6usize {
            for t in &tails {
                for t2 in &tails {
                    let mut b = vec![0x06; k];
                    b.extend(t);
                    b.extend(t2);
                    budget.push(Cmd { name: format!("budget-{k}xDevStatusReq"), bytes: b.clone() });
                    // ... and a third request with a 1-byte answer, which could slip in after a dropped one
                    b.extend([0x08, 0x04]);
                    budget.push(Cmd { name: format!("budget-{k}xDevStatusReq+3"), bytes: b });
                }
            }
        }
        // streams of requests whose answers are repeated (2-byte RXParamSetupAns / DlChannelAns, 1-byte
        // RXTimingSetupAns) and fill 13, 14, 15 (exactly full) or 16 bytes: the repeat must carry the same answers
        for (two, one) in [(5usize, 5usize), (5, 4), (5, 3), (5, 6), (7, 1), (7, 0), (6, 3), (0, 15), (0, 14), (0, 16), (6, 1), (7, 2)] {
            for two_kind in [0u8, 1] {
                let mut b = vec![];
                for i in 0..two {
                    if two_kind == 0 {
                        b.extend([0x05, 0x00, f[0], f[1], f[2]]);
                    } else {
                        b.extend([0x0A, (i % 3) as u8, f[0], f[1], f[2]]);
                    }
                }
                for i in 0..one {
                    b.extend([0x08, 1 + (i % 5) as u8]);
                }
                budget.push(Cmd { name: format!("repeated-answers-{two}x2+{one}x1"), bytes: b });
            }
        }
        // a refused LinkADRReq block, another request, then an accepted block in the same downlink: what the
        // refused block did to the mask must not leak into what the accepted one commits
        for (cntl_a, mask_a) in [(0u8, 0x0000u16), (0, 0x00F0), (1, 0x0000), (7, 0x0000)] {
            for bad_dr in [7u8, 15] {
                for bad_txp in [15u8, 14] {
                    if bad_dr == 15 && bad_txp == 15 {
                        continue;
                    }
                    for sep in [vec![0x06u8], vec![0x08, 0x01]] {
                        for (cntl_b, mask_b) in [(1u8, 0xFFFFu16), (0, 0x00FF), (6, 0x0000)] {
                            let mut b = cmds::link_adr(bad_dr, bad_txp, mask_a, cntl_a, 1, false).bytes;
                            b.extend(&sep);
                            b.extend(cmds::link_adr(15, 15, mask_b, cntl_b, 1, false).bytes);
                            budget.push(Cmd { name: "refused-block+other+accepted-block".into(), bytes: b });
                        }
                    }
                }
            }
        }
        for front in ["nb", "async"] {
            let reduce = front != "nb";
            for otaa in [false, true] {
                for base in BASES {
                    // OTAA devices are judged from the state after a join with a CFList; on the fixed plans also after
                    // a plain join under a join bias (below)
                    let biased_join = otaa && base == "fresh" && is_fixed(region) && front == "nb";
                    if (base == "cflist") != otaa && !biased_join {
                        continue;
                    }
                    if base == "extra-channels" && is_fixed(region) {
                        continue;
                    }
                    if reduce && base != "fresh" {
                        continue;
                    }
                  // (fixed plans: also a device that joined under a join bias, which forces data rate and sub-band
                  // until the network's first LinkADRReq)
                  let biases: Vec<Option<(u8, usize)>> = if biased_join { vec![Some((2, 4))] } else { vec![None] };
                  for bias in biases {
                    let mut dev = if otaa { DevCfg::otaa(region) } else { DevCfg::abp(region) };
                    dev.bias = bias;
                    let biased = bias.is_some();
                    let mut cases: Vec<Case> = vec![];
                    let mk = |prior: Vec<Vec<u8>>, cmd: &Cmd, port0: bool, cc: bool| Case {
                        front: front.into(),
                        dev: dev.clone(),
                        base: base.into(),
                        prior,
                        cmd: cmd.clone(),
                        port0,
                        class_c_delivery: cc,
                        class_c_idle: false,
                        port0_uplink_between: false,
                    };
                    for (i, c) in singles.iter().chain(blocks.iter()).enumerate() {
                        if reduce && i % 23 != 0 {
                            continue;
                        }
                        if c.bytes.len() <= 15 {
                            cases.push(mk(vec![], c, false, false));
                        }
                        if base == "fresh" {
                            cases.push(mk(vec![], c, true, false));
                        }
                        // requests whose answers are repeated: also with an FPort 0 uplink before the repeat
                        if base == "fresh" && c.bytes.len() <= 15 && matches!(c.bytes.first(), Some(0x05 | 0x08 | 0x0A)) {
                            cases.push(Case { port0_uplink_between: true, ..mk(vec![], c, false, false) });
                        }
                    }
                    if base == "fresh" && !biased && !otaa {
                        // sessions whose downlink counter is past 16 bits (and crosses an epoch with this very frame):
                        // requests carried encrypted on port 0 are decrypted with the full counter
                        for start in [0x1_0005u32, 0x2_FFFF] {
                            let mut hd = dev.clone();
                            hd.fcnt_down = Some(Some(start));
                            for (i, c) in singles.iter().enumerate() {
                                if i % if reduce { 211 } else { 13 } == 0 {
                                    cases.push(Case { dev: hd.clone(), ..mk(vec![], c, true, false) });
                                }
                            }
                        }
                    }
                    if base == "fresh" && !biased {
                        for c in &budget {
                            cases.push(mk(vec![], c, true, false));
                        }
                        // sequences: one or two prior command downlinks, then a reduced judged set
                        let dng = dangerous(region);
                        let mut judged: Vec<&Cmd> = singles.iter().enumerate().filter(|(i, _)| i % if th { 11 } else { 97 } == 0).map(|x| x.1).collect();
                        // always judge a redefinition of channel 3 (the channel the prior commands create and remap)
                        let redefine: Vec<Cmd> = [400_000u32, 600_000]
                            .iter()
                            .map(|d| {
                                let fb = cmds::freq_bytes(cmds::freqs(region)[3] + d);
                                Cmd { name: "NewChannelReq-redefine3".into(), bytes: vec![0x07, 3, fb[0], fb[1], fb[2], 0x50] }
                            })
                            .collect();
                        // ... and a DlChannelReq that names the channel's own uplink frequency: how a network undoes a
                        // remapping (the prior commands remap channel 0 and channel 3)
                        let restore: Vec<Cmd> = [(0u8, crate::refregion::default_channels(region).first().copied().unwrap_or(0)), (3, cmds::freqs(region)[3])]
                            .iter()
                            .map(|(i, f)| {
                                let fb = cmds::freq_bytes(*f);
                                Cmd { name: "DlChannelReq-restore".into(), bytes: vec![0x0A, *i, fb[0], fb[1], fb[2]] }
                            })
                            .collect();
                        if !is_fixed(region) {
                            judged.extend(redefine.iter());
                            judged.extend(restore.iter());
                        }
                        for (_, p1) in &dng {
                            for c in &judged {
                                cases.push(mk(vec![p1.clone()], c, false, false));
                            }
                            for (_, p2) in dng.iter() {
                                for (i, c) in judged.iter().enumerate() {
                                    // (thorough judges a larger set after one prior; after two priors every fifth
                                    // of it plus the redefinitions)
                                    if th && i % 5 != 0 && !c.name.starts_with("NewChannelReq-redefine") && !c.name.starts_with("DlChannelReq-restore") {
                                        continue;
                                    }
                                    cases.push(mk(vec![p1.clone(), p2.clone()], c, false, false));
                                }
                            }
                        }
                    }
                    if base == "fresh" && !biased {
                        // a prior downlink whose answers did not fit the 15-byte budget, then requests of every kind: what
                        // the overflow left behind must not reach the answers of a later downlink
                        let over: Vec<Vec<u8>> = vec![vec![0x06; 6], vec![0x06; 15], vec![0x06, 0x06, 0x06, 0x06, 0x06, 0x08, 0x02, 0x06]];
                        let mut mixed = vec![0x08, 0x03, 0x06];
                        mixed.extend(cmds::link_adr(15, 15, 0xFFFF, 0, 1, false).bytes);
                        let mixed = Cmd { name: "after-overflow-RXTimingSetupReq+DevStatusReq+LinkADRReq".into(), bytes: mixed };
                        let js: Vec<&Cmd> = singles.iter().enumerate().filter(|(i, _)| i % if th { 11 } else { 97 } == 0).map(|x| x.1).chain(std::iter::once(&mixed)).collect();
                        for p1 in &over {
                            for c in &js {
                                if c.bytes.len() <= 15 {
                                    cases.push(mk(vec![p1.clone()], c, false, false));
                                }
                            }
                            for c in budget.iter().step_by(if th { 1 } else { 7 }) {
                                cases.push(mk(vec![p1.clone()], c, true, false));
                            }
                        }
                    }
                    if samples.len() < 3 && !cases.is_empty() {
                        samples.push(serde_json::to_value(&cases[cases.len() / 2]).unwrap());
                    }
                    total_cases += cases.len() as u64;
                    cases.par_iter().for_each(|c| {
                        let r = eval(c);
                        if !refmac::parse_requests(region, &c.cmd.bytes).is_empty() {
                            nontrivial.fetch_add(1, Ordering::Relaxed);
                        }
                        for (sig, what) in r {
                            ctx.violation(sig, what, serde_json::to_value(c).unwrap(), c.cmd.bytes.len() + 20 * c.prior.len());
                        }
                        ctx.tick(1);
                    });
                  }
                }
            }
        }
        // Class C receptions carrying commands (async + Class C): neither execute nor clear
        let dev = DevCfg::abp(region);
        let cc_cases: Vec<Case> = singles
            .iter()
            .enumerate()
            .filter(|(i, _)| i % if th { 7 } else { 41 } == 0)
            .flat_map(|(_, c)| {
                let mut v = vec![];
                for prior in [vec![], vec![vec![0x08u8, 0x02]]] {
                    v.push(Case { front: "async-c".into(), dev: dev.clone(), base: "fresh".into(), prior, cmd: c.clone(), port0: false, class_c_delivery: true, class_c_idle: false, port0_uplink_between: false });
                }
                // heard while idle, with one-shot and sticky answers of the preceding Class A downlink still unsent
                for prior in [vec![vec![0x06u8]], vec![cmds::link_adr(15, 15, 0x00FF, 6, 1, false).bytes], vec![vec![0x08u8, 0x02, 0x06]]] {
                    v.push(Case { front: "async-c".into(), dev: dev.clone(), base: "fresh".into(), prior, cmd: c.clone(), port0: false, class_c_delivery: true, class_c_idle: true, port0_uplink_between: false });
                }
                v
            })
            .filter(|c| c.cmd.bytes.len() <= 15)
            .collect();
        total_cases += cc_cases.len() as u64;
        cc_cases.par_iter().for_each(|c| {
            for (sig, what) in eval(c) {
                ctx.violation(sig, what, serde_json::to_value(c).unwrap(), c.cmd.bytes.len());
            }
            ctx.tick(1);
        });
    }
    // TX power commanded on boards with an antenna gain / their own ceiling (every region in both tiers)
    let mut board_cases = vec![];
    for region in REGIONS {
        for (maxpw, gain) in [(14u8, 3i8), (14, 6), (22, -3), (30, 2), (10, 0)] {
            for txp in 0..16u8 {
                for prior_txp in [None, Some(0u8), Some(5), Some(7)] {
                    board_cases.push(BoardCase { region: region.to_string(), maxpw, gain, txp, prior_txp });
                }
            }
        }
    }
    total_cases += board_cases.len() as u64;
    board_cases.par_iter().for_each(|c| {
        for (sig, what) in eval_board(c) {
            ctx.violation(sig, what, json!({"board": serde_json::to_value(c).unwrap()}), 1 + c.prior_txp.is_some() as usize);
        }
        nontrivial.fetch_add(1, Ordering::Relaxed);
        ctx.tick(1);
    });
    let coverage = json!({
        "states": total_cases,
        "transitions": ctx.evals() * 5,
        "traces_validated_against_impl": ctx.evals(),
        "samples": samples,
        "evaluations": ctx.evals(),
        "distinct_nontrivial": nontrivial.load(Ordering::Relaxed),
        "rule": "each case is a history on a fresh real device: base state (fresh / CFList join / sparse mask / extra channels / high data rate), 0-2 prior command downlinks, the judged downlink (FOpts or port 0), then uplinks and an acknowledging downlink. Judged downlinks: the full value domain of LinkADRReq (DR x TXPower x ChMaskCntl x mask patterns x NbTrans x RFU bit), LinkADRReq blocks, RXParamSetupReq (all 256 DLSettings x frequency set), RXTimingSetupReq (all 256), NewChannelReq (index x frequency set x DrRange bytes), DlChannelReq, DevStatusReq (requests with repeated answers also with an FPort 0 uplink before the repeat); k x DevStatusReq followed by two further requests (answer budget at every position); streams of requests with repeated answers that fill 13 / 14 / 15 (exactly) / 16 bytes; the same kinds of downlink after a prior downlink whose answers overflowed the budget; Class C deliveries (between TX and RX1, and while idle in rxc_listen with the answers of the preceding Class A downlink still unsent); port-0 requests in sessions whose downlink counter is beyond 16 bits; boards (maximum power, antenna gain) in {(14,3),(14,6),(22,-3),(30,2),(10,0)} x all nine regions x every TXPower index 0..15 (alone and after an earlier commanded level 0 / 5 / 7): the conducted power of the next uplink is the acknowledged EIRP minus the antenna gain, capped by the board. non-trivial = judged stream contains at least one request",
        "regions": regions,
        "exhaustive": true,
    });
    let replayer = |cj: &Value| -> Vec<String> {
        if let Some(b) = cj.get("board") {
            let c: BoardCase = serde_json::from_value(b.clone()).unwrap();
            return eval_board(&c).into_iter().map(|x| x.0).collect();
        }
        let c: Case = serde_json::from_value(cj.clone()).unwrap();
        eval(&c).into_iter().map(|x| x.0).collect()
    };
    ctx.finish(
        "model_checking",
        coverage,
        vec![
            "reference model: refmac.rs (effects, validity) over refregion.rs; only unambiguously invalid requests must be refused, where RP002 leaves room either answer is accepted and only 'does what it answers' is enforced".into(),
            "handled requests (those the statement lists): LinkADRReq, RXParamSetupReq, DevStatusReq, RXTimingSetupReq, and NewChannelReq / DlChannelReq in dynamic-plan regions; answers to other commands are not judged".into(),
            "channel-mask bits are compared only for channels that exist".into(),
        ],
        Some(&replayer),
    );
}
