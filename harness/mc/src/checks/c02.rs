//! C02 — receive path: authentic <=> reference MIC, decode == reference, untouched on failure.
//! A search over frame mutations: states are byte strings, edges are single mutations.
use crate::checks::c01::{KEYS, ftype};
use crate::checks::{load_case, replay_exit};
use crate::ctx::{Ctx, Tier, catch, hex, panic_site, unhex};
use crate::refcodec::{self, DataDesc, JoinAcceptDesc, Parsed};
use lorawan::default_crypto::DefaultCrypto;
use lorawan::keys::AES128;
use lorawan::parser::{
    CfList, DecryptedDataPayload, DecryptedJoinAcceptPayload, DevNonce, EncryptedDataPayload, FrmPayload, PhyPayload, parse,
};
use rayon::prelude::*;
use serde::{Deserialize, Serialize};
use serde_json::{Value, json};
use std::collections::HashSet;
use std::sync::Mutex;
use std::sync::atomic::{AtomicU64, Ordering};

#[derive(Clone, Debug, Serialize, Deserialize)]
pub struct Case {
    /// the byte string presented to the parser (hex)
    pub bytes: String,
    /// keys handed to the implementation: indices into KEYS
    pub nwk: usize,
    pub app: usize,
    /// counter hint passed by the caller
    pub fcnt: u32,
    /// label of the mutation path that produced the string (for humans / signatures)
    pub path: String,
    /// for unmutated roots: the description the frame was built from (round-trip oracle)
    #[serde(default)]
    pub root_desc: Option<RootDesc>,
    /// builder -> parser round trip: the description handed to the real builder (then `bytes` is unused)
    #[serde(default)]
    pub built: Option<Built>,
}

/// A description handed to the real builders; the built frame is decoded by the real parser and compared with it.
#[derive(Clone, Debug, Serialize, Deserialize)]
pub enum Built {
    Data(crate::checks::c01::DataCase),
    JoinAccept { join_nonce: u32, net_id: u32, devaddr: u32, dl_settings: u8, rx_delay: u8, cf_kind: u8, mask: [u8; 9], freqs: [u32; 5], key: usize },
    JoinRequest { join_eui: u64, dev_eui: u64, dev_nonce: u16, key: usize },
}

#[derive(Clone, Debug, Serialize, Deserialize)]
pub struct RootDesc {
    pub mtype: u8,
    pub devaddr: u32,
    pub fctrl_flags: u8,
    pub fcnt: u32,
    pub fopts: String,
    pub fport: Option<u8>,
    pub frm: String,
    pub nwk: usize,
    pub app: usize,
}

fn mclass(path: &str) -> &str {
    // last edge label, without its numeric argument
    if !path.contains('>') {
        return "root";
    }
    let last = path.rsplit('>').next().unwrap_or(path);
    last.split(':').next().unwrap_or(last)
}

/// Builder -> parser round trip on the real code alone (no reference codec involved): whatever the real builder emits for a
/// description must come back from the real checked decode as that description.
pub fn eval_built(b: &Built) -> Vec<(String, String)> {
    use lorawan::creator::{DataFrame, JoinAccept, JoinRequest, Payload};
    use lorawan::default_crypto::DefaultNetworkCrypto;
    use lorawan::parser::{DevAddr, DevEui, Frequency, JoinEui, JoinNonce, JoinRequestPayload, NetId};
    use lorawan::types::{ChannelMask, DLSettings};
    let mut v = vec![];
    let r = catch(|| -> Vec<(String, String)> {
        let mut v = vec![];
        match b {
            Built::Data(dc) => {
                let d = dc.desc();
                let (ni, ai) = crate::checks::c01::KEY_PAIRS[dc.keypair];
                let nwk = DefaultCrypto::new(&AES128(KEYS[ni]));
                let app = DefaultCrypto::new(&AES128(KEYS[ai]));
                let payload = match d.fport {
                    None => Payload::None,
                    Some(0) => Payload::MacCommands(&d.frm),
                    Some(p) => Payload::Data { f_port: std::num::NonZeroU8::new(p).unwrap(), data: &d.frm },
                };
                let f = DataFrame {
                    frame_type: ftype(d.mtype),
                    dev_addr: DevAddr::from_value(d.devaddr),
                    adr: d.adr,
                    adr_ack_req: d.adr_ack_req,
                    ack: d.ack,
                    f_pending: d.f_pending,
                    fcnt: d.fcnt,
                    f_opts: &d.fopts,
                    payload,
                };
                let mut buf = vec![0xEEu8; 300];
                let Ok(built) = f.build_into(&mut buf, &nwk, Some(&app)).map(|x| x.to_vec()) else { return v };
                let mut rx = built.clone();
                match DecryptedDataPayload::check_mic_and_decrypt_in_place(&mut rx, &nwk, Some(&app), d.fcnt) {
                    Err(e) => v.push(("C02|built-roundtrip|data|rejected".into(), format!("{dc:?}: built {} is refused by the checked decode: {e:?}", hex(&built)))),
                    Ok(p) => {
                        let h = p.fhdr();
                        let c = h.fctrl();
                        let (port, body): (Option<u8>, &[u8]) = match p.frm_payload() {
                            FrmPayload::Data(x) => (p.f_port(), x),
                            FrmPayload::MacCommands(x) => (p.f_port(), x),
                            FrmPayload::None => (p.f_port(), &[]),
                        };
                        let up = d.mtype == 2 || d.mtype == 4;
                        let ok = p.frame_type() == ftype(d.mtype)
                            && h.dev_addr().value() == d.devaddr
                            && h.fcnt() == d.fcnt as u16
                            && h.f_opts() == &d.fopts[..]
                            && c.adr() == d.adr
                            && c.ack() == d.ack
                            && (!up || c.adr_ack_req() == d.adr_ack_req)
                            && (up || c.f_pending() == d.f_pending)
                            && port == d.fport
                            && body == &d.frm[..];
                        if !ok {
                            v.push(("C02|built-roundtrip|data|fields".into(), format!("{dc:?}: built {} decodes to other fields (port {port:?}, payload {})", hex(&built), hex(body))));
                        }
                    }
                }
            }
            Built::JoinAccept { join_nonce, net_id, devaddr, dl_settings, rx_delay, cf_kind, mask, freqs, key } => {
                let cf = match cf_kind {
                    0 => None,
                    1 => {
                        let mut fr = [Frequency::default(); 5];
                        for i in 0..5 {
                            let le = freqs[i].to_le_bytes();
                            fr[i] = Frequency::from_wire_bytes([le[0], le[1], le[2]]);
                        }
                        Some(CfList::DynamicChannel(fr))
                    }
                    _ => Some(CfList::FixedChannel(ChannelMask::<9>::from(*mask))),
                };
                let ja = JoinAccept {
                    join_nonce: JoinNonce::from_value(*join_nonce),
                    net_id: NetId::from_value(*net_id),
                    dev_addr: DevAddr::from_value(*devaddr),
                    dl_settings: DLSettings::new(*dl_settings),
                    rx_delay: *rx_delay,
                    c_f_list: cf.clone(),
                };
                let mut buf = vec![0xEEu8; 64];
                let Ok(built) = ja.build_into(&mut buf, &DefaultNetworkCrypto::new(&AES128(KEYS[*key]))).map(|x| x.to_vec()) else { return v };
                let mut rx = built.clone();
                match DecryptedJoinAcceptPayload::check_mic_and_decrypt_in_place(&mut rx, &DefaultCrypto::new(&AES128(KEYS[*key]))) {
                    Err(e) => v.push(("C02|built-roundtrip|joinaccept|rejected".into(), format!("{b:?}: built {} is refused: {e:?}", hex(&built)))),
                    Ok(d) => {
                        let cf_ok = match (d.c_f_list(), &cf) {
                            (None, None) => true,
                            (Some(CfList::DynamicChannel(a)), Some(CfList::DynamicChannel(w))) => (0..5).all(|i| a[i].as_wire_bytes() == w[i].as_wire_bytes()),
                            (Some(CfList::FixedChannel(a)), Some(CfList::FixedChannel(w))) => a.as_ref() == w.as_ref() && (0..72).all(|i| a.is_enabled(i) == w.is_enabled(i)),
                            _ => false,
                        };
                        let ok = d.join_nonce().value() == *join_nonce
                            && d.net_id().value() == *net_id
                            && d.dev_addr().value() == *devaddr
                            && d.dl_settings().raw_value() == *dl_settings
                            && d.rx_delay() == *rx_delay
                            && cf_ok;
                        if !ok {
                            v.push((format!("C02|built-roundtrip|joinaccept|{}", if cf_ok { "fields" } else { "cflist" }), format!("{b:?}: built {} decodes to {}", hex(&built), hex(d.as_bytes()))));
                        }
                    }
                }
            }
            Built::JoinRequest { join_eui, dev_eui, dev_nonce, key } => {
                let jr = JoinRequest { join_eui: JoinEui::from_value(*join_eui), dev_eui: DevEui::from_value(*dev_eui), dev_nonce: DevNonce::from_value(*dev_nonce) };
                let c = DefaultCrypto::new(&AES128(KEYS[*key]));
                let mut buf = [0xEEu8; 32];
                let Ok(built) = jr.build_into(&mut buf, &c).map(|x| x.to_vec()) else { return v };
                match JoinRequestPayload::parse(&built[..]) {
                    Err(e) => v.push(("C02|built-roundtrip|joinrequest|rejected".into(), format!("{b:?}: built {} does not parse: {e:?}", hex(&built)))),
                    Ok(p) => {
                        if !(p.join_eui().value() == *join_eui && p.dev_eui().value() == *dev_eui && p.dev_nonce().value() == *dev_nonce && p.validate_mic(&c)) {
                            v.push(("C02|built-roundtrip|joinrequest|fields".into(), format!("{b:?}: built {}", hex(&built))));
                        }
                    }
                }
            }
        }
        v
    });
    match r {
        Ok(mut x) => v.append(&mut x),
        Err(p) => v.push((format!("C02|built-roundtrip|panic|{}", panic_site(&p)), format!("panic on {b:?}: {p}"))),
    }
    v
}

pub fn eval(c: &Case) -> Vec<(String, String)> {
    if let Some(b) = &c.built {
        return eval_built(b);
    }
    let bytes = unhex(&c.bytes);
    let nwk = KEYS[c.nwk];
    let app = KEYS[c.app];
    let mc = mclass(&c.path).to_string();
    let mut v: Vec<(String, String)> = vec![];
    let r = catch(|| eval_inner(&bytes, &nwk, &app, c.fcnt, c.root_desc.as_ref(), &mc));
    match r {
        Ok(mut x) => v.append(&mut x),
        Err(p) => v.push((format!("C02|panic|{}", panic_site(&p)), format!("panic on {}: {p}", c.bytes))),
    }
    v
}

fn eval_inner(bytes: &[u8], nwk: &[u8; 16], app: &[u8; 16], fcnt: u32, root: Option<&RootDesc>, mc: &str) -> Vec<(String, String)> {
    let mut v = vec![];
    let rp = refcodec::parse(bytes);
    let ip = parse(bytes);
    // --- classifier ---
    match (&ip, &rp) {
        (Ok(_), Err(e)) => v.push((format!("C02|parse-accepts-malformed|{e:?}"), format!("parse accepted {} (reference: {e:?})", hex(bytes)))),
        (Err(e), Ok(_)) => v.push((format!("C02|parse-rejects-wellformed|{e:?}"), format!("parse rejected {} with {e:?}", hex(bytes)))),
        _ => {}
    }
    let (Ok(ip), Ok(rp)) = (ip, rp) else {
        // also the direct data-frame entry points must agree with the reference on malformed input
        let rd = refcodec::parse_data(bytes);
        let id = EncryptedDataPayload::parse(bytes);
        if id.is_ok() != rd.is_ok() {
            v.push(("C02|dataparse-class".into(), format!("EncryptedDataPayload::parse ok={} reference ok={} on {}", id.is_ok(), rd.is_ok(), hex(bytes))));
        }
        // failure leaves the buffer untouched
        let mut buf = bytes.to_vec();
        let n = DefaultCrypto::new(&AES128(*nwk));
        let a = DefaultCrypto::new(&AES128(*app));
        let res = DecryptedDataPayload::check_mic_and_decrypt_in_place(&mut buf, &n, Some(&a), fcnt).map(|_| ());
        if rd.is_err() {
            if res.is_ok() {
                v.push(("C02|checked-decode-accepts-malformed".into(), hex(bytes)));
            }
            if buf != bytes {
                v.push((format!("C02|buffer-modified-on-failure|{mc}"), format!("in {} out {}", hex(bytes), hex(&buf))));
            }
        }
        return v;
    };
    match (ip, rp) {
        (PhyPayload::Data(enc), Parsed::Data(rv)) => {
            // --- structural accessors ---
            let fh = enc.fhdr();
            let mut diff = |name: &str, ok: bool| {
                if !ok {
                    v.push((format!("C02|field|{name}"), format!("accessor {name} disagrees with reference on {}", hex(bytes))));
                }
            };
            diff("frame_type", enc.frame_type() == ftype(rv.mtype));
            diff("is_uplink", enc.is_uplink() == rv.uplink());
            diff("is_confirmed", enc.is_confirmed() == (rv.mtype >= 4));
            diff("dev_addr", fh.dev_addr().value() == rv.devaddr);
            diff("fctrl.raw", fh.fctrl().raw_value() == rv.fctrl);
            diff("fctrl.adr", fh.fctrl().adr() == (rv.fctrl & 0x80 != 0));
            diff("fctrl.adr_ack_req", fh.fctrl().adr_ack_req() == (rv.uplink() && rv.fctrl & 0x40 != 0));
            diff("fctrl.ack", fh.fctrl().ack() == (rv.fctrl & 0x20 != 0));
            diff("fctrl.f_pending", fh.fctrl().f_pending() == (!rv.uplink() && rv.fctrl & 0x10 != 0));
            diff("fctrl.f_opts_len", fh.fctrl().f_opts_len() == rv.fopts.len());
            diff("fcnt", fh.fcnt() == rv.fcnt16);
            diff("f_opts", fh.f_opts() == &rv.fopts[..]);
            diff("f_port", enc.f_port() == rv.fport);
            diff("mic", enc.mic().0 == rv.mic);
            diff("as_bytes", enc.as_bytes() == bytes);
            // --- MIC equivalence ---
            let n = DefaultCrypto::new(&AES128(*nwk));
            let a = DefaultCrypto::new(&AES128(*app));
            let want = refcodec::data_mic_ok(bytes, &rv, nwk, fcnt);
            let got = enc.validate_mic(&n, fcnt);
            if got != want {
                let k = if got { "mic-accepts-forged" } else { "mic-rejects-authentic" };
                v.push((format!("C02|{k}|{mc}"), format!("validate_mic={got}, reference={want}, fcnt={fcnt:#x}, frame {}", hex(bytes))));
            }
            // --- checked decode ---
            let mut buf = bytes.to_vec();
            let res = DecryptedDataPayload::check_mic_and_decrypt_in_place(&mut buf, &n, Some(&a), fcnt);
            match res {
                Err(e) => {
                    if want {
                        v.push((format!("C02|checked-decode-rejects-authentic|{e:?}"), hex(bytes)));
                    }
                    if buf != bytes {
                        v.push((format!("C02|buffer-modified-on-failure|{mc}"), format!("in {} out {}", hex(bytes), hex(&buf))));
                    }
                }
                Ok(dec) => {
                    if !want {
                        v.push((format!("C02|checked-decode-accepts-forged|{mc}"), hex(bytes)));
                    }
                    // The one-call path and the two-call path (validate_mic, then decrypt_in_place) are the same
                    // decoder: same bytes left in the buffer, and decrypting what the checked call left behind
                    // restores what was received - whatever relation the caller's counter has to the wire counter.
                    let checked_out = dec.as_bytes().to_vec();
                    let mut two = bytes.to_vec();
                    if DecryptedDataPayload::decrypt_in_place(&mut two, Some(&n), Some(&a), fcnt).is_ok() && two != checked_out {
                        v.push((
                            format!("C02|checked-decode-differs-from-decrypt-in-place|{}", if fcnt as u16 == rv.fcnt16 { "counter-matches-wire" } else { "counter-low-half-differs-from-wire" }),
                            format!("fcnt {fcnt:#x}, frame {}: check_mic_and_decrypt_in_place left {}, decrypt_in_place left {}", hex(bytes), hex(&checked_out), hex(&two)),
                        ));
                    }
                    let mut again = checked_out.clone();
                    if DecryptedDataPayload::decrypt_in_place(&mut again, Some(&n), Some(&a), fcnt).is_ok() && again != bytes {
                        v.push((
                            format!("C02|involution-after-checked-decode|{}", if fcnt as u16 == rv.fcnt16 { "counter-matches-wire" } else { "counter-low-half-differs-from-wire" }),
                            format!("fcnt {fcnt:#x}: received {}, after check_mic_and_decrypt_in_place + decrypt_in_place {}", hex(bytes), hex(&again)),
                        ));
                    }
                    // plaintext is only defined when the hint agrees with the wire half
                    if fcnt as u16 == rv.fcnt16 {
                        let plain = refcodec::data_plain(&rv, nwk, app, fcnt);
                        let ok = match dec.frm_payload() {
                            FrmPayload::None => rv.fport.is_none() && plain.is_empty(),
                            FrmPayload::MacCommands(p) => rv.fport == Some(0) && p == &plain[..],
                            FrmPayload::Data(p) => matches!(rv.fport, Some(x) if x != 0) && p == &plain[..],
                        };
                        if !ok {
                            v.push((
                                format!("C02|plaintext|{mc}"),
                                format!("decoded {:?} reference port {:?} plain {} frame {}", dec.frm_payload(), rv.fport, hex(&plain), hex(bytes)),
                            ));
                        }
                        if dec.f_port() != rv.fport
                            || dec.fhdr().f_opts() != &rv.fopts[..]
                            || dec.fhdr().dev_addr().value() != rv.devaddr
                            || dec.fhdr().fcnt() != rv.fcnt16
                            || dec.fhdr().fctrl().raw_value() != rv.fctrl
                            || dec.frame_type() != ftype(rv.mtype)
                        {
                            v.push(("C02|field|decrypted-view".into(), hex(bytes)));
                        }
                        if let Some(rd) = root {
                            // round trip: the unmutated root decodes to its description
                            let ok = rd.mtype == rv.mtype
                                && rd.devaddr == rv.devaddr
                                && rd.fcnt as u16 == rv.fcnt16
                                && unhex(&rd.fopts) == rv.fopts
                                && rd.fport == rv.fport
                                && unhex(&rd.frm) == plain
                                && (rv.fctrl & 0xf0) == rd.fctrl_flags;
                            if !ok {
                                v.push(("C02|roundtrip".into(), format!("root {:?} decoded differently: {}", rd, hex(bytes))));
                            }
                        }
                    }
                }
            }
            // --- unchecked decrypt twice restores the ciphertext ---
            let mut b2 = bytes.to_vec();
            let r1 = DecryptedDataPayload::decrypt_in_place(&mut b2, Some(&n), Some(&a), fcnt).map(|_| ());
            if r1.is_ok() {
                let r2 = DecryptedDataPayload::decrypt_in_place(&mut b2, Some(&n), Some(&a), fcnt).map(|_| ());
                // the port byte is not encrypted, so the key choice is identical both times
                if r2.is_err() || b2 != bytes {
                    v.push((format!("C02|involution|{mc}"), format!("in {} after two decrypts {}", hex(bytes), hex(&b2))));
                }
            } else {
                v.push(("C02|decrypt-rejects-wellformed".into(), hex(bytes)));
            }
        }
        (PhyPayload::JoinRequest(jr), Parsed::JoinRequest { join_eui, dev_eui, dev_nonce, mic }) => {
            let ok = jr.join_eui().as_wire_bytes() == &join_eui
                && jr.dev_eui().as_wire_bytes() == &dev_eui
                && jr.dev_nonce().value() == dev_nonce
                && jr.mic().0 == mic
                && jr.as_bytes() == bytes;
            if !ok {
                v.push(("C02|field|joinrequest".into(), hex(bytes)));
            }
            let want = refcodec::plain_mic(nwk, &bytes[..19]) == mic;
            let got = jr.validate_mic(&DefaultCrypto::new(&AES128(*nwk)));
            if got != want {
                v.push((format!("C02|joinreq-mic|{mc}"), hex(bytes)));
            }
        }
        (PhyPayload::JoinAccept(_), Parsed::JoinAccept { .. }) => {
            // here `nwk` plays the role of the AppKey
            let (plain, want) = refcodec::decode_join_accept(bytes, nwk).unwrap();
            // the network-side crypto object decodes to the same verdict and bytes as the device-side one
            {
                let mut b1 = bytes.to_vec();
                let mut b2 = bytes.to_vec();
                let r1 = DecryptedJoinAcceptPayload::check_mic_and_decrypt_in_place(&mut b1, &DefaultCrypto::new(&AES128(*nwk))).map(|d| d.as_bytes().to_vec());
                let r2 = DecryptedJoinAcceptPayload::check_mic_and_decrypt_in_place(&mut b2, &lorawan::default_crypto::DefaultNetworkCrypto::new(&AES128(*nwk))).map(|d| d.as_bytes().to_vec());
                if r1.is_ok() != r2.is_ok() || (r1.is_ok() && r1.as_ref().ok() != r2.as_ref().ok()) {
                    v.push((format!("C02|joinacc-crypto-objects-disagree|{mc}"), format!("device-side {:?} / network-side {:?} on {}", r1.map(|x| hex(&x)), r2.map(|x| hex(&x)), hex(bytes))));
                }
            }
            let mut buf = bytes.to_vec();
            let res = DecryptedJoinAcceptPayload::check_mic_and_decrypt_in_place(&mut buf, &DefaultCrypto::new(&AES128(*nwk)));
            match res {
                Err(_) => {
                    if want {
                        v.push((format!("C02|joinacc-rejects-authentic|{mc}"), hex(bytes)));
                    }
                }
                Ok(d) => {
                    if !want {
                        v.push((format!("C02|joinacc-accepts-forged|{mc}"), hex(bytes)));
                    }
                    let f = refcodec::join_accept_fields(&plain);
                    let cf_ok = match (d.c_f_list(), &f.cflist) {
                        (None, None) => true,
                        (None, Some(raw)) => raw[15] > 1,
                        (Some(CfList::DynamicChannel(fr)), Some(raw)) => {
                            raw[15] == 0 && (0..5).all(|i| fr[i].as_wire_bytes() == &raw[3 * i..3 * i + 3])
                        }
                        (Some(CfList::FixedChannel(m)), Some(raw)) => raw[15] == 1 && m.as_ref() == &raw[..9],
                        _ => false,
                    };
                    let ok = d.join_nonce().value() == f.join_nonce
                        && d.net_id().value() == f.net_id
                        && d.dev_addr().value() == f.devaddr
                        && d.dl_settings().raw_value() == f.dl_settings
                        && d.rx_delay() == f.rx_delay & 0x0f
                        && d.as_bytes() == &plain[..]
                        && cf_ok;
                    if !ok {
                        v.push(("C02|field|joinaccept".into(), format!("plain {}", hex(&plain))));
                    }
                    for dn in [0u16, 1, 0xFFFF, 0x1234] {
                        let (rn, ra) = refcodec::derive_keys(nwk, f.join_nonce, f.net_id, dn);
                        let c = DefaultCrypto::new(&AES128(*nwk));
                        let inwk = d.derive_nwkskey(DevNonce::from_value(dn), &c);
                        let iapp = d.derive_appskey(DevNonce::from_value(dn), &c);
                        if inwk.inner().0 != rn || iapp.inner().0 != ra {
                            v.push(("C02|joinacc-derived-keys".into(), format!("plain {} devnonce {dn}", hex(&plain))));
                        }
                    }
                }
            }
        }
        (i, r) => {
            v.push(("C02|parse-kind".into(), format!("impl {:?} reference {:?}", i, r)));
        }
    }
    v
}

/// Single-mutation alphabet. Returns (label, mutated bytes).
fn mutations(b: &[u8]) -> Vec<(String, Vec<u8>)> {
    let mut out = vec![];
    let n = b.len();
    let mut flip = |label: &str, idx: usize, out: &mut Vec<(String, Vec<u8>)>| {
        if idx < n {
            for bit in 0..8 {
                let mut m = b.to_vec();
                m[idx] ^= 1 << bit;
                out.push((format!("flip-{label}:{bit}"), m));
            }
        }
    };
    flip("mhdr", 0, &mut out);
    flip("devaddr", 1, &mut out);
    flip("fctrl", 5, &mut out);
    flip("fcnt-lo", 6, &mut out);
    flip("fcnt-hi", 7, &mut out);
    if n >= 12 {
        let fol = (b[5] & 0x0f) as usize;
        if 8 + fol < n - 4 {
            flip("fport", 8 + fol, &mut out);
            if 9 + fol < n - 4 {
                flip("frm-first", 9 + fol, &mut out);
                flip("frm-last", n - 5, &mut out);
            }
        }
        for k in 0..4 {
            flip("mic", n - 4 + k, &mut out);
        }
        for l in 0..16u8 {
            if l != b[5] & 0x0f {
                let mut m = b.to_vec();
                m[5] = (m[5] & 0xf0) | l;
                out.push((format!("foptslen:{l}"), m));
            }
        }
    }
    for k in 1..=5 {
        if n >= k {
            out.push((format!("trunc-by:{k}"), b[..n - k].to_vec()));
        }
    }
    for l in 0..=12 {
        if l < n {
            out.push((format!("trunc-to:{l}"), b[..l].to_vec()));
        }
    }
    for x in [0x00u8, 0xff, 0x55] {
        let mut m = b.to_vec();
        m.push(x);
        out.push((format!("append:{x}"), m));
    }
    out
}

struct Root {
    bytes: Vec<u8>,
    desc: Option<RootDesc>,
    nwk: usize,
    app: usize,
    fcnt: u32,
    label: String,
    /// presented as built only (value sweeps); other roots are also mutated
    sweep: bool,
}

fn roots(th: bool) -> Vec<Root> {
    let mut out = vec![];
    let lens: &[usize] = &[0, 1, 15, 16, 17, 32, 33, 242];
    let fols: Vec<usize> = (0..=15).collect();
    let ctrs: &[u32] = if th { &[0x1_FFFF, 0xFFFF_FFFF, 0] } else { &[0x1_FFFF] };
    let (nwk, app) = (2usize, 4usize);
    for &fol in &fols {
        for &len in lens {
            for kind in 0..3u8 {
                if kind == 0 && len != lens[0] {
                    continue;
                }
                if kind == 2 && fol > 0 {
                    continue;
                }
                for mtype in 2..=5u8 {
                    for &fcnt in ctrs {
                        let fopts: Vec<u8> = (0..fol).map(|i| 0xA0 + i as u8).collect();
                        let frm: Vec<u8> = (0..len).map(|i| (i as u8).wrapping_mul(11).wrapping_add(3)).collect();
                        let d = DataDesc {
                            mtype,
                            devaddr: 0x2601_1234,
                            adr: true,
                            adr_ack_req: false,
                            ack: mtype == 3,
                            f_pending: false,
                            fcnt,
                            fopts: fopts.clone(),
                            fport: match kind {
                                0 => None,
                                1 => Some(7),
                                _ => Some(0),
                            },
                            frm: if kind == 0 { vec![] } else { frm.clone() },
                        };
                        let bytes = refcodec::encode_data(&d, &KEYS[nwk], &KEYS[app]).unwrap();
                        let flags = bytes[5] & 0xf0;
                        out.push(Root {
                            desc: Some(RootDesc {
                                mtype,
                                devaddr: d.devaddr,
                                fctrl_flags: flags,
                                fcnt,
                                fopts: hex(&d.fopts),
                                fport: d.fport,
                                frm: hex(&d.frm),
                                nwk,
                                app,
                            }),
                            bytes,
                            nwk,
                            app,
                            fcnt,
                            label: format!("data(m{mtype},fol{fol},k{kind},len{len})"),
                            sweep: false,
                        });
                    }
                }
            }
        }
    }
    // every FPort value: the key is chosen by "port 0 or not" and by nothing else
    for port in 1..=255u8 {
        for mtype in [2u8, 5] {
            for fol in [0usize, 3] {
                let d = DataDesc {
                    mtype,
                    devaddr: 0x2601_1234,
                    adr: false,
                    adr_ack_req: false,
                    ack: false,
                    f_pending: mtype == 5,
                    fcnt: 0x2_0005,
                    fopts: (0..fol).map(|i| 0xB0 + i as u8).collect(),
                    fport: Some(port),
                    frm: vec![0x11, 0x22, 0x33, 0x44, 0x55],
                };
                let bytes = refcodec::encode_data(&d, &KEYS[nwk], &KEYS[app]).unwrap();
                let flags = bytes[5] & 0xf0;
                out.push(Root {
                    desc: Some(RootDesc { mtype, devaddr: d.devaddr, fctrl_flags: flags, fcnt: d.fcnt, fopts: hex(&d.fopts), fport: d.fport, frm: hex(&d.frm), nwk, app }),
                    bytes,
                    nwk,
                    app,
                    fcnt: d.fcnt,
                    label: format!("data(m{mtype},fol{fol},port{port})"),
                    sweep: true,
                });
            }
        }
    }
    // JoinAccept roots (AppKey = KEYS[nwk]) and a JoinRequest root
    for (i, cf) in [None, Some([0x18, 0x4f, 0x84, 0xe8, 0x56, 0x84, 0xb8, 0x5e, 0x84, 0x88, 0x66, 0x84, 0x58, 0x6e, 0x84, 0]), Some([0, 0xff, 0, 0, 0, 0, 0, 0, 2, 0, 0, 0, 0, 0, 0, 1]), Some([9; 16]), Some([1, 2, 3, 4, 5, 6, 7, 8, 9, 0xAA, 0xBB, 0xCC, 0xDD, 0xEE, 0xFF, 1]), Some([0, 0, 0, 0, 0, 0, 0, 0, 0, 0, 0, 0, 0, 0, 1, 1])]
        .into_iter()
        .enumerate()
    {
        let d = JoinAcceptDesc { join_nonce: 0x010203, net_id: 0x040506, devaddr: 0x2601_1234, dl_settings: 0x35, rx_delay: 5, cflist: cf };
        out.push(Root { bytes: refcodec::encode_join_accept(&d, &KEYS[nwk]), desc: None, nwk, app, fcnt: 0, label: format!("joinaccept{i}"), sweep: false });
    }
    out.push(Root {
        bytes: refcodec::encode_join_request(&[1, 2, 3, 4, 5, 6, 7, 8], &[9, 8, 7, 6, 5, 4, 3, 2], 0xBEEF, &KEYS[nwk]),
        desc: None,
        nwk,
        app,
        fcnt: 0,
        label: "joinrequest".into(),
        sweep: false,
    });
    out
}

fn fx(b: &[u8]) -> u64 {
    let mut h: u64 = 0xcbf29ce484222325 ^ (b.len() as u64).wrapping_mul(0x9E3779B97F4A7C15);
    for &x in b {
        h = (h ^ x as u64).wrapping_mul(0x100000001b3);
        h = h.rotate_left(23) ^ (h >> 7);
    }
    h
}

pub fn run(tier: Tier, replay: Option<&str>) {
    if let Some(path) = replay {
        let c: Case = serde_json::from_value(load_case(path)).expect("bad case");
        replay_exit("C02", path, eval(&c).into_iter().map(|x| x.0).collect());
    }
    let ctx = Ctx::new("C02", tier);
    let th = tier.thorough();
    let roots = roots(th);
    let states: Mutex<HashSet<u64>> = Mutex::new(HashSet::new());
    let transitions = AtomicU64::new(0);
    let depth2 = AtomicU64::new(0);
    let accepted = AtomicU64::new(0);
    let rejected = AtomicU64::new(0);

    // presentation variants: (nwk key, app key, counter hint relative to the root's counter)
    let present = |r: &Root, bytes: &[u8], path: &str, root_desc: Option<&RootDesc>, full: bool| {
        let wrong = 1usize; // KEYS[1] = FF..FF
        let keysets: Vec<(usize, usize)> = if full { vec![(r.nwk, r.app), (r.app, r.nwk), (wrong, r.app)] } else { vec![(r.nwk, r.app), (wrong, r.app)] };
        let hints: Vec<u32> = if full {
            vec![r.fcnt, r.fcnt.wrapping_add(0x1_0000), r.fcnt.wrapping_sub(0x1_0000), r.fcnt ^ 0x0001, 0]
        } else {
            vec![r.fcnt, r.fcnt.wrapping_add(0x1_0000)]
        };
        let mut n = 0;
        for &(nk, ak) in &keysets {
            for &h in &hints {
                let c = Case {
                    bytes: hex(bytes),
                    nwk: nk,
                    app: ak,
                    fcnt: h,
                    path: path.to_string(),
                    root_desc: if nk == r.nwk && ak == r.app && h == r.fcnt { root_desc.cloned() } else { None },
                    built: None,
                };
                let v = eval(&c);
                if v.is_empty() {
                    // classify outcome for vacuity reporting
                } else {
                    for (sig, what) in v {
                        ctx.violation(sig, what, serde_json::to_value(&c).unwrap(), bytes.len() + path.len());
                    }
                }
                n += 1;
            }
        }
        // outcome statistics with the right keys and exact hint (reference verdict)
        if let Ok(dv) = refcodec::parse_data(bytes) {
            if refcodec::data_mic_ok(bytes, &dv, &KEYS[r.nwk], r.fcnt) {
                accepted.fetch_add(1, Ordering::Relaxed);
            } else {
                rejected.fetch_add(1, Ordering::Relaxed);
            }
        } else {
            rejected.fetch_add(1, Ordering::Relaxed);
        }
        ctx.tick(n);
    };

    roots.par_iter().for_each(|r| {
        let mut local: Vec<u64> = vec![fx(&r.bytes)];
        present(r, &r.bytes, &r.label, r.desc.as_ref(), true);
        // the same frame with a MIC that verifies for a counter whose low half is NOT the wire counter (and for the
        // next epoch): authentic "for the given 32-bit counter", so the code behind a successful check is reached
        // with a counter that disagrees with the frame's own FCnt field
        if let Ok(dv) = refcodec::parse_data(&r.bytes) {
            let dir = if dv.uplink() { 0 } else { 1 };
            for y in [r.fcnt ^ 0x0001, r.fcnt.wrapping_add(0x0100), r.fcnt ^ 0x8000, r.fcnt.wrapping_add(0x1_0000), r.fcnt ^ 0xFFFF_FFFF] {
                let mut b = r.bytes.clone();
                let n = b.len();
                let mic = refcodec::data_mic(&KEYS[r.nwk], dir, dv.devaddr, y, &b[..n - 4]);
                b[n - 4..].copy_from_slice(&mic);
                let ry = Root { bytes: b.clone(), desc: None, nwk: r.nwk, app: r.app, fcnt: y, label: format!("{}>remic", r.label), sweep: false };
                local.push(fx(&b));
                transitions.fetch_add(1, Ordering::Relaxed);
                present(&ry, &b, &ry.label, None, false);
            }
        }
        if r.sweep {
            states.lock().unwrap().extend(local);
            return;
        }
        let m1 = mutations(&r.bytes);
        transitions.fetch_add(m1.len() as u64, Ordering::Relaxed);
        for (l1, b1) in &m1 {
            let p1 = format!("{}>{}", r.label, l1);
            local.push(fx(b1));
            present(r, b1, &p1, None, true);
            // the mutated layout with a MIC that verifies again (layouts no builder produces - FOpts together with
            // port 0, a flipped direction or flag bit, another FOptsLen - reach the code behind a successful check)
            if !l1.starts_with("flip-mic") && !l1.starts_with("trunc") && !l1.starts_with("append")
                && let Ok(dv) = refcodec::parse_data(b1)
            {
                let mut b = b1.clone();
                let n = b.len();
                let dir = if dv.uplink() { 0 } else { 1 };
                let wire = dv.fcnt16 as u32;
                let y = (r.fcnt & 0xFFFF_0000) | wire;
                let mic = refcodec::data_mic(&KEYS[r.nwk], dir, dv.devaddr, y, &b[..n - 4]);
                b[n - 4..].copy_from_slice(&mic);
                let ry = Root { bytes: b.clone(), desc: None, nwk: r.nwk, app: r.app, fcnt: y, label: format!("{p1}>remic"), sweep: false };
                local.push(fx(&b));
                transitions.fetch_add(1, Ordering::Relaxed);
                present(&ry, &b, &ry.label, None, false);
            }
            if th {
                let m2 = mutations(b1);
                transitions.fetch_add(m2.len() as u64, Ordering::Relaxed);
                depth2.fetch_add(m2.len() as u64, Ordering::Relaxed);
                for (l2, b2) in &m2 {
                    let p2 = format!("{p1}>{l2}");
                    present(r, b2, &p2, None, false);
                }
            }
        }
        states.lock().unwrap().extend(local);
    });

    // classifier over all short strings (shared alphabet with C03)
    let maxlen = if th { 3 } else { 2 };
    let short = AtomicU64::new(0);
    (0..=255u32).into_par_iter().for_each(|b0| {
        let mut n = 0u64;
        let r0 = Root { bytes: vec![], desc: None, nwk: 2, app: 4, fcnt: 0, label: "short".into(), sweep: false };
        let mut go = |s: &[u8]| {
            let c = Case { bytes: hex(s), nwk: r0.nwk, app: r0.app, fcnt: 0, path: "short".into(), root_desc: None, built: None };
            for (sig, what) in eval(&c) {
                ctx.violation(sig, what, serde_json::to_value(&c).unwrap(), s.len());
            }
            n += 1;
        };
        if b0 == 0 {
            go(&[]);
        }
        go(&[b0 as u8]);
        if maxlen >= 2 {
            for b1 in 0..=255u8 {
                go(&[b0 as u8, b1]);
                if maxlen >= 3 {
                    for b2 in 0..=255u8 {
                        go(&[b0 as u8, b1, b2]);
                    }
                }
            }
        }
        short.fetch_add(n, Ordering::Relaxed);
        ctx.tick(n);
    });

    // builder -> parser round trips on the real code: a sub-product of C01's frame descriptions, every CFList shape
    let built_n = AtomicU64::new(0);
    let mut bjobs: Vec<Built> = vec![];
    for mtype in 2..=5u8 {
        for flags in 0..16u8 {
            for fopts_len in 0..=15usize {
                for (kind, port) in [(0u8, 0u8), (1, 1), (1, 224), (1, 255), (2, 0)] {
                    if kind == 2 && fopts_len > 0 {
                        continue;
                    }
                    let lens: &[usize] = if kind == 0 { &[0] } else { &[0, 1, 15, 16, 17, 32, 33, 100, 208, 224, 225, 239, 240, 241, 242] };
                    for &len in lens {
                        for fcnt in [0u32, 0xFFFF, 0x1_0000, 0xFFFF_FFFF] {
                            if (flags != 0 || fcnt != 0x1_0000) && ![0, 1, 16, 17, 241, 242].contains(&len) {
                                continue;
                            }
                            bjobs.push(Built::Data(crate::checks::c01::DataCase {
                                mtype,
                                devaddr: 0x2601_1234,
                                adr: flags & 8 != 0,
                                adr_ack_req: flags & 4 != 0,
                                ack: flags & 2 != 0,
                                f_pending: flags & 1 != 0,
                                fcnt,
                                fopts_len,
                                kind,
                                port,
                                len,
                                content: 2,
                                keypair: 2,
                                crypto: 0,
                                buf: 2,
                                app_key: true,
                            }));
                        }
                    }
                }
            }
        }
    }
    let mut masks: Vec<[u8; 9]> = vec![[0; 9], [0xff; 9], [1, 2, 3, 4, 5, 6, 7, 8, 9]];
    for bit in 0..72 {
        let mut m = [0u8; 9];
        m[bit / 8] = 1 << (bit % 8);
        masks.push(m);
        let mut z = [0xffu8; 9];
        z[bit / 8] &= !(1 << (bit % 8));
        masks.push(z);
    }
    for dl in [0u8, 0x35, 0x7f, 0xff] {
        for rx_delay in [0u8, 1, 15] {
            bjobs.push(Built::JoinAccept { join_nonce: 0x010203, net_id: 0x040506, devaddr: 0x2601_1234, dl_settings: dl, rx_delay, cf_kind: 0, mask: [0; 9], freqs: [0; 5], key: 2 });
            for m in &masks {
                bjobs.push(Built::JoinAccept { join_nonce: 0xfffefd, net_id: 0x000001, devaddr: 0xffff_ffff, dl_settings: dl, rx_delay, cf_kind: 2, mask: *m, freqs: [0; 5], key: 2 });
            }
            for fr in [[0u32; 5], [0xffffff; 5], [8671000, 8673000, 8675000, 8677000, 8679000], [1, 0x100, 0x10000, 0x800000, 0x7fffff], [0, 8671000, 0, 0xffffff, 1]] {
                bjobs.push(Built::JoinAccept { join_nonce: 0x800000, net_id: 0x7fffff, devaddr: 0, dl_settings: dl, rx_delay, cf_kind: 1, mask: [0; 9], freqs: fr, key: 4 });
            }
        }
    }
    for dn in [0u16, 1, 0xff, 0x100, 0xfffe, 0xffff] {
        for e in [0u64, 1, u64::MAX, 0x0102_0304_0506_0708, 0x8000_0000_0000_0000] {
            bjobs.push(Built::JoinRequest { join_eui: e, dev_eui: !e, dev_nonce: dn, key: 2 });
        }
    }
    bjobs.par_iter().for_each(|b| {
        for (sig, what) in eval_built(b) {
            let c = Case { bytes: String::new(), nwk: 0, app: 0, fcnt: 0, path: "built".into(), root_desc: None, built: Some(b.clone()) };
            ctx.violation(sig, what, serde_json::to_value(&c).unwrap(), 0);
        }
        built_n.fetch_add(1, Ordering::Relaxed);
        ctx.tick(1);
    });

    let nstates = states.lock().unwrap().len() as u64 + short.load(Ordering::Relaxed) + built_n.load(Ordering::Relaxed);
    let sample_root = &roots[roots.len() / 3];
    let m = mutations(&sample_root.bytes);
    let samples = json!([
        {"root": sample_root.label, "bytes": hex(&sample_root.bytes)},
        {"path": format!("{}>{}", sample_root.label, m[0].0), "bytes": hex(&m[0].1)},
        {"path": format!("{}>{}", sample_root.label, m[m.len() / 2].0), "bytes": hex(&m[m.len() / 2].1)},
    ]);
    let coverage = json!({
        "states": nstates,
        "transitions": transitions.load(Ordering::Relaxed) + short.load(Ordering::Relaxed),
        "traces_validated_against_impl": ctx.evals(),
        "samples": samples,
        "evaluations": ctx.evals(),
        "distinct_nontrivial": nstates,
        "rule": "states = distinct byte strings executed on the real parser at mutation depth <= 1 from every root (frames with every FPort 1..255 are presented unmutated) plus every byte string of length 0..maxlen (counted exactly); depth-2 strings are counted separately as generated (duplicates possible); transitions = mutation edges applied; every structural mutation is also presented with a MIC that verifies again; every root is also presented with its MIC recomputed for five counters whose low half differs from the wire counter / of the next epoch; every state is presented under key sets {right, swapped, wrong} x counter hints {N, N+-0x10000, low half off, 0}; after every successful checked decode the buffer is compared with the two-call path and decrypted again (must restore the received bytes); builder -> parser round trips on the real code alone: frame type x header flags x FOpts length 0..15 x payload kind x boundary payload lengths up to 242 x counters, JoinAccepts with every single-bit and single-zero fixed-plan mask / dynamic frequency patterns, JoinRequests",
        "built_roundtrips": built_n.load(Ordering::Relaxed),
        "roots": roots.len(),
        "depth": if th { 2 } else { 1 },
        "depth2_strings_generated": depth2.load(Ordering::Relaxed),
        "short_strings_exhaustive_len": maxlen,
        "reference_accepts": accepted.load(Ordering::Relaxed),
        "reference_rejects": rejected.load(Ordering::Relaxed),
        "exhaustive": true,
    });
    let replayer = |cj: &Value| -> Vec<String> {
        let c: Case = serde_json::from_value(cj.clone()).unwrap();
        eval(&c).into_iter().map(|x| x.0).collect()
    };
    ctx.finish(
        "model_checking",
        coverage,
        vec![
            "the implementation is the model: every state (byte string) is executed on the real parser; the oracle is refcodec/refcrypto".into(),
            "plaintext comparison is made only when the caller's counter hint agrees with the 16-bit wire counter".into(),
            "JoinAccept: the documented 'buffer is transformed on InvalidMic' is not flagged (the property restricts untouched-ness to data frames)".into(),
        ],
        Some(&replayer),
    );
}
