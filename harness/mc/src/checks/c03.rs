//! C03 — parsing arbitrary bytes is total, bounds-safe and terminating.
//! Append-a-byte tree (depth 3) + exhaustive layout / truncation grids, all on the real parsers.
use crate::checks::c01::KEYS;
use crate::refcodec;
use crate::checks::{load_case, replay_exit};
use crate::ctx::{Ctx, Tier, catch, hex, panic_site, unhex};
use lorawan::certification::{self as cert, DownlinkDUTCommand, UplinkDUTCommand, parse_downlink_dut_commands, parse_uplink_dut_commands};
use lorawan::default_crypto::DefaultCrypto;
use lorawan::keys::AES128;
use lorawan::maccommands::{
    DownlinkMacCommand, MacCommandSet, MacCommands, ParseError, SerializableMacCommand, UplinkMacCommand,
    parse_downlink_mac_commands, parse_uplink_mac_commands,
};
use lorawan::multicast::{self as mc, DownlinkRemoteSetup, UplinkRemoteSetup, parse_downlink_multicast_commands, parse_uplink_multicast_commands};
use lorawan::maccommands as macs;
use lorawan::types::{ChannelMask, DLSettings, DataRateRange, Frequency, Redundancy};
use lorawan::parser::{
    DecryptedDataPayload, DecryptedJoinAcceptPayload, DevNonce, EncryptedDataPayload, EncryptedJoinAcceptPayload, JoinRequestPayload,
    PhyPayload, parse,
};
use rayon::prelude::*;
use serde::{Deserialize, Serialize};
use serde_json::{Value, json};
use std::hint::black_box;
use std::sync::atomic::{AtomicU64, Ordering};

#[derive(Clone, Debug, Serialize, Deserialize)]
pub struct Case {
    /// "frame" or one of the six command-set names
    pub target: String,
    pub bytes: String,
}

pub const SETS: [&str; 6] = ["mac-down", "mac-up", "dut-down", "dut-up", "mc-down", "mc-up"];

/// Spec framing table: (cid, fixed payload length) — `None` = variable length.
pub fn table(set: &str) -> Vec<(u8, Option<usize>)> {
    match set {
        "mac-down" => vec![(2, Some(2)), (3, Some(4)), (4, Some(1)), (5, Some(4)), (6, Some(0)), (7, Some(5)), (8, Some(1)), (9, Some(1)), (0x0a, Some(4)), (0x0d, Some(5))],
        "mac-up" => vec![(2, Some(0)), (3, Some(1)), (4, Some(0)), (5, Some(1)), (6, Some(2)), (7, Some(1)), (8, Some(0)), (9, Some(0)), (0x0a, Some(1)), (0x0d, Some(0))],
        "dut-down" => vec![(1, Some(0)), (2, Some(0)), (4, Some(1)), (6, Some(1)), (7, None), (8, None), (9, Some(0)), (0x20, Some(0)), (0x7f, Some(0))],
        "dut-up" => vec![(8, None), (9, Some(2)), (0x7f, Some(12))],
        "mc-down" => vec![(0, Some(0)), (1, Some(1)), (2, Some(29)), (3, Some(1)), (4, Some(10)), (5, Some(10))],
        "mc-up" => vec![(0, Some(2)), (1, None), (2, Some(1)), (3, Some(1)), (4, Some(4)), (5, Some(4))],
        _ => unreachable!(),
    }
}

/// Spec length of a variable-length command given the bytes after the CID.
fn var_len(set: &str, cid: u8, rest: &[u8]) -> Option<usize> {
    match (set, cid) {
        ("mc-up", 1) => rest.first().map(|s| 1 + 5 * (s & 0x0f).count_ones() as usize),
        // no length indication: the command extends to the end of the stream (at least 1 byte)
        ("dut-down", 7) | ("dut-down", 8) | ("dut-up", 8) => {
            if rest.is_empty() { None } else { Some(rest.len()) }
        }
        _ => None,
    }
}

trait Touch {
    fn touch(&self) -> u64;
}

fn h(b: &[u8]) -> u64 {
    b.iter().fold(b.len() as u64, |a, &x| a.wrapping_mul(31).wrapping_add(x as u64))
}

/// `is_enabled` for every index up to well past the mask and at the top of the index type: a defined channel answers with its
/// bit, anything else with an error (never an unwind; a wrong answer unwinds here and is reported as one).
fn sweep_mask<const N: usize>(cm: &ChannelMask<N>) -> u64 {
    let raw: &[u8] = cm.as_ref();
    let mut a = 0u64;
    for i in (0..N * 8 + 24).chain([255, 256, 65535, 65536, usize::MAX - 1, usize::MAX]) {
        let r = cm.is_enabled(i);
        if i < N * 8 {
            let want = raw[i / 8] & (1 << (i % 8)) != 0;
            assert!(r == Ok(want), "ChannelMask<{N}>::is_enabled({i}) = {r:?}, bit is {want}");
            a ^= want as u64;
        } else {
            assert!(r.is_err(), "ChannelMask<{N}>::is_enabled({i}) = {r:?} for an index outside the mask");
        }
    }
    a
}

impl Touch for DownlinkMacCommand<'_> {
    fn touch(&self) -> u64 {
        use DownlinkMacCommand::*;
        let mut a = h(self.bytes()) ^ self.len() as u64;
        match self {
            LinkCheckAns(p) => a ^= p.margin() as u64 ^ p.gateway_count() as u64 ^ p.len() as u64,
            LinkADRReq(p) => {
                let cm = p.channel_mask();
                a ^= p.data_rate() as u64 ^ p.tx_power() as u64 ^ h(cm.as_ref());
                let r = p.redundancy();
                a ^= r.channel_mask_control() as u64 ^ r.number_of_transmissions() as u64 ^ r.raw_value() as u64;
                a ^= sweep_mask(&cm);
                a ^= cm.statuses::<16>().iter().filter(|x| **x).count() as u64;
            }
            DutyCycleReq(p) => a ^= p.max_duty_cycle_raw() as u64 ^ p.max_duty_cycle().to_bits() as u64,
            RXParamSetupReq(p) => {
                let dl = p.dl_settings();
                a ^= dl.rx1_dr_offset() as u64 ^ dl.rx2_data_rate() as u64 ^ dl.raw_value() as u64 ^ p.frequency().value() as u64;
            }
            DevStatusReq(p) => a ^= p.len() as u64 ^ h(p.bytes()),
            NewChannelReq(p) => {
                a ^= p.channel_index() as u64 ^ p.frequency().value() as u64;
                if let Ok(r) = p.data_rate_range() {
                    a ^= r.max_data_rate() as u64 ^ r.min_data_rate() as u64 ^ r.raw_value() as u64;
                }
            }
            RXTimingSetupReq(p) => a ^= p.delay() as u64,
            TXParamSetupReq(p) => a ^= p.downlink_dwell_time() as u64 ^ p.uplink_dwell_time() as u64 ^ p.max_eirp() as u64,
            DlChannelReq(p) => a ^= p.channel_index() as u64 ^ p.frequency().value() as u64,
            DeviceTimeAns(p) => a ^= p.seconds() as u64 ^ p.nano_seconds() as u64,
        }
        a
    }
}

impl Touch for UplinkMacCommand<'_> {
    fn touch(&self) -> u64 {
        use UplinkMacCommand::*;
        let mut a = h(self.bytes()) ^ self.len() as u64;
        match self {
            LinkCheckReq(p) => a ^= p.len() as u64,
            LinkADRAns(p) => a ^= p.channel_mask_ack() as u64 ^ p.data_rate_ack() as u64 ^ p.powert_ack() as u64 ^ p.ack() as u64,
            DutyCycleAns(p) => a ^= p.len() as u64,
            RXParamSetupAns(p) => a ^= p.channel_ack() as u64 ^ p.rx2_data_rate_ack() as u64 ^ p.rx1_dr_offset_ack() as u64 ^ p.ack() as u64,
            DevStatusAns(p) => a ^= p.battery() as u64 ^ p.margin() as u64,
            NewChannelAns(p) => a ^= p.channel_freq_ack() as u64 ^ p.data_rate_range_ack() as u64 ^ p.ack() as u64,
            RXTimingSetupAns(p) => a ^= p.len() as u64,
            TXParamSetupAns(p) => a ^= p.len() as u64,
            DlChannelAns(p) => a ^= p.channel_freq_ack() as u64 ^ p.uplink_freq_ack() as u64 ^ p.ack() as u64,
            DeviceTimeReq(p) => a ^= p.len() as u64,
        }
        a
    }
}

impl Touch for DownlinkDUTCommand<'_> {
    fn touch(&self) -> u64 {
        use DownlinkDUTCommand::*;
        let mut a = h(self.bytes()) ^ self.len() as u64;
        match self {
            DutResetReq(p) => a ^= p.len() as u64,
            DutJoinReq(p) => a ^= p.len() as u64,
            AdrBitChangeReq(p) => a ^= p.adr_enable().is_ok() as u64,
            TxPeriodicityChangeReq(p) => a ^= p.periodicity().ok().flatten().unwrap_or(0) as u64,
            TxFramesCtrlReq(p) => a ^= p.frame_type_override().is_ok() as u64 ^ p.len() as u64,
            EchoIncPayloadReq(p) => a ^= h(p.payload()) ^ p.len() as u64,
            RxAppCntReq(p) => a ^= p.len() as u64,
            LinkCheckReq(p) => a ^= p.len() as u64,
            DutVersionsReq(p) => a ^= p.len() as u64,
        }
        a
    }
}

impl Touch for UplinkDUTCommand<'_> {
    fn touch(&self) -> u64 {
        use UplinkDUTCommand::*;
        let mut a = h(self.bytes()) ^ self.len() as u64;
        match self {
            EchoIncPayloadAns(p) => a ^= h(p.payload()) ^ p.len() as u64,
            RxAppCntAns(p) => a ^= p.len() as u64,
            DutVersionsAns(p) => a ^= p.len() as u64,
        }
        a
    }
}

impl Touch for DownlinkRemoteSetup<'_> {
    fn touch(&self) -> u64 {
        use DownlinkRemoteSetup::*;
        let mut a = h(self.bytes()) ^ self.len() as u64;
        match self {
            PackageVersionReq(p) => a ^= p.len() as u64,
            McGroupStatusReq(p) => a ^= p.req_group_mask() as u64,
            McGroupSetupReq(p) => {
                a ^= p.mc_group_id_header() as u64 ^ p.mc_addr().value() as u64 ^ p.min_mc_fcount() as u64 ^ p.max_mc_fcount() as u64;
                let c = DefaultCrypto::new(&AES128(KEYS[2]));
                a ^= h(p.mc_key_decrypted(&c).as_ref());
                let (k1, k2) = p.derive_session_keys(&c);
                a ^= h(k1.as_ref()) ^ h(k2.as_ref());
                let (g, s) = p.derive_session(&c);
                a ^= g as u64 ^ s.fcnt_down as u64 ^ s.max_fcnt_down() as u64;
            }
            McGroupDeleteReq(p) => a ^= p.mc_group_id_header() as u64,
            McClassCSessionReq(p) => a ^= p.len() as u64,
            McClassBSessionReq(p) => a ^= p.len() as u64,
        }
        a
    }
}

impl Touch for UplinkRemoteSetup<'_> {
    fn touch(&self) -> u64 {
        use UplinkRemoteSetup::*;
        let mut a = h(self.bytes()) ^ self.len() as u64;
        match self {
            PackageVersionAns(p) => a ^= p.package_identifier() as u64 ^ p.package_version() as u64,
            McGroupStatusAns(p) => {
                a ^= p.ans_group_mask() as u64 ^ p.nb_total_groups() as u64 ^ p.len() as u64;
                let mut n = 0;
                for it in p.item_iterator() {
                    a ^= it.mc_group_id() as u64 ^ it.mc_addr().value() as u64;
                    n += 1;
                    if n > 64 {
                        panic!("item iterator does not terminate");
                    }
                }
            }
            McGroupSetupAns(p) => a ^= p.mc_group_id_header() as u64,
            McGroupDeleteAns(p) => a ^= p.mc_group_id_header() as u64 ^ p.mc_group_undefined() as u64,
            McClassCSessionAns(p) => a ^= p.len() as u64,
            McClassBSessionAns(p) => a ^= p.len() as u64,
        }
        a
    }
}

/// Drives one iterator to exhaustion and checks the contract. Returns violations.
fn drive<'a, T>(set: &str, data: &'a [u8], it: MacCommands<'a, T>) -> Vec<(String, String)>
where
    T: MacCommandSet<'a> + SerializableMacCommand + Touch,
{
    let mut v = vec![];
    let mut it = it;
    let mut off = 0usize;
    let mut calls = 0usize;
    let mut errs = 0usize;
    let tbl = table(set);
    loop {
        calls += 1;
        if calls > data.len() + 2 {
            v.push((format!("C03|{set}|nonterminating"), format!("more than len+2 next() calls on {}", hex(data))));
            break;
        }
        match it.next() {
            None => break,
            Some(Ok(cmd)) => {
                if errs > 0 {
                    v.push((format!("C03|{set}|item-after-error"), hex(data)));
                }
                let n = 1 + cmd.payload_len();
                let whole = off + n <= data.len() && data[off] == cmd.cid() && &data[off + 1..off + n] == cmd.payload_bytes();
                if !whole {
                    v.push((
                        format!("C03|{set}|not-a-prefix|cid{:02x}", cmd.cid()),
                        format!("item cid {:#x} len {} at offset {off} is not the next bytes of {}", cmd.cid(), n, hex(data)),
                    ));
                    break;
                }
                // whole command per the specification's framing table
                if let Some((_, l)) = tbl.iter().find(|(c, _)| *c == cmd.cid()) {
                    let want = match l {
                        Some(l) => Some(*l),
                        None => var_len(set, cmd.cid(), &data[off + 1..]),
                    };
                    if want != Some(cmd.payload_len()) {
                        v.push((
                            format!("C03|{set}|partial-command|cid{:02x}", cmd.cid()),
                            format!("cid {:#x} yielded with payload length {} (specified {:?}) in {}", cmd.cid(), cmd.payload_len(), want, hex(data)),
                        ));
                    }
                }
                black_box(cmd.touch());
                off += n;
            }
            Some(Err(e)) => {
                errs += 1;
                if errs > 1 {
                    v.push((format!("C03|{set}|second-error"), hex(data)));
                    break;
                }
                // the error must be justified: unknown cid, or truncated known command
                let cid = data.get(off).copied();
                let just = match (e, cid) {
                    (ParseError::UnknownCid(c), Some(d)) => c == d,
                    (ParseError::Truncated { cid: c }, Some(d)) => c == d,
                    _ => false,
                };
                if !just {
                    v.push((format!("C03|{set}|error-misreported"), format!("{e:?} at offset {off} of {}", hex(data))));
                }
                // a known, complete command must not be reported as an error
                if let Some(d) = cid
                    && let Some((_, l)) = tbl.iter().find(|(c, _)| *c == d)
                {
                    let want = match l {
                        Some(l) => Some(*l),
                        None => var_len(set, d, &data[off + 1..]),
                    };
                    if let Some(w) = want
                        && off + 1 + w <= data.len()
                    {
                        v.push((format!("C03|{set}|complete-command-rejected|cid{d:02x}"), format!("{e:?} at offset {off} of {}", hex(data))));
                    }
                }
                for _ in 0..3 {
                    if it.next().is_some() {
                        v.push((format!("C03|{set}|not-fused"), hex(data)));
                        break;
                    }
                }
                break;
            }
        }
    }
    if errs == 0 && off != data.len() {
        v.push((format!("C03|{set}|silent-stop"), format!("iterator ended at offset {off} of {} without an error", hex(data))));
    }
    v
}

fn eval_set(set: &str, data: &[u8]) -> Vec<(String, String)> {
    let r = catch(|| match set {
        "mac-down" => drive(set, data, parse_downlink_mac_commands(data)),
        "mac-up" => drive(set, data, parse_uplink_mac_commands(data)),
        "dut-down" => drive(set, data, parse_downlink_dut_commands(data)),
        "dut-up" => drive(set, data, parse_uplink_dut_commands(data)),
        "mc-down" => drive(set, data, parse_downlink_multicast_commands(data)),
        _ => drive(set, data, parse_uplink_multicast_commands(data)),
    });
    match r {
        Ok(v) => v,
        Err(p) => vec![(format!("C03|{set}|panic|{}", panic_site(&p)), format!("panic on {}: {p}", hex(data)))],
    }
}

fn eval_frame(data: &[u8]) -> Vec<(String, String)> {
    let r = catch(|| {
        let n = DefaultCrypto::new(&AES128(KEYS[2]));
        let a = DefaultCrypto::new(&AES128(KEYS[4]));
        let mut acc = 0u64;
        if let Ok(p) = parse(data) {
            match p {
                PhyPayload::Data(d) => acc ^= touch_enc(&d, &n),
                PhyPayload::JoinRequest(j) => acc ^= touch_jr(&j, &n),
                PhyPayload::JoinAccept(j) => acc ^= h(j.as_bytes()),
            }
        }
        if let Ok(d) = EncryptedDataPayload::parse(data) {
            acc ^= touch_enc(&d, &n);
        }
        if let Ok(j) = JoinRequestPayload::parse(data) {
            acc ^= touch_jr(&j, &n);
        }
        if let Ok(j) = EncryptedJoinAcceptPayload::parse(data) {
            acc ^= h(j.as_bytes());
        }
        for fcnt in [0u32, 0xFFFF_FFFF] {
            let mut b = data.to_vec();
            if let Ok(d) = DecryptedDataPayload::decrypt_in_place(&mut b, Some(&n), Some(&a), fcnt) {
                acc ^= touch_dec(&d);
            }
            let mut b = data.to_vec();
            if let Ok(d) = DecryptedDataPayload::decrypt_in_place::<DefaultCrypto>(&mut b, None, None, fcnt) {
                acc ^= touch_dec(&d);
            }
            let mut b = data.to_vec();
            if let Ok(d) = DecryptedDataPayload::check_mic_and_decrypt_in_place(&mut b, &n, Some(&a), fcnt) {
                acc ^= touch_dec(&d);
            }
            let mut b = data.to_vec();
            if let Ok(d) = DecryptedDataPayload::check_mic_and_decrypt_in_place(&mut b, &n, None, fcnt) {
                acc ^= touch_dec(&d);
            }
        }
        let mut b = data.to_vec();
        if let Ok(j) = DecryptedJoinAcceptPayload::decrypt_in_place(&mut b, &n) {
            acc ^= j.validate_mic(&n) as u64
                ^ j.join_nonce().value() as u64
                ^ j.net_id().value() as u64
                ^ j.dev_addr().value() as u64
                ^ j.dl_settings().raw_value() as u64
                ^ j.rx_delay() as u64
                ^ match j.c_f_list() {
                    None => 0,
                    Some(lorawan::parser::CfList::DynamicChannel(f)) => f.iter().fold(1, |x, y| x ^ y.hz() as u64),
                    Some(lorawan::parser::CfList::FixedChannel(m)) => 2 ^ sweep_mask(&m) ^ m.statuses::<72>().iter().filter(|x| **x).count() as u64,
                }
                ^ h(&j.mic().0)
                ^ h(j.as_bytes());
            acc ^= h(j.derive_nwkskey(DevNonce::from_value(7), &n).as_ref()) ^ h(j.derive_appskey(DevNonce::from_value(7), &n).as_ref());
        }
        let mut b = data.to_vec();
        let _ = DecryptedJoinAcceptPayload::check_mic_and_decrypt_in_place(&mut b, &n).map(|j| black_box(j.rx_delay()));
        black_box(acc);
    });
    match r {
        Ok(()) => vec![],
        Err(p) => vec![(format!("C03|frame|panic|{}", panic_site(&p)), format!("panic on {}: {p}", hex(data)))],
    }
}

fn touch_enc(d: &EncryptedDataPayload<'_>, n: &DefaultCrypto) -> u64 {
    let f = d.fhdr();
    let c = f.fctrl();
    d.frame_type() as u64
        ^ d.is_uplink() as u64
        ^ d.is_confirmed() as u64
        ^ d.f_port().unwrap_or(0) as u64
        ^ h(&d.mic().0)
        ^ h(d.as_bytes())
        ^ f.dev_addr().value() as u64
        ^ f.mc_addr().value() as u64
        ^ f.fcnt() as u64
        ^ h(f.f_opts())
        ^ c.adr() as u64
        ^ c.adr_ack_req() as u64
        ^ c.ack() as u64
        ^ c.f_pending() as u64
        ^ c.f_opts_len() as u64
        ^ c.raw_value() as u64
        ^ d.validate_mic(n, 5) as u64
}

fn touch_dec(d: &DecryptedDataPayload<'_>) -> u64 {
    let f = d.fhdr();
    let p = match d.frm_payload() {
        lorawan::parser::FrmPayload::Data(x) => h(x),
        lorawan::parser::FrmPayload::MacCommands(x) => h(x) ^ 1,
        lorawan::parser::FrmPayload::None => 2,
    };
    p ^ d.frame_type() as u64 ^ d.f_port().unwrap_or(0) as u64 ^ h(&d.mic().0) ^ h(d.as_bytes()) ^ f.fcnt() as u64 ^ h(f.f_opts()) ^ f.dev_addr().value() as u64
}

fn touch_jr(j: &JoinRequestPayload<'_>, n: &DefaultCrypto) -> u64 {
    j.join_eui().value() ^ j.dev_eui().value() ^ j.dev_nonce().value() as u64 ^ h(&j.mic().0) ^ j.validate_mic(n) as u64 ^ h(j.as_bytes())
}

/// (e) The checked constructors of the payload types, called directly (not through the stream iterators): total on every
/// slice; `Ok` exactly for the lengths of the framing table, the view is the specified prefix and every accessor works on it.
fn eval_ctor(set: &str, cid: u8, data: &[u8]) -> Vec<(String, String)> {
    fn judge<'a, P, T: Touch + SerializableMacCommand>(
        set: &str,
        cid: u8,
        data: &'a [u8],
        r: Result<P, lorawan::maccommands::Error>,
        wrap: impl FnOnce(P) -> T,
        want: Option<usize>,
    ) -> Vec<(String, String)> {
        let mut v = vec![];
        match (r, want) {
            (Ok(p), Some(l)) => {
                let cmd = wrap(p);
                if cmd.payload_bytes() != &data[..l] {
                    v.push((format!("C03|{set}|ctor-view|cid{cid:02x}"), format!("constructor view {} is not the first {l} bytes of {}", hex(cmd.payload_bytes()), hex(data))));
                }
                black_box(cmd.touch());
            }
            (Ok(p), None) => {
                // accessors on a view the constructor should not have handed out: they must still not unwind
                let cmd = wrap(p);
                v.push((format!("C03|{set}|ctor-accepts-bad-length|cid{cid:02x}"), format!("constructor accepted {} bytes: {}", data.len(), hex(data))));
                black_box(cmd.touch());
            }
            (Err(_), Some(_)) => v.push((format!("C03|{set}|ctor-rejects-good-length|cid{cid:02x}"), format!("constructor refused {}", hex(data)))),
            (Err(_), None) => {}
        }
        v
    }
    let fixed = |l: usize| if data.len() == l { Some(l) } else { None };
    let r = catch(|| match (set, cid) {
        ("mac-down", 0x02) => judge(set, cid, data, macs::LinkCheckAnsPayload::new(data), DownlinkMacCommand::LinkCheckAns, fixed(2)),
        ("mac-down", 0x03) => judge(set, cid, data, macs::LinkADRReqPayload::new(data), DownlinkMacCommand::LinkADRReq, fixed(4)),
        ("mac-down", 0x04) => judge(set, cid, data, macs::DutyCycleReqPayload::new(data), DownlinkMacCommand::DutyCycleReq, fixed(1)),
        ("mac-down", 0x05) => judge(set, cid, data, macs::RXParamSetupReqPayload::new(data), DownlinkMacCommand::RXParamSetupReq, fixed(4)),
        ("mac-down", 0x07) => judge(set, cid, data, macs::NewChannelReqPayload::new(data), DownlinkMacCommand::NewChannelReq, fixed(5)),
        ("mac-down", 0x08) => judge(set, cid, data, macs::RXTimingSetupReqPayload::new(data), DownlinkMacCommand::RXTimingSetupReq, fixed(1)),
        ("mac-down", 0x09) => judge(set, cid, data, macs::TXParamSetupReqPayload::new(data), DownlinkMacCommand::TXParamSetupReq, fixed(1)),
        ("mac-down", 0x0a) => judge(set, cid, data, macs::DlChannelReqPayload::new(data), DownlinkMacCommand::DlChannelReq, fixed(4)),
        ("mac-down", 0x0d) => judge(set, cid, data, macs::DeviceTimeAnsPayload::new(data), DownlinkMacCommand::DeviceTimeAns, fixed(5)),
        ("mac-up", 0x03) => judge(set, cid, data, macs::LinkADRAnsPayload::new(data), UplinkMacCommand::LinkADRAns, fixed(1)),
        ("mac-up", 0x05) => judge(set, cid, data, macs::RXParamSetupAnsPayload::new(data), UplinkMacCommand::RXParamSetupAns, fixed(1)),
        ("mac-up", 0x06) => judge(set, cid, data, macs::DevStatusAnsPayload::new(data), UplinkMacCommand::DevStatusAns, fixed(2)),
        ("mac-up", 0x07) => judge(set, cid, data, macs::NewChannelAnsPayload::new(data), UplinkMacCommand::NewChannelAns, fixed(1)),
        ("mac-up", 0x0a) => judge(set, cid, data, macs::DlChannelAnsPayload::new(data), UplinkMacCommand::DlChannelAns, fixed(1)),
        ("dut-down", 0x04) => judge(set, cid, data, cert::AdrBitChangeReqPayload::new(data), DownlinkDUTCommand::AdrBitChangeReq, fixed(1)),
        ("dut-down", 0x06) => judge(set, cid, data, cert::TxPeriodicityChangeReqPayload::new(data), DownlinkDUTCommand::TxPeriodicityChangeReq, fixed(1)),
        ("dut-down", 0x07) => judge(set, cid, data, cert::TxFramesCtrlReqPayload::new(data), DownlinkDUTCommand::TxFramesCtrlReq, if data.is_empty() { None } else { Some(data.len()) }),
        ("dut-down", 0x08) => judge(set, cid, data, cert::EchoIncPayloadReqPayload::new(data), DownlinkDUTCommand::EchoIncPayloadReq, if data.is_empty() { None } else { Some(data.len()) }),
        ("dut-up", 0x08) => judge(set, cid, data, cert::EchoIncPayloadAnsPayload::new(data), UplinkDUTCommand::EchoIncPayloadAns, if data.is_empty() { None } else { Some(data.len()) }),
        ("dut-up", 0x09) => judge(set, cid, data, cert::RxAppCntAnsPayload::new(data), UplinkDUTCommand::RxAppCntAns, fixed(2)),
        ("dut-up", 0x7f) => judge(set, cid, data, cert::DutVersionsAnsPayload::new(data), UplinkDUTCommand::DutVersionsAns, fixed(12)),
        ("mc-down", 0x01) => judge(set, cid, data, mc::McGroupStatusReqPayload::new(data), DownlinkRemoteSetup::McGroupStatusReq, fixed(1)),
        ("mc-down", 0x02) => judge(set, cid, data, mc::McGroupSetupReqPayload::new(data), DownlinkRemoteSetup::McGroupSetupReq, fixed(29)),
        ("mc-down", 0x03) => judge(set, cid, data, mc::McGroupDeleteReqPayload::new(data), DownlinkRemoteSetup::McGroupDeleteReq, fixed(1)),
        ("mc-down", 0x04) => judge(set, cid, data, mc::McClassCSessionReqPayload::new(data), DownlinkRemoteSetup::McClassCSessionReq, fixed(10)),
        ("mc-down", 0x05) => judge(set, cid, data, mc::McClassBSessionReqPayload::new(data), DownlinkRemoteSetup::McClassBSessionReq, fixed(10)),
        ("mc-up", 0x00) => judge(set, cid, data, mc::PackageVersionAnsPayload::new(data), UplinkRemoteSetup::PackageVersionAns, fixed(2)),
        ("mc-up", 0x01) => {
            let want = var_len(set, cid, data).filter(|l| *l <= data.len());
            judge(set, cid, data, mc::McGroupStatusAnsPayload::new(data), UplinkRemoteSetup::McGroupStatusAns, want)
        }
        ("mc-up", 0x02) => judge(set, cid, data, mc::McGroupSetupAnsPayload::new(data), UplinkRemoteSetup::McGroupSetupAns, fixed(1)),
        ("mc-up", 0x03) => judge(set, cid, data, mc::McGroupDeleteAnsPayload::new(data), UplinkRemoteSetup::McGroupDeleteAns, fixed(1)),
        ("mc-up", 0x04) => judge(set, cid, data, mc::McClassCSessionAnsPayload::new(data), UplinkRemoteSetup::McClassCSessionAns, fixed(4)),
        ("mc-up", 0x05) => judge(set, cid, data, mc::McClassBSessionAnsPayload::new(data), UplinkRemoteSetup::McClassBSessionAns, fixed(4)),
        // the plain field types of lorawan::types
        ("types", 0) => {
            let mut v = vec![];
            let c2 = ChannelMask::<2>::new(data);
            let c9 = ChannelMask::<9>::new(data);
            if c2.is_ok() != (data.len() >= 2) || c9.is_ok() != (data.len() >= 9) {
                v.push(("C03|types|ctor-length|ChannelMask".to_string(), format!("ChannelMask::new on {} bytes: <2> {:?}, <9> {:?}", data.len(), c2.is_ok(), c9.is_ok())));
            }
            if let Ok(m) = c2 {
                assert!(m.as_ref() == &data[..2]);
                black_box(sweep_mask(&m) ^ m.statuses::<16>().len() as u64);
            }
            if let Ok(m) = c9 {
                assert!(m.as_ref() == &data[..9]);
                black_box(sweep_mask(&m) ^ m.statuses::<72>().len() as u64);
            }
            let f = Frequency::new(data);
            if f.is_some() != (data.len() == 3) {
                v.push(("C03|types|ctor-length|Frequency".to_string(), format!("Frequency::new on {} bytes: {:?}", data.len(), f.is_some())));
            }
            if let Some(f) = f {
                assert!(f.value() == 100 * (data[0] as u32 | (data[1] as u32) << 8 | (data[2] as u32) << 16));
            }
            if let Some(&b) = data.first() {
                let d = DLSettings::new(b);
                assert!(d.raw_value() == b && d.rx1_dr_offset() == (b >> 4) & 7 && d.rx2_data_rate() as u8 == b & 15);
                let r = Redundancy::new(b);
                assert!(r.raw_value() == b && r.channel_mask_control() == (b >> 4) & 7 && r.number_of_transmissions() == b & 15);
                let q = DataRateRange::new(b);
                assert!(q.is_ok() == (b >> 4 >= b & 15), "DataRateRange::new({b:#x}) = {q:?}");
                let q = DataRateRange::new_from_raw(b);
                black_box(q.max_data_rate() as u64 ^ q.min_data_rate() as u64 ^ q.raw_value() as u64);
            }
            v
        }
        _ => vec![],
    });
    match r {
        Ok(v) => v,
        Err(p) => vec![(format!("C03|{set}|ctor-panic|cid{cid:02x}|{}", panic_site(&p)), format!("constructor / accessors panic on {}: {p}", hex(data)))],
    }
}

pub fn eval(c: &Case) -> Vec<(String, String)> {
    let b = unhex(&c.bytes);
    if c.target == "frame" {
        eval_frame(&b)
    } else if let Some(rest) = c.target.strip_prefix("ctor:") {
        let (set, cid) = rest.split_once(':').expect("ctor:<set>:<cid>");
        eval_ctor(set, u8::from_str_radix(cid, 16).expect("cid"), &b)
    } else {
        eval_set(&c.target, &b)
    }
}

fn filler(kind: u8, n: usize) -> Vec<u8> {
    (0..n)
        .map(|i| match kind {
            0 => 0,
            1 => 0xff,
            _ => (i as u8).wrapping_mul(37).wrapping_add(0x11),
        })
        .collect()
}

/// A valid full encoding of a defined command (for embedding before/after).
fn valid_cmd(set: &str, cid: u8, l: Option<usize>) -> Vec<u8> {
    let mut v = vec![cid];
    match l {
        Some(l) => v.extend(filler(2, l)),
        None => match (set, cid) {
            ("mc-up", 1) => {
                v.push(0x23); // two groups
                v.extend(filler(2, 10));
            }
            _ => v.extend([1, 2, 3]),
        },
    }
    v
}

pub fn run(tier: Tier, replay: Option<&str>) {
    if let Some(path) = replay {
        let c: Case = serde_json::from_value(load_case(path)).expect("bad case");
        replay_exit("C03", path, eval(&c).into_iter().map(|x| x.0).collect());
    }
    let ctx = Ctx::new("C03", tier);
    let th = tier.thorough();
    let states = AtomicU64::new(0);
    let transitions = AtomicU64::new(0);
    let ok_items = AtomicU64::new(0);
    let go = |target: &str, data: &[u8]| {
        let c = Case { target: target.to_string(), bytes: String::new() };
        let v = if target == "frame" { eval_frame(data) } else { eval_set(target, data) };
        for (sig, what) in v {
            let c = Case { bytes: hex(data), ..c.clone() };
            ctx.violation(sig, what, serde_json::to_value(&c).unwrap(), data.len());
        }
    };

    // (a)+(c1) append-a-byte tree over all seven targets
    let deep = crate::ctx::deep();
    let depth_frame = if deep { 4 } else { 3 };
    let depth_sets = if deep { 4 } else if th { 3 } else { 2 };
    let targets: Vec<&str> = std::iter::once("frame").chain(SETS.iter().copied()).collect();
    let jobs: Vec<(&str, u8)> = targets.iter().flat_map(|t| (0..=255u8).map(move |b| (*t, b))).collect();
    jobs.par_iter().for_each(|&(t, b0)| {
        let depth = if t == "frame" { depth_frame } else { depth_sets };
        let mut n = 0u64;
        if b0 == 0 {
            go(t, &[]);
            n += 1;
        }
        go(t, &[b0]);
        n += 1;
        if depth >= 2 {
            for b1 in 0..=255u8 {
                go(t, &[b0, b1]);
                n += 1;
                if depth >= 3 {
                    for b2 in 0..=255u8 {
                        go(t, &[b0, b1, b2]);
                        n += 1;
                        if depth >= 4 {
                            for b3 in 0..=255u8 {
                                go(t, &[b0, b1, b2, b3]);
                                n += 1;
                            }
                        }
                    }
                }
            }
        }
        ctx.tick(n);
        states.fetch_add(n, Ordering::Relaxed);
        transitions.fetch_add(n.saturating_sub(if b0 == 0 { 1 } else { 0 }), Ordering::Relaxed);
    });

    // (b) data-frame layout grid: MHDR x FCtrl x total length x filler
    let maxlen = 40usize;
    (0..=255u32).into_par_iter().for_each(|mhdr| {
        let mut n = 0u64;
        for fctrl in 0..=255u32 {
            for len in 0..=maxlen {
                for fk in 0..3u8 {
                    let mut d = filler(fk, len);
                    if len > 0 {
                        d[0] = mhdr as u8;
                    }
                    if len > 5 {
                        d[5] = fctrl as u8;
                    }
                    // for lengths <= 5 the FCtrl dimension is degenerate: run once
                    if len <= 5 && fctrl != 0 {
                        continue;
                    }
                    go("frame", &d);
                    n += 1;
                }
            }
        }
        ctx.tick(n);
        states.fetch_add(n, Ordering::Relaxed);
    });

    // (b2) every total length up to 300 (and some beyond) for the data MHDRs, as is and re-MICed under the key and counter the
    // accessors are driven with (so the code behind a successful MIC check is reached for every layout,
    // including ones no builder produces: FPort 0 together with FOpts, FRMPayload of 241/242 bytes, ...)
    let mhdrs = [0x40u8, 0x60, 0x80, 0xA0, 0xE0];
    let grid2: Vec<(u8, u32)> = mhdrs.iter().flat_map(|m| (0..=255u32).map(move |f| (*m, f))).collect();
    grid2.par_iter().for_each(|&(mhdr, fctrl)| {
        let mut n = 0u64;
        // (no radio delivers more than 255 bytes, but the parsers take any slice: lengths beyond it up to 300, and
        // around 512 / 1024 where an offset kept in 8 or 9 bits would wrap)
        for len in (6..=300usize).chain([511, 512, 513, 520, 767, 768, 1023, 1024, 1040]) {
            for fk in 0..3u8 {
                let mut d = filler(fk, len);
                d[0] = mhdr;
                d[5] = fctrl as u8;
                go("frame", &d);
                n += 1;
                if len >= 12 {
                    d[6] = 0;
                    d[7] = 0;
                    let devaddr = u32::from_le_bytes([d[1], d[2], d[3], d[4]]);
                    let dir = if mhdr & 0x20 != 0 { 1 } else { 0 };
                    let mic = refcodec::data_mic(&KEYS[2], dir, devaddr, 0, &d[..len - 4]);
                    d[len - 4..].copy_from_slice(&mic);
                    go("frame", &d);
                    n += 1;
                }
            }
        }
        ctx.tick(n);
        states.fetch_add(n, Ordering::Relaxed);
    });

    // (b3) well-formed JoinAccepts (encrypted under the key the accessors are driven with) with every CFListType octet x body
    // fillers x every DLSettings / RxDelay octet: the code behind a successful decryption is reached for every list type
    (0..=255u32).into_par_iter().for_each(|ty| {
        let mut n = 0u64;
        for fk in 0..3u8 {
            for (dl, rxd) in [(0u8, 0u8), (0xff, 0xff), (ty as u8, (ty as u8).wrapping_mul(29))] {
                let mut cf = [0u8; 16];
                cf[..15].copy_from_slice(&filler(fk, 15));
                cf[15] = ty as u8;
                let d = refcodec::JoinAcceptDesc { join_nonce: 0x010203, net_id: 0x040506, devaddr: 0x2601_1234, dl_settings: dl, rx_delay: rxd, cflist: Some(cf) };
                go("frame", &refcodec::encode_join_accept(&d, &KEYS[2]));
                n += 1;
            }
        }
        if ty < 3 {
            let d = refcodec::JoinAcceptDesc { join_nonce: 0xffffff, net_id: 0, devaddr: 0xffff_ffff, dl_settings: ty as u8, rx_delay: ty as u8, cflist: None };
            go("frame", &refcodec::encode_join_accept(&d, &KEYS[2]));
            n += 1;
        }
        ctx.tick(n);
        states.fetch_add(n, Ordering::Relaxed);
    });

    // (c2) every CID x every truncation point, alone / preceded by / followed by every defined command
    let combos: Vec<(&str, u8)> = SETS.iter().flat_map(|s| (0..=255u8).map(move |c| (*s, c))).collect();
    combos.par_iter().for_each(|&(set, cid)| {
        let tbl = table(set);
        let maxl = tbl.iter().filter_map(|x| x.1).max().unwrap_or(0).max(22) + 2;
        let mut n = 0u64;
        for tl in 0..=maxl {
            for fk in 0..3u8 {
                let mut one = vec![cid];
                one.extend(filler(fk, tl));
                go(set, &one);
                n += 1;
                for &(pc, pl) in &tbl {
                    let pre = valid_cmd(set, pc, pl);
                    // a variable-length "to the end" command swallows what follows: still a valid stream
                    let mut s = pre.clone();
                    s.extend(&one);
                    go(set, &s);
                    let mut s2 = one.clone();
                    s2.extend(&pre);
                    go(set, &s2);
                    n += 2;
                }
            }
        }
        ctx.tick(n);
        states.fetch_add(n, Ordering::Relaxed);
    });

    // (c2b) every defined fixed-length command, alone: each payload octet in turn takes every value 0..=255 while the others
    // hold one of the three fillers (accessors that relate two fields - a frequency of zero and an inverted data-rate
    // range, a counter window that ends before it starts - see each combination with a neutral partner)
    let one_byte: Vec<(&str, u8, usize)> = SETS.iter().flat_map(|s| table(s).into_iter().filter_map(move |(c, l)| l.filter(|l| *l > 0).map(|l| (*s, c, l)))).collect();
    one_byte.par_iter().for_each(|&(set, cid, l)| {
        let mut n = 0u64;
        for fk in 0..3u8 {
            for pos in 0..l {
                for val in 0..=255u8 {
                    let mut d = vec![cid];
                    d.extend(filler(fk, l));
                    d[1 + pos] = val;
                    go(set, &d);
                    n += 1;
                    // ... and with a second octet set as well (every pair of positions, values from a boundary set)
                    if val == 0 || val == 1 || val == 0x0F || val == 0x50 || val == 0x05 || val == 0xFF {
                        for pos2 in 0..l {
                            if pos2 == pos {
                                continue;
                            }
                            for v2 in [0u8, 1, 0x05, 0x50, 0x80, 0xFF] {
                                let mut e = d.clone();
                                e[1 + pos2] = v2;
                                go(set, &e);
                                n += 1;
                            }
                        }
                    }
                }
            }
        }
        ctx.tick(n);
        states.fetch_add(n, Ordering::Relaxed);
    });

    // (c3) variable-length commands: every status byte / every length 0..=255
    let var_jobs: Vec<(&str, u8)> = vec![("dut-down", 7), ("dut-down", 8), ("dut-up", 8), ("mc-up", 1)];
    var_jobs.par_iter().for_each(|&(set, cid)| {
        let mut n = 0u64;
        for status in 0..=255u8 {
            let lens: Vec<usize> = if set == "mc-up" { (0..=24).collect() } else if status < 3 { (0..=255).collect() } else { vec![0, 1, 2, 241, 242, 255] };
            for l in lens {
                for fk in 0..3u8 {
                    let mut d = vec![cid];
                    if l > 0 {
                        d.push(status);
                        d.extend(filler(fk, l - 1));
                    }
                    go(set, &d);
                    n += 1;
                }
            }
        }
        ctx.tick(n);
        states.fetch_add(n, Ordering::Relaxed);
    });
    // (e) checked constructors called directly: every defined command x every slice length 0..=max+3 (variable-length ones up
    // to 260, the multicast status report with every status octet) x 3 fillers; the field types of lorawan::types
    let mut ctor_jobs: Vec<(&str, u8)> = SETS.iter().flat_map(|s| table(s).into_iter().filter(|(_, l)| *l != Some(0)).map(move |(c, _)| (*s, c))).collect();
    ctor_jobs.push(("types", 0));
    ctor_jobs.par_iter().for_each(|&(set, cid)| {
        let l = if set == "types" { Some(12) } else { table(set).iter().find(|x| x.0 == cid).unwrap().1 };
        let mut n = 0u64;
        let mut one = |data: &[u8]| {
            for (sig, what) in eval_ctor(set, cid, data) {
                let c = Case { target: format!("ctor:{set}:{cid:02x}"), bytes: hex(data) };
                ctx.violation(sig, what, serde_json::to_value(&c).unwrap(), data.len());
            }
            n += 1;
        };
        match (set, l) {
            ("mc-up", None) => {
                for status in 0..=255u8 {
                    for len in 0..=28usize {
                        for fk in 0..3u8 {
                            let mut d = filler(fk, len);
                            if len > 0 {
                                d[0] = status;
                            }
                            one(&d);
                        }
                    }
                }
            }
            ("types", _) => {
                for len in 0..=12usize {
                    for b0 in 0..=255u8 {
                        for fk in 0..3u8 {
                            let mut d = filler(fk, len);
                            if len > 0 {
                                d[0] = b0;
                            }
                            one(&d);
                        }
                    }
                }
            }
            (_, None) => {
                for len in 0..=260usize {
                    for fk in 0..3u8 {
                        one(&filler(fk, len));
                    }
                }
            }
            (_, Some(l)) => {
                for len in 0..=l + 3 {
                    for b0 in 0..=255u8 {
                        for fk in 0..3u8 {
                            let mut d = filler(fk, len);
                            if len > 0 {
                                d[0] = b0;
                            }
                            one(&d);
                        }
                    }
                }
            }
        }
        ctx.tick(n);
        states.fetch_add(n, Ordering::Relaxed);
    });
    let _ = ok_items;

    let samples = json!([
        {"target": "mac-down", "bytes": "0350ff0001" , "note": "LinkADRReq complete"},
        {"target": "mac-down", "bytes": "06030102", "note": "DevStatusReq then truncated LinkADRReq"},
        {"target": "mc-up", "bytes": "0123", "note": "McGroupStatusAns status needs 10 more bytes"},
        {"target": "frame", "bytes": "40aabbccdd8f0100", "note": "FOptsLen 15 in an 8-byte frame"},
    ]);
    let coverage = json!({
        "states": states.load(Ordering::Relaxed),
        "transitions": transitions.load(Ordering::Relaxed),
        "traces_validated_against_impl": ctx.evals(),
        "samples": samples,
        "evaluations": ctx.evals(),
        "distinct_nontrivial": states.load(Ordering::Relaxed),
        "rule": "states = byte strings executed on the real parsers: (a) the complete append-a-byte tree to depth 3 for the frame parsers and depth 2 (quick) / 3 (thorough) for each of the six MAC command sets; (b) MHDR(256) x FCtrl(256) x total length 0..=40 x 3 fillers; (b2) data MHDRs(5) x FCtrl(256) x total length 6..=300 and 511..513, 520, 767, 768, 1023, 1024, 1040 x 3 fillers, as is and with a MIC that verifies; (b3) well-formed JoinAccepts with every CFListType octet 0..=255 x 3 body fillers x DLSettings / RxDelay octets; (c) every CID 0..=255 x every truncation point 0..=max_len+2 x 3 fillers, alone, preceded by and followed by every defined command of the set; (c2b) every defined fixed-length command with each payload octet in turn taking every value (and pairs of octets from a boundary set) over three fillers; (d) variable-length commands with every status byte / every length; (e) the checked constructor of every payload type on every slice length 0..=max+3 (first byte 0..=255, 3 fillers; McGroupStatusAns: every status octet x 0..=28 bytes) and the field types of lorawan::types, ChannelMask::is_enabled with every index up to 24 past the mask and at the top of usize. transitions = append-a-byte edges of the tree part",
        "tree_depth_frames": depth_frame,
        "tree_depth_command_sets": depth_sets,
        "exhaustive": true,
    });
    let replayer = |cj: &Value| -> Vec<String> {
        let c: Case = serde_json::from_value(cj.clone()).unwrap();
        eval(&c).into_iter().map(|x| x.0).collect()
    };
    ctx.finish(
        "model_checking",
        coverage,
        vec![
            "every public accessor of every yielded payload type is called (tables in c03.rs; a renamed accessor is a build failure = machinery error)".into(),
            "whole-command lengths come from a framing table transcribed from LoRaWAN 1.0.x / TS009 / TS005; CIDs the table does not know are not judged".into(),
            "strings longer than 3 bytes that are not on the grids are not covered (coverage-guided mutation is sampling and not used)".into(),
        ],
        Some(&replayer),
    );
}
