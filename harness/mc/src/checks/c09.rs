//! C09 — every transmission uses an enabled in-band channel, a legal data rate and power.
//! BFS over channel-plan histories; at every reached state the next join / uplink is run with
//! the first RNG draw enumerated over the whole masked domain. Every TxConfig handed to the
//! radio is judged against the snapshot and the independent regional tables.
use crate::checks::c04::{dangerous, good_join_accept};
use crate::checks::{load_case, replay_exit};
use crate::cmds;
use crate::ctx::{Ctx, Tier, panic_site};
use crate::adev::*;
use crate::dev::*;
use crate::explore::{self, System, V};
use crate::refregion as rr;
use lorawan_device::verif::{VerifMac, VerifMacState, VerifNbState};
use serde::{Deserialize, Serialize};
use serde_json::{Value, json};

#[derive(Clone, Debug, Serialize, Deserialize, PartialEq, Eq, Hash)]
pub enum CEv {
    /// uplink transaction whose first RNG draw is `draw`
    Up { draw: u32 },
    /// join attempt (no accept) with channel draw
    JoinTry { draw: u32 },
    /// join attempt whose transmit call is refused by the radio
    JoinTxFault { draw: u32 },
    /// a long run of unanswered join attempts (the walk over the join channels has state that only
    /// shows after many attempts)
    JoinRun { attempts: u32 },
    /// join attempt answered by a JoinAccept: 0 plain, 1 CFList, 2 minimal CFList, 3 CFList with out-of-band frequencies
    JoinOk { kind: u8 },
    Cmd { label: String, bytes: Vec<u8> },
    SetDr(u8),
    /// a confirmed uplink that gets no downlink (lost ACK), then an uplink whose first RNG draw is `draw`
    UpAfterLostAck { draw: u32 },
}

/// Judges one transmission. `after` is the MAC snapshot right after the call that transmitted.
pub fn judge_tx(region: &str, pw_board: u8, gain: i8, join: bool, pw: i8, rf: &Rf, before: &VerifMac, after: &VerifMac) -> Vec<V> {
    let mut out = vec![];
    let (lo, hi) = rr::band(region);
    let kind = if join { "join" } else { "data" };
    if rf.freq < lo || rf.freq > hi {
        out.push(V { sig: format!("C09|out-of-band|{kind}"), what: format!("{region}: transmission on {} Hz, band is {lo}..{hi}", rf.freq) });
    }
    let drs = rr::dr_index(region, rf.sf, rf.bw);
    let up_drs: Vec<u8> = drs.iter().copied().filter(|d| *d <= 7).collect();
    if up_drs.is_empty() {
        out.push(V { sig: format!("C09|undefined-datarate|{kind}"), what: format!("{region}: SF{}/{} Hz is not an uplink data rate of the region", rf.sf, rf.bw) });
    }
    if rr::is_fixed(region) {
        match rr::fixed_channel_of(region, rf.freq) {
            None => out.push(V { sig: format!("C09|not-a-channel|{kind}"), what: format!("{region}: {} Hz is not an uplink channel", rf.freq) }),
            Some(ch) => {
                let want_bw = if ch < 64 { 125_000 } else { 500_000 };
                if rf.bw != want_bw {
                    out.push(V {
                        sig: format!("C09|bandwidth-mismatch|{kind}|{}", if ch < 64 { "125k-channel" } else { "500k-channel" }),
                        what: format!("{region}: channel {ch} ({} Hz) is a {want_bw} Hz channel, transmitted with SF{}/{} Hz", rf.freq, rf.sf, rf.bw),
                    });
                }
                if join {
                    let ok = up_drs.iter().any(|d| rr::fixed_join_dr(region, ch).contains(d));
                    if !ok && rf.bw == want_bw {
                        out.push(V {
                            sig: format!("C09|join-datarate|{}", if ch < 64 { "125k-channel" } else { "500k-channel" }),
                            what: format!("{region}: JoinRequest on channel {ch} with DR{up_drs:?}, the channel mandates DR{:?}", rr::fixed_join_dr(region, ch)),
                        });
                    }
                } else {
                    let m = &after.region.channel_mask;
                    if m[ch / 8] & (1 << (ch % 8)) == 0 {
                        out.push(V {
                            sig: "C09|disabled-channel|fixed".into(),
                            what: format!("{region}: uplink on channel {ch} which is disabled in mask {:02x?}", m),
                        });
                    }
                }
            }
        }
    } else {
        let chans = &after.region.channels;
        let m = &after.region.channel_mask;
        let idx: Vec<usize> = (0..16).filter(|i| chans[*i].map(|c| c.frequency == rf.freq).unwrap_or(false)).collect();
        if idx.is_empty() {
            out.push(V { sig: format!("C09|not-a-channel|{kind}"), what: format!("{region}: {} Hz is not the uplink frequency of a defined channel", rf.freq) });
        } else if join {
            if !rr::default_channels(region).contains(&rf.freq) {
                out.push(V { sig: "C09|join-not-on-join-channel".into(), what: format!("{region}: JoinRequest on {} Hz", rf.freq) });
            }
        } else if !idx.iter().any(|i| m[i / 8] & (1 << (i % 8)) != 0) {
            out.push(V { sig: "C09|disabled-channel|dynamic".into(), what: format!("{region}: uplink on channel {idx:?} which is disabled in mask {:02x?}", &m[..2]) });
        }
    }
    // --- power: conducted power <= min(radio max, regional max EIRP - gain, commanded level - gain)
    let max_eirp = *rr::max_eirp(region).iter().max().unwrap();
    let mut bound = (pw_board as i16).min(max_eirp - gain as i16);
    let mut why = format!("radio max {pw_board} dBm, regional max EIRP {max_eirp} dBm, antenna gain {gain} dBi");
    if !join && let Some(cmd) = before.tx_power {
        bound = bound.min(cmd as i16 - gain as i16);
        why.push_str(&format!(", commanded EIRP {cmd} dBm"));
    }
    if pw as i16 > bound {
        let which = if pw as i16 > pw_board as i16 {
            "above-radio-maximum"
        } else if pw as i16 > max_eirp - gain as i16 {
            "above-regional-eirp"
        } else {
            "above-commanded-level"
        };
        out.push(V { sig: format!("C09|power|{which}|{kind}"), what: format!("{region}: conducted power {pw} dBm exceeds {bound} dBm ({why})") });
    }
    out
}

pub struct Sys<const PW: u8, const GAIN: i8> {
    core: NbCore<PW, GAIN>,
    region: String,
    outcome: String,
}

impl<const PW: u8, const GAIN: i8> Sys<PW, GAIN> {
    pub fn new(cfg: &DevCfg) -> Self {
        Sys { core: NbCore::new(cfg), region: cfg.region.clone(), outcome: String::new() }
    }
}

fn join_ok_frame(region: &str, kind: u8) -> Frame {
    match kind {
        0 => good_join_accept(region, false),
        1 => good_join_accept(region, true),
        2 => {
            let mut b = vec![0u8; 15];
            b.push(if rr::is_fixed(region) { 1 } else { 0 });
            Frame::JoinAccept { join_nonce: 6, net_id: 0x13, devaddr: DEVADDR, dl_settings: 0, rx_delay: 1, cflist: Some(b), tamper: Tamper::None, trunc: 0 }
        }
        4 => {
            // fixed plans: a mask that keeps only half of sub-band 2 (channels 8..11) and its 500 kHz channel;
            // dynamic plans: two channels, the others unused
            let b = if rr::is_fixed(region) {
                let mut b = vec![0x00, 0x0F, 0, 0, 0, 0, 0, 0, 0x02];
                b.extend([0u8; 6]);
                b.push(1);
                b
            } else {
                let f0 = cmds::freqs(region)[3];
                let mut b = vec![];
                for x in [f0, 0, f0 + 400_000, 0, 0] {
                    b.extend(cmds::freq_bytes(x));
                }
                b.push(0);
                b
            };
            Frame::JoinAccept { join_nonce: 9, net_id: 0x13, devaddr: DEVADDR, dl_settings: 0, rx_delay: 1, cflist: Some(b), tamper: Tamper::None, trunc: 0 }
        }
        _ => {
            let f = cmds::freqs(region);
            let mut b = vec![];
            for x in [f[1], f[5], f[6], 100, f[3]] {
                b.extend(cmds::freq_bytes(x));
            }
            b.push(0);
            Frame::JoinAccept { join_nonce: 8, net_id: 0x13, devaddr: DEVADDR, dl_settings: 0, rx_delay: 1, cflist: Some(b), tamper: Tamper::None, trunc: 0 }
        }
    }
}

fn enabled_events(region: &str, joined: bool) -> Vec<CEv> {
    let fixed = rr::is_fixed(region);
    let ndraw = if fixed { 64 } else { 16 };
    let mut v = vec![];
    if !joined {
        for d in 0..ndraw {
            v.push(CEv::JoinTry { draw: d });
        }
        for k in 0..5 {
            v.push(CEv::JoinOk { kind: k });
        }
        for d in [0u32, 3, 5] {
            v.push(CEv::JoinTxFault { draw: d });
        }
        if fixed {
            v.push(CEv::JoinRun { attempts: 80 });
        }
        return v;
    }
    for d in 0..ndraw {
        v.push(CEv::Up { draw: d });
    }
    for (l, b) in dangerous(region) {
        v.push(CEv::Cmd { label: l, bytes: b });
    }
    for d in [0u32, 1, 5] {
        v.push(CEv::UpAfterLostAck { draw: d });
    }
    // TX power commands
    for txp in [0u8, 1, 5, 7, 10, 14] {
        v.push(CEv::Cmd { label: format!("adr-txpower{txp}"), bytes: cmds::link_adr(15, txp, 0, 6, 1, false).bytes });
    }
    for d in defined_drs(region) {
        v.push(CEv::SetDr(d));
    }
    v.push(CEv::JoinOk { kind: 3 });
    // a new join from a joined state: without a CFList (the plan of the previous session stays), and with one that
    // keeps part of a sub-band / leaves CFList slots unused
    v.push(CEv::JoinOk { kind: 0 });
    v.push(CEv::JoinOk { kind: 4 });
    v
}

fn canon_key(mut s: VerifMac) -> VerifMac {
    if let VerifMacState::Joined(ref mut j) = s.state {
        j.fcnt_up = 0;
        j.fcnt_down = None;
        j.adr_ack_cnt = 0;
        j.pending = [0; 15];
        j.pending_len = 0;
        j.nwkskey = [0; 16];
        j.appskey = [0; 16];
        j.confirmed = false;
    }
    if let VerifMacState::Otaa { ref mut dev_nonce } = s.state {
        *dev_nonce = 0;
    }
    s.rx1_delay = 0;
    s.rx2_frequency = None;
    s.rx2_data_rate = None;
    s
}

/// Checks on the snapshot after a command event (shared by both front-ends).
fn post_checks(region: &str, ev: &CEv, power_before: Option<u8>, after: &VerifMac, out: &mut Vec<V>) {
    // a channel the network removed (NewChannelReq with frequency 0 on a non-default channel) is no longer a
    // defined channel: whatever the mask says later, it must not come back
    if let CEv::Cmd { bytes, .. } = ev
        && !rr::is_fixed(region)
        && bytes.len() == 6
        && bytes[0] == 0x07
        && bytes[2..5] == [0, 0, 0]
    {
        let idx = bytes[1] as usize;
        let nj = rr::default_channels(region).len();
        if idx >= nj && idx < 16 && after.region.channels[idx].is_some() {
            out.push(V {
                sig: "C09|removed-channel-still-defined".into(),
                what: format!("{region}: NewChannelReq removed channel {idx}, the plan still holds {:?}", after.region.channels[idx]),
            });
        }
    }
    // a LinkADRReq whose TXPower field is 15 ("keep") must leave the commanded level alone
    let keeps_power = matches!(ev, CEv::Cmd { bytes, .. } if bytes.len() >= 5 && bytes.len() % 5 == 0 && bytes.chunks(5).all(|c| c[0] == 0x03 && c[1] & 0x0F == 0x0F));
    if keeps_power {
        let power_after = after.tx_power;
        if power_after != power_before {
            out.push(V {
                sig: "C09|power|commanded-level-lost".into(),
                what: format!("{region}: a LinkADRReq with TXPower 15 (keep) changed the commanded level from {power_before:?} to {power_after:?}: later uplinks are no longer bounded by what the network last commanded"),
            });
        }
    }
}

/// The same alphabet on the async front-end (optionally with Class C enabled): the TxConfig its radio is handed
/// goes through `async_device::Device`'s own wiring of the board constants and of the transmit call.
pub struct ASys<const PW: u8, const GAIN: i8> {
    core: ACore<PW, GAIN>,
    region: String,
    outcome: String,
}

impl<const PW: u8, const GAIN: i8> ASys<PW, GAIN> {
    pub fn new(cfg: &DevCfg, class_c: bool) -> Self {
        ASys { core: ACore::new(cfg, class_c), region: cfg.region.clone(), outcome: String::new() }
    }
}

impl<const PW: u8, const GAIN: i8> System for ASys<PW, GAIN> {
    type Ev = CEv;
    type Key = (VerifMac, bool);

    fn enabled(&self) -> Vec<CEv> {
        enabled_events(&self.region, matches!(self.core.snap().state, VerifMacState::Joined(_)))
    }

    fn step(&mut self, ev: &CEv) -> Vec<V> {
        let region = self.region.clone();
        let mut out = vec![];
        let send = |rx1: Option<Frame>| AEv::Send { confirmed: false, port: 1, len: 1, script: Script { rx1, ..Default::default() } };
        let evs: Vec<AEv> = match ev {
            CEv::Up { draw } => vec![AEv::Rng(vec![*draw]), send(None)],
            CEv::UpAfterLostAck { draw } => vec![AEv::Send { confirmed: true, port: 1, len: 1, script: Script::default() }, AEv::Rng(vec![*draw]), send(None)],
            CEv::JoinTry { draw } => vec![AEv::Rng(vec![0x4242, *draw]), AEv::Join(Script::default())],
            CEv::JoinTxFault { draw } => vec![AEv::Rng(vec![0x4242, *draw]), AEv::Join(Script { fault_at: Some(0), ..Default::default() })],
            CEv::JoinRun { attempts } => {
                let mut v = vec![];
                for i in 0..*attempts {
                    v.push(AEv::Rng(vec![0x4242 + i, i.wrapping_mul(7)]));
                    v.push(AEv::Join(Script::default()));
                }
                v
            }
            CEv::JoinOk { kind } => vec![AEv::Join(Script { rx1: Some(join_ok_frame(&region, *kind)), ..Default::default() })],
            CEv::Cmd { bytes, .. } => vec![send(Some(Frame::Down { fcnt: Fcnt::Rel(1), confirmed: false, ack: false, fopts: bytes.clone(), port: None, payload: vec![], tamper: Tamper::None }))],
            CEv::SetDr(d) => vec![AEv::SetDr(*d)],
        };
        let power_before = self.core.snap().tx_power;
        for e in evs {
            let Some(m) = self.core.apply(&e) else { break };
            if let AResp::Panic(p) = &m.resp {
                let sig = if p.contains("VERIF-HANG") {
                    format!("C09|selection-does-not-terminate|{}", crate::checks::c04::hang_class(&region, &m.before))
                } else {
                    format!("C09|panic|{}", panic_site(p))
                };
                out.push(V { sig, what: p.clone() });
            }
            // An async call is a whole transaction: when it delivers a downlink, the snapshot after the call already
            // holds what that downlink commanded, not the plan the uplink was sent under. For those events the
            // membership of the frequency in the *snapshot's* plan and mask is not judged here (the uplink selection
            // from the same state is judged by the `Up` events, whose transactions change nothing after the
            // transmission); band, data rate, bandwidth, regional channel table and power are judged always.
            let delivers = matches!(ev, CEv::Cmd { .. } | CEv::JoinOk { .. });
            for op in &m.ops {
                if let AOp::Tx { pw, rf, bytes, .. } = op {
                    let join = bytes.len() == 23 && bytes[0] >> 5 == 0;
                    let vs = judge_tx(&region, PW, GAIN, join, *pw, rf, &m.before, &m.after);
                    out.extend(vs.into_iter().filter(|v| {
                        !(delivers && (v.sig.starts_with("C09|disabled-channel") || (v.sig.starts_with("C09|not-a-channel") && !rr::is_fixed(&region))))
                    }));
                }
            }
            self.outcome = short_aresp(&m.resp);
        }
        if self.core.dead.is_none() {
            post_checks(&region, ev, power_before, &self.core.snap(), &mut out);
        }
        out
    }

    fn key(&self) -> Self::Key {
        (canon_key(self.core.snap()), self.core.dev.verif_class_c())
    }

    fn alive(&self) -> bool {
        self.core.dead.is_none()
    }

    fn outcome(&self) -> String {
        self.outcome.clone()
    }
}

fn defined_drs(region: &str) -> Vec<u8> {
    (0..8).filter(|d| rr::dr(region, *d).is_some() && !(region == "EU868" && *d == 6)).collect()
}

impl<const PW: u8, const GAIN: i8> System for Sys<PW, GAIN> {
    type Ev = CEv;
    type Key = (VerifMac, VerifNbState);

    fn enabled(&self) -> Vec<CEv> {
        enabled_events(&self.region, self.core.joined_session().is_some())
    }

    fn step(&mut self, ev: &CEv) -> Vec<V> {
        let region = self.region.clone();
        let mut out = vec![];
        let evs: Vec<Ev> = match ev {
            CEv::Up { draw } => vec![Ev::Rng(vec![*draw]), Ev::Cycle { confirmed: false, port: 1, len: 1, rx1: None, rx2: None }],
            CEv::UpAfterLostAck { draw } => vec![Ev::Cycle { confirmed: true, port: 1, len: 1, rx1: None, rx2: None }, Ev::Rng(vec![*draw]), Ev::Cycle { confirmed: false, port: 1, len: 1, rx1: None, rx2: None }],
            CEv::JoinTry { draw } => vec![Ev::Rng(vec![0x4242, *draw]), Ev::JoinCycle { rx1: None, rx2: None }],
            CEv::JoinTxFault { draw } => vec![Ev::Rng(vec![0x4242, *draw]), Ev::JoinCycleF { rx1: None, rx2: None, fault_at: 0 }],
            CEv::JoinRun { attempts } => {
                let mut v = vec![];
                for i in 0..*attempts {
                    v.push(Ev::Rng(vec![0x4242 + i, i.wrapping_mul(7)]));
                    v.push(Ev::JoinCycle { rx1: None, rx2: None });
                }
                v
            }
            CEv::JoinOk { kind } => {
                let f = join_ok_frame(&region, *kind);
                vec![Ev::JoinCycle { rx1: Some(f), rx2: None }]
            }
            CEv::Cmd { bytes, .. } => vec![Ev::Cycle {
                confirmed: false,
                port: 1,
                len: 1,
                rx1: Some(Frame::Down { fcnt: Fcnt::Rel(1), confirmed: false, ack: false, fopts: bytes.clone(), port: None, payload: vec![], tamper: Tamper::None }),
                rx2: None,
            }],
            CEv::SetDr(d) => vec![Ev::SetDr(*d)],
        };
        let power_before = self.core.snap().tx_power;
        for e in evs {
            for m in self.core.apply(&e) {
                if let Resp::Panic(p) = &m.resp {
                    let sig = if p.contains("VERIF-HANG") {
                        format!("C09|selection-does-not-terminate|{}", crate::checks::c04::hang_class(&region, &m.before))
                    } else {
                        format!("C09|panic|{}", panic_site(p))
                    };
                    out.push(V { sig, what: p.clone() });
                }
                for op in &m.ops {
                    if let RadioOp::Tx { pw, rf, bytes, .. } = op {
                        let join = bytes.len() == 23 && bytes[0] >> 5 == 0;
                        out.extend(judge_tx(&region, PW, GAIN, join, *pw, rf, &m.before, &m.after));
                    }
                }
                self.outcome = short_resp(&m.resp);
            }
        }
        if self.core.dead.is_none() {
            post_checks(&region, ev, power_before, &self.core.snap(), &mut out);
        }
        out
    }

    fn key(&self) -> Self::Key {
        (canon_key(self.core.snap()), self.core.st())
    }

    fn alive(&self) -> bool {
        self.core.dead.is_none()
    }

    fn outcome(&self) -> String {
        self.outcome.clone()
    }
}

#[derive(Clone, Debug, Serialize, Deserialize)]
pub struct RunCfg {
    pub board: (u8, i8),
    pub dev: DevCfg,
    /// "nb" (default), "async", "async-c"
    #[serde(default)]
    pub front: String,
}

macro_rules! with_board {
    ($b:expr, $f:ident, $($arg:expr),*) => {
        match $b {
            (10, -3) => $f::<10, -3>($($arg),*),
            (14, 0) => $f::<14, 0>($($arg),*),
            (22, 2) => $f::<22, 2>($($arg),*),
            (30, 6) => $f::<30, 6>($($arg),*),
            _ => panic!("board"),
        }
    };
}

fn bfs_board<const PW: u8, const GAIN: i8>(ctx: &Ctx, cj: &Value, dev: &DevCfg, front: &str, depth: usize) -> explore::Stats {
    match front {
        "async" => explore::bfs(ctx, cj, &|| ASys::<PW, GAIN>::new(dev, false), depth, 400_000),
        "async-c" => explore::bfs(ctx, cj, &|| ASys::<PW, GAIN>::new(dev, true), depth, 400_000),
        _ => explore::bfs(ctx, cj, &|| Sys::<PW, GAIN>::new(dev), depth, 400_000),
    }
}

fn replay_board<const PW: u8, const GAIN: i8>(dev: &DevCfg, front: &str, hist: &[CEv]) -> Vec<String> {
    match front {
        "async" => explore::replay(&|| ASys::<PW, GAIN>::new(dev, false), hist),
        "async-c" => explore::replay(&|| ASys::<PW, GAIN>::new(dev, true), hist),
        _ => explore::replay(&|| Sys::<PW, GAIN>::new(dev), hist),
    }
}

fn replay_case(c: &Value) -> Vec<String> {
    let rc: RunCfg = serde_json::from_value(c["cfg"].clone()).expect("cfg");
    let hist: Vec<CEv> = serde_json::from_value(c["history"].clone()).expect("history");
    with_board!(rc.board, replay_board, &rc.dev, &rc.front, &hist)
}

pub fn run(tier: Tier, replay: Option<&str>) {
    if let Some(path) = replay {
        replay_exit("C09", path, replay_case(&load_case(path)));
    }
    let ctx = Ctx::new("C09", tier);
    let th = tier.thorough();
    let regions: Vec<&str> = if th { REGIONS.to_vec() } else { vec!["EU868", "US915", "AU915", "AS923_1"] };
    let boards: Vec<(u8, i8)> = if th { vec![(10, -3), (14, 0), (22, 2), (30, 6)] } else { vec![(14, 0), (10, -3)] };
    let depth = if crate::ctx::deep() { 6 } else if th { 4 } else { 3 };
    let mut runs = vec![];
    for r in &regions {
        for b in &boards {
            for otaa in [false, true] {
                let biases: Vec<Option<(u8, usize)>> = if rr::is_fixed(r) && otaa { vec![None, Some((2, 1)), Some((2, 8)), Some((8, 1))] } else { vec![None] };
                for bias in biases {
                    let mut dev = if otaa { DevCfg::otaa(r) } else { DevCfg::abp(r) };
                    dev.bias = bias;
                    runs.push(RunCfg { board: *b, dev: dev.clone(), front: "nb".into() });
                    // the async front-end wires the board constants and the transmit call itself
                    runs.push(RunCfg { board: *b, dev: dev.clone(), front: if otaa { "async-c" } else { "async" }.into() });
                    if !otaa {
                        // ADR back-off inside the search: counter pre-loaded just below a step
                        dev.adr_ack_cnt = Some(95);
                        dev.dr = Some(if rr::is_fixed(r) { if *r == "US915" { 4 } else { 6 } } else { 2 });
                        runs.push(RunCfg { board: *b, dev, front: "nb".into() });
                    }
                }
            }
        }
    }
    let mut states = 0u64;
    let mut transitions = 0u64;
    let mut capped = false;
    let mut outcomes: std::collections::BTreeMap<String, u64> = Default::default();
    for rc in &runs {
        let cj = serde_json::to_value(rc).unwrap();
        let st = with_board!(rc.board, bfs_board, &ctx, &cj, &rc.dev, &rc.front, depth);
        states += st.states;
        transitions += st.transitions;
        capped |= st.capped;
        for (k, v) in st.outcomes {
            *outcomes.entry(k).or_insert(0) += v;
        }
    }
    // channel table of the 72-channel plans: with only channel k (and, for the 125 kHz channels, the channel 32 above it) left enabled, every uplink goes out on an enabled channel's
    // frequency of the regional table (the judge maps the frequency back to a channel index and finds it disabled
    // otherwise), whatever the RNG draws
    let mut table_cases = 0u64;
    let mut table_effective = 0u64;
    for r in regions.iter().filter(|r| rr::is_fixed(r)) {
        let rc = RunCfg { board: (14, 0), dev: DevCfg::abp(r), front: "nb".into() };
        let cj = serde_json::to_value(&rc).unwrap();
        for ch in 0..72usize {
            // (the stack keeps at least two 125 kHz channels: channel k is paired with the one 32 above it.) One
            // LinkADRReq per downlink, so that the mask is acceptable after every step: the banks of the two
            // channels first, then the other banks are emptied
            let partner = (ch + 32) % 64;
            let mut cmdsq: Vec<Vec<u8>> = vec![];
            if ch < 64 {
                cmdsq.push(cmds::link_adr(15, 15, 1 << (ch % 16), (ch / 16) as u8, 1, false).bytes);
                cmdsq.push(cmds::link_adr(15, 15, 1 << (partner % 16), (partner / 16) as u8, 1, false).bytes);
                for bank in 0..5u8 {
                    if bank as usize != ch / 16 && bank as usize != partner / 16 {
                        cmdsq.push(cmds::link_adr(15, 15, 0x0000, bank, 1, false).bytes);
                    }
                }
            } else {
                cmdsq.push(cmds::link_adr(if *r == "US915" { 4 } else { 6 }, 15, 1 << (ch - 64), 7, 1, false).bytes);
            }
            let draws: Vec<u32> = if ch < 64 { (0..64).collect() } else { vec![0, 1, 45, 63] };
            for draw in draws {
                let mut hist: Vec<CEv> = cmdsq.iter().map(|b| CEv::Cmd { label: format!("only-ch{ch}"), bytes: b.clone() }).collect();
                hist.push(CEv::Up { draw });
                let mut sys = Sys::<14, 0>::new(&rc.dev);
                let mut vs = vec![];
                for e in &hist {
                    vs.extend(sys.step(e));
                }
                let m = sys.core.snap().region.channel_mask;
                let only = (0..72).all(|i| (m[i / 8] & (1 << (i % 8)) != 0) == (i == ch || (ch < 64 && i == partner)));
                table_effective += only as u64;
                table_cases += 1;
                ctx.tick(1);
                for v in vs {
                    ctx.violation(v.sig, v.what, json!({"cfg": cj.clone(), "history": serde_json::to_value(&hist).unwrap()}), 3);
                }
            }
        }
    }
    if table_cases > 0 && table_effective * 2 < table_cases {
        eprintln!("MACHINERY: C09 channel-table sweep is vacuous: only {table_effective} of {table_cases} single-channel masks were installed");
        std::process::exit(2);
    }
    let coverage = json!({
        "channel_table_cases": table_cases,
        "channel_table_masks_installed": table_effective,
        "states": states,
        "transitions": transitions,
        "traces_validated_against_impl": transitions,
        "samples": [{"cfg": serde_json::to_value(&runs[0]).unwrap(), "history": [serde_json::to_value(CEv::Cmd { label: "adr-ch3-only".into(), bytes: cmds::link_adr(15, 15, 8, 0, 1, false).bytes }).unwrap(), serde_json::to_value(CEv::Up { draw: 3 }).unwrap()]}],
        "evaluations": ctx.evals(),
        "distinct_nontrivial": states,
        "rule": "BFS over channel-plan histories on the real nb and async (ABP: Class A, OTAA: Class C enabled) devices for every region x board (radio max power, antenna gain) x {ABP, OTAA with join-bias settings, ADR back-off pre-loaded}; in every reached state the next uplink / join attempt is expanded once per first RNG draw (0..63 for 72-channel plans, 0..15 for dynamic plans, fair tail afterwards); other events: join attempts whose transmit call the radio refuses, LinkADRReq (mask / data rate / TX power), NewChannelReq create/delete, DlChannelReq, JoinAccepts with plain / full / minimal / out-of-band / partial-sub-band CFLists (also as re-joins from a joined state), set_datarate for every region-defined rate. 72-channel plans additionally: each of the 72 masks that leave one channel (plus, for 125 kHz channels, the channel 32 above it) enabled, installed by LinkADRReq downlinks, then an uplink for every first RNG draw 0..63. Every TxConfig handed to the radio is judged against band, channel plan + mask snapshot, regional data-rate table and the power bound",
        "depth": depth,
        "boards": boards,
        "configurations": runs.len(),
        "outcomes": outcomes,
        "exhaustive": !capped,
        "capped": capped,
    });
    let replayer = |cj: &Value| -> Vec<String> { replay_case(cj) };
    ctx.finish(
        "model_checking",
        coverage,
        vec![
            "both front-ends are explored with the same alphabet (the TxConfig judged is the argument of the radio's transmit call)".into(),
            "regional maximum EIRP: the most permissive value of refregion's set is used".into(),
            "the channel mask is read right after the call that transmitted (the stack may re-enable default channels when none is usable)".into(),
        ],
        Some(&replayer),
    );
}
