use crate::ctx::Tier;
use serde_json::Value;

pub mod c01;
pub mod c02;
pub mod c03;
pub mod c04;
pub mod c05;
pub mod c06;
pub mod c07;
pub mod c08;
pub mod c09;
pub mod c10;
pub mod c11;
pub mod c12;
pub mod c14;
pub mod c15;
pub mod c16;
pub mod c17;
pub mod c18;
pub mod c19;
pub mod c20;

pub fn load_case(path: &str) -> Value {
    let txt = std::fs::read_to_string(path).unwrap_or_else(|e| {
        eprintln!("MACHINERY: cannot read replay {path}: {e}");
        std::process::exit(2)
    });
    let v: Value = serde_json::from_str(&txt).unwrap_or_else(|e| {
        eprintln!("MACHINERY: bad replay {path}: {e}");
        std::process::exit(2)
    });
    v["case"].clone()
}

/// Replay helper: prints the signatures the case produces and exits 1 if any, else 0.
pub fn replay_exit(prop: &str, path: &str, sigs: Vec<String>) -> ! {
    if sigs.is_empty() {
        println!("{prop} replay {path}: no violation reproduced");
        std::process::exit(0);
    }
    for s in &sigs {
        println!("{prop} replay {path}: reproduced [{s}]");
    }
    println!("VIOLATION property={prop} replay={path}");
    std::process::exit(1);
}

/// Checks whose thorough alphabet completes in about half a minute: the quick tier runs it too.
const QUICK_RUNS_THOROUGH: [&str; 14] = ["c01", "c02", "c03", "c05", "c06", "c09", "c10", "c11", "c12", "c14", "c15", "c16", "c17", "c20"];

pub fn dispatch(id: &str, tier: Tier, replay: Option<&str>) {
    let promoted = QUICK_RUNS_THOROUGH.contains(&id) && std::env::var("VERIF_NO_PROMOTE").is_err();
    let tier = if tier == Tier::Quick && replay.is_none() && promoted {
        let _ = crate::ctx::TIER_LABEL.set("quick");
        Tier::Thorough
    } else {
        if tier == Tier::Thorough && promoted {
            crate::ctx::DEEP.store(true, std::sync::atomic::Ordering::Relaxed);
        }
        tier
    };
    match id {
        "c01" => c01::run(tier, replay),
        "c02" => c02::run(tier, replay),
        "c03" => c03::run(tier, replay),
        "c04" => c04::run(tier, replay),
        "c05" => c05::run(tier, replay),
        "c06" => c06::run(tier, replay),
        "c07" => c07::run(tier, replay),
        "c08" => c08::run(tier, replay),
        "c09" => c09::run(tier, replay),
        "c10" => c10::run(tier, replay),
        "c11" => c11::run(tier, replay),
        "c12" => c12::run(tier, replay),
        "c14" => c14::run(tier, replay),
        "c15" => c15::run(tier, replay),
        "c16" => c16::run(tier, replay),
        "c17" => c17::run(tier, replay),
        "c18" => c18::run(tier, replay),
        "c19" => c19::run(tier, replay),
        "c20" => c20::run(tier, replay),
        _ => {
            eprintln!("unknown check {id}");
            std::process::exit(2);
        }
    }
}
