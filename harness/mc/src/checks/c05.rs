//! C05 — a downlink is accepted iff authentic and fresh.
//! (a) exhaustive arithmetic of the real counter reconstruction vs the specification's rule;
//! (b) BFS over histories of the real device against a reference acceptor.
use crate::checks::{load_case, replay_exit};
use crate::ctx::{Ctx, Tier, catch, hex, panic_site};
use crate::adev::{ACore, AEv, AResp, AStep, Script, short_aresp};
use crate::dev::*;
use crate::explore::{self, System, V};
use crate::refregion as rr;
use lorawan_device::verif::VerifMacState;
use rayon::prelude::*;
use serde_json::{Value, json};
use std::collections::HashSet;
use std::sync::atomic::{AtomicU64, Ordering};

pub fn frame_label(f: &Frame) -> String {
    match f {
        Frame::Down { fcnt, confirmed, port, payload, tamper, fopts, .. } => format!(
            "down({:?},{}{:?},p{:?},l{},fo{})",
            fcnt,
            if *confirmed { "conf," } else { "" },
            tamper,
            port,
            payload.len(),
            fopts.len()
        ),
        Frame::Replay(k) => format!("replay-delivered({k})"),
        Frame::ReplayAccepted(k) => format!("replay-accepted({k})"),
        Frame::JoinAccept { tamper, trunc, .. } => format!("joinaccept({tamper:?},trunc{trunc})"),
        Frame::Raw(b) => format!("raw(len{})", b.len()),
    }
}

pub struct Sys {
    pub core: NbCore<14, 0>,
    /// frames the device reported as received (bytes), for the "never twice" invariant
    dev_accepted: HashSet<Vec<u8>>,
    max_n: Option<u32>,
    alphabet: Vec<Ev>,
    last_outcome: String,
}

fn payload(n: usize) -> Vec<u8> {
    (0..n).map(|i| 0x40u8.wrapping_add(i as u8)).collect()
}

pub fn frames(region: &str) -> Vec<Frame> {
    let d = |fcnt: Fcnt, tamper: Tamper, port: Option<u8>, len: usize, confirmed: bool, fopts: Vec<u8>| Frame::Down {
        fcnt,
        confirmed,
        ack: false,
        fopts,
        port,
        payload: payload(len),
        tamper,
    };
    // size limit of the RX2 default data rate: EU868 DR0 M=59, US915 DR8 M=61(RP002-1.0.3)/41(1.0.1):
    // only EU868 is single-valued, so boundary frames are placed there only
    let mut v = vec![
        d(Fcnt::Rel(1), Tamper::None, Some(1), 16, false, vec![]),
        d(Fcnt::Rel(1), Tamper::None, None, 0, true, vec![0x06]),
        d(Fcnt::Rel(2), Tamper::None, Some(7), 17, false, vec![]),
        d(Fcnt::Rel(16384), Tamper::None, Some(1), 1, false, vec![]),
        d(Fcnt::Rel(16385), Tamper::None, Some(1), 1, false, vec![]),
        d(Fcnt::Rel(0x1_0000), Tamper::None, Some(1), 1, false, vec![]),
        d(Fcnt::Rel(0), Tamper::None, Some(2), 3, false, vec![]),
        d(Fcnt::Rel(-1), Tamper::None, Some(1), 16, false, vec![]),
        Frame::ReplayAccepted(0),
        Frame::ReplayAccepted(1),
        d(Fcnt::Rel(1), Tamper::BadMic, Some(1), 16, false, vec![]),
        d(Fcnt::Rel(1), Tamper::OtherSession, Some(1), 16, false, vec![]),
        d(Fcnt::Rel(1), Tamper::MicEpoch(1), Some(1), 17, false, vec![]),
        d(Fcnt::Rel(1), Tamper::MicEpoch(-1), Some(1), 17, false, vec![]),
        d(Fcnt::Rel(3), Tamper::UplinkType, Some(1), 2, false, vec![]),
        d(Fcnt::Rel(1), Tamper::None, Some(0), 1, false, vec![]),
        // authentic frames with FPending set: short (12 bytes + 1), with FOpts, and long enough to stay
        // parseable if FPending were counted into FOptsLen
        d(Fcnt::Rel(1), Tamper::Pending, Some(1), 1, false, vec![]),
        d(Fcnt::Rel(1), Tamper::Pending, Some(3), 40, true, vec![0x06]),
    ];
    v[15] = Frame::Down { fcnt: Fcnt::Rel(1), confirmed: false, ack: false, fopts: vec![], port: Some(0), payload: vec![0x06], tamper: Tamper::None };
    if region == "EU868" {
        // MACPayload = 7 + 1 + len: 51 -> 59 (at the limit), 52 -> 60 (one over)
        v.push(d(Fcnt::Rel(1), Tamper::None, Some(1), 51, false, vec![]));
        v.push(d(Fcnt::Rel(1), Tamper::None, Some(1), 52, false, vec![]));
        v.push(d(Fcnt::Rel(1), Tamper::BadMic, Some(1), 52, false, vec![]));
        // the limit counts the whole MACPayload, FOpts included: 7 + 1 (FOpts) + 1 + 50 = 59 fits, + 51 = 60 does not
        v.push(d(Fcnt::Rel(1), Tamper::None, Some(1), 50, false, vec![0x06]));
        v.push(d(Fcnt::Rel(1), Tamper::None, Some(1), 51, false, vec![0x06]));
    }
    v
}

impl Sys {
    pub fn new(cfg: &DevCfg) -> Sys {
        let core = NbCore::new(cfg);
        let mut alphabet = vec![Ev::Cycle { confirmed: false, port: 1, len: 1, rx1: None, rx2: None }];
        for f in frames(&cfg.region) {
            alphabet.push(Ev::Cycle { confirmed: false, port: 1, len: 1, rx1: Some(f.clone()), rx2: None });
            alphabet.push(Ev::Cycle { confirmed: false, port: 1, len: 1, rx1: None, rx2: Some(f) });
        }
        // a rejected frame followed by a good one in the same window
        alphabet.push(Ev::Cycle {
            confirmed: true,
            port: 1,
            len: 1,
            rx1: Some(frames(&cfg.region)[10].clone()),
            rx2: Some(frames(&cfg.region)[0].clone()),
        });
        Sys { core, dev_accepted: HashSet::new(), max_n: None, alphabet, last_outcome: String::new() }
    }
}

impl Sys {
    /// Part (d): the alphabet is the set of frames at and one above the regional size limit of the two
    /// windows this configuration opens (uplink data rate from `cfg.dr`, RX1 offset 0, default RX2).
    pub fn new_table(cfg: &DevCfg) -> Sys {
        let mut s = Sys::new(cfg);
        let up = cfg.dr.unwrap_or(0);
        let adm = |drs: Vec<u8>| -> Vec<u8> { drs.iter().flat_map(|d| rr::max_payload(&cfg.region, *d)).collect() };
        let adm1 = adm(rr::rx1_dr(&cfg.region, up, 0));
        let adm2 = adm(vec![rr::rx2_default(&cfg.region).1]);
        let mut alphabet = vec![];
        for (w, a) in [(1, adm1), (2, adm2)] {
            if a.is_empty() {
                continue;
            }
            let lo = *a.iter().min().unwrap() as usize;
            let hi = *a.iter().max().unwrap() as usize;
            // (MACPayload length, FOpts): fits under every admissible reading / exceeds every one
            for (l, fopts) in [(lo, vec![]), (lo, vec![0x06]), (hi + 1, vec![]), (hi + 1, vec![0x06])] {
                if l + 5 > 255 || l < 9 + fopts.len() {
                    continue;
                }
                let f = Frame::Down { fcnt: Fcnt::Rel(1), confirmed: false, ack: false, port: Some(1), payload: payload(l - 8 - fopts.len()), fopts, tamper: Tamper::None };
                alphabet.push(if w == 1 {
                    Ev::Cycle { confirmed: false, port: 1, len: 1, rx1: Some(f), rx2: None }
                } else {
                    Ev::Cycle { confirmed: false, port: 1, len: 1, rx1: None, rx2: Some(f) }
                });
            }
        }
        s.alphabet = alphabet;
        s
    }

    /// As `new_table`, with an RX1 data-rate offset negotiated first (RXParamSetupReq). RX1 may then be opened at a
    /// rate far from the uplink's, or - where the regional table names a rate the stack does not implement - at the
    /// RX2 rate; the frames are sized around every limit of the region, the reference takes the limit from the
    /// window's own spreading factor and bandwidth.
    pub fn new_table_off(cfg: &DevCfg, off: u8) -> Sys {
        let mut s = Sys::new(cfg);
        let (f2, dr2) = rr::rx2_default(&cfg.region);
        let fb = crate::cmds::freq_bytes(f2);
        let req = Frame::Down { fcnt: Fcnt::Rel(1), confirmed: false, ack: false, port: None, payload: vec![], fopts: vec![0x05, (off << 4) | dr2, fb[0], fb[1], fb[2]], tamper: Tamper::None };
        s.core.apply(&Ev::Cycle { confirmed: false, port: 1, len: 1, rx1: Some(req), rx2: None });
        let mut limits: Vec<usize> = (0..14u8).flat_map(|d| rr::max_payload(&cfg.region, d)).map(|m| m as usize).collect();
        limits.sort();
        limits.dedup();
        let mut alphabet = vec![];
        for w in [1, 2] {
            for l in limits.iter().flat_map(|m| [*m, *m + 1]).chain([12usize]) {
                if l + 5 > 255 || l < 9 {
                    continue;
                }
                let f = Frame::Down { fcnt: Fcnt::Rel(1), confirmed: false, ack: false, port: Some(1), payload: payload(l - 8), fopts: vec![], tamper: Tamper::None };
                alphabet.push(if w == 1 { Ev::Cycle { confirmed: false, port: 1, len: 1, rx1: Some(f), rx2: None } } else { Ev::Cycle { confirmed: false, port: 1, len: 1, rx1: None, rx2: Some(f) } });
            }
        }
        s.alphabet = alphabet;
        s
    }
}

impl System for Sys {
    type Ev = Ev;
    type Key = (lorawan_device::verif::VerifMac, Option<u32>, Vec<Vec<u8>>, String);

    fn enabled(&self) -> Vec<Ev> {
        self.alphabet.clone()
    }

    fn step(&mut self, ev: &Ev) -> Vec<V> {
        let mut out = vec![];
        let micros = self.core.apply(ev);
        let mut oc = String::new();
        for m in &micros {
            if let Resp::Panic(p) = &m.resp {
                out.push(V { sig: format!("C05|panic|{}", panic_site(p)), what: format!("panic: {p}") });
                continue;
            }
            let (Some(j), Some(bytes), Ev::Rx(f)) = (&m.judge, &m.bytes, &m.ev) else { continue };
            let lbl = frame_label(f);
            let win = match m.st_before {
                lorawan_device::verif::VerifNbState::WaitingForRx { window, .. } => window,
                _ => 0,
            };
            let fd_before = match m.before.state {
                VerifMacState::Joined(s) => s.fcnt_down,
                _ => None,
            };
            let (fd_after, fcnt_up_before) = match (m.after.state, m.before.state) {
                (VerifMacState::Joined(a), VerifMacState::Joined(b)) => (a.fcnt_down, b.fcnt_up),
                _ => (None, 0),
            };
            match j {
                Judge::Accept { n, port, plain, .. } => {
                    oc = format!("accept-rx{win}");
                    let expect = if fcnt_up_before == 0xFFFF_FFFF { Resp::SessionExpired } else { Resp::DownlinkReceived(*n) };
                    if m.resp != expect {
                        let kind = match &m.resp {
                            Resp::DownlinkReceived(_) => "wrong-counter",
                            _ => "authentic-fresh-frame-not-accepted",
                        };
                        out.push(V {
                            sig: format!("C05|{kind}|{lbl}"),
                            what: format!("reference accepts with N={n:#x}, device answered {:?}; frame {} (last={fd_before:?}, rx{win})", m.resp, hex(bytes)),
                        });
                    } else {
                        if fd_after != Some(*n) {
                            out.push(V { sig: format!("C05|counter-not-remembered|{lbl}"), what: format!("fcnt_down after = {fd_after:?}, expected Some({n:#x})") });
                        }
                        let want: Vec<(u8, Vec<u8>)> = match port {
                            Some(p) if *p > 0 && expect != Resp::SessionExpired => vec![(*p, plain.clone())],
                            _ => vec![],
                        };
                        if m.downlinks != want {
                            out.push(V {
                                sig: format!("C05|payload|{lbl}"),
                                what: format!("delivered {:?}, reference plaintext {:?} (N={n:#x})", m.downlinks, want),
                            });
                        }
                        if !self.dev_accepted.insert(bytes.clone()) {
                            out.push(V { sig: format!("C05|accepted-twice|{lbl}"), what: format!("frame {} accepted a second time", hex(bytes)) });
                        }
                        if let Some(mx) = self.max_n
                            && *n <= mx
                        {
                            out.push(V { sig: format!("C05|counter-moved-backwards|{lbl}"), what: format!("accepted N={n:#x} after {mx:#x}") });
                        }
                        self.max_n = Some(*n);
                    }
                }
                Judge::Reject(why) => {
                    oc = format!("reject-{why}");
                    if m.resp != Resp::NoUpdate {
                        out.push(V {
                            sig: format!("C05|rejected-frame-acted-on|{why}|{lbl}"),
                            what: format!("reference rejects ({why}) but device answered {:?}; frame {} (last={fd_before:?}, rx{win})", m.resp, hex(bytes)),
                        });
                    }
                    if fd_after != fd_before || !m.downlinks.is_empty() {
                        out.push(V {
                            sig: format!("C05|rejected-frame-changed-state|{why}|{lbl}"),
                            what: format!("fcnt_down {fd_before:?} -> {fd_after:?}, downlinks {:?}", m.downlinks),
                        });
                    }
                }
                Judge::Oversize => {
                    oc = "oversize".into();
                    let ok = matches!(m.resp, Resp::NoUpdate | Resp::RxComplete | Resp::NoAck | Resp::SessionExpired);
                    if !ok || fd_after != fd_before || !m.downlinks.is_empty() {
                        out.push(V {
                            sig: format!("C05|oversize-frame-acted-on|{lbl}"),
                            what: format!("device answered {:?}, fcnt_down {fd_before:?} -> {fd_after:?}, downlinks {:?}", m.resp, m.downlinks),
                        });
                    }
                }
                Judge::JoinAccept { .. } => {}
            }
        }
        if oc.is_empty() {
            oc = micros.last().map(|m| short_resp(&m.resp)).unwrap_or_default();
        }
        self.last_outcome = oc;
        out
    }

    fn key(&self) -> Self::Key {
        let mut s = self.core.snap();
        // the uplink counter and ADR counter cannot influence downlink acceptance (fcnt_up is
        // far from exhaustion in these runs), so they are dropped from the key
        if let VerifMacState::Joined(ref mut j) = s.state {
            // (kept next to exhaustion, where accepting a downlink ends in `SessionExpired`)
            j.fcnt_up = if j.fcnt_up >= 0xFFFF_FFF0 { j.fcnt_up } else { 0 };
            j.adr_ack_cnt = 0;
        }
        s.data_rate = 0;
        let acc = &self.core.net.accepted;
        let tail: Vec<Vec<u8>> = acc.iter().rev().take(2).cloned().collect();
        // (with the front-end state: a device left inside a receive procedure has other futures than an idle one)
        (s, self.core.net.ref_last, tail, format!("{:?}", self.core.st()))
    }

    fn alive(&self) -> bool {
        self.core.dead.is_none()
    }

    fn outcome(&self) -> String {
        self.last_outcome.clone()
    }
}

// ------------------------------------------------------------------ Class C (async front-end)

/// Events of the Class C part: idle listening with one or two receptions, or an uplink during
/// whose waits Class C receptions arrive.
#[derive(Clone, Debug, serde::Serialize, serde::Deserialize, PartialEq, Eq, Hash)]
pub enum CEv {
    Listen(Vec<Frame>),
    Send {
        rxc1: Vec<Frame>,
        rxc2: Vec<Frame>,
        #[serde(default)]
        rx1: Option<Frame>,
        rx2: Option<Frame>,
    },
}

pub struct SysC {
    pub core: ACore<14, 0>,
    alphabet: Vec<CEv>,
    dev_accepted: HashSet<Vec<u8>>,
    last_outcome: String,
}

impl SysC {
    pub fn new(cfg: &DevCfg) -> SysC {
        let core = ACore::new(cfg, true);
        let fr = frames(&cfg.region);
        let mut alphabet = vec![CEv::Send { rxc1: vec![], rxc2: vec![], rx1: None, rx2: None }];
        for f in &fr {
            alphabet.push(CEv::Listen(vec![f.clone()]));
        }
        // a rejected reception followed by a good one, and a good one followed by its own replay
        alphabet.push(CEv::Listen(vec![fr[10].clone(), fr[0].clone()]));
        alphabet.push(CEv::Listen(vec![fr[0].clone(), Frame::ReplayAccepted(0)]));
        for f in [&fr[0], &fr[2], &fr[8], &fr[10], &fr[7]] {
            alphabet.push(CEv::Send { rxc1: vec![f.clone()], rxc2: vec![], rx1: None, rx2: None });
            alphabet.push(CEv::Send { rxc1: vec![], rxc2: vec![f.clone()], rx1: None, rx2: None });
        }
        // Class C reception before RX1, then a Class A downlink in RX2 of the same transaction
        alphabet.push(CEv::Send { rxc1: vec![fr[0].clone()], rxc2: vec![], rx1: None, rx2: Some(fr[2].clone()) });
        if cfg.region == "EU868" {
            // size limits per window: frames at, one above and far above the RX2 limit (DR0, M = 59), in RX1
            // and in RX2 — with a faster uplink rate the two windows have different limits
            for len in [51usize, 52, 100] {
                let f = Frame::Down { fcnt: Fcnt::Rel(1), confirmed: false, ack: false, fopts: vec![], port: Some(1), payload: payload(len), tamper: Tamper::None };
                alphabet.push(CEv::Send { rxc1: vec![], rxc2: vec![], rx1: Some(f.clone()), rx2: None });
                alphabet.push(CEv::Send { rxc1: vec![], rxc2: vec![], rx1: None, rx2: Some(f) });
            }
        }
        SysC { core, alphabet, dev_accepted: HashSet::new(), last_outcome: String::new() }
    }

    /// Part (e): Class C size limits after the RX2 data rate was renegotiated. Alphabet: uplinks whose Class A
    /// downlink carries RXParamSetupReq with another RX2 data rate (in RX1 or in RX2), idle listening and Class C
    /// receptions during the waits of an uplink with frames at and one byte above the limit of every data rate
    /// that was or is in force. The reference's limit is the one of the configuration the radio was last armed with.
    pub fn new_rx2(cfg: &DevCfg) -> SysC {
        let core = ACore::new(cfg, true);
        let plain = CEv::Send { rxc1: vec![], rxc2: vec![], rx1: None, rx2: None };
        let mut alphabet = vec![plain];
        let (freq, drs, lens): (u32, &[u8], &[usize]) = match cfg.region.as_str() {
            // RX2 869.525 MHz; DR0 M = 59, DR3 M = 123, DR5 M = 250 (MACPayload = 8 + len)
            "EU868" => (8_695_250, &[0, 3, 5], &[51, 52, 115, 116, 242]),
            // RX2 866.55 MHz, default DR2; same limits
            _ => (8_665_500, &[0, 2, 3, 5], &[51, 52, 115, 116, 242]),
        };
        let fb = freq.to_le_bytes();
        for &dr in drs {
            let cmd = Frame::Down { fcnt: Fcnt::Rel(1), confirmed: false, ack: false, fopts: vec![0x05, dr & 0x0F, fb[0], fb[1], fb[2]], port: None, payload: vec![], tamper: Tamper::None };
            alphabet.push(CEv::Send { rxc1: vec![], rxc2: vec![], rx1: Some(cmd.clone()), rx2: None });
            alphabet.push(CEv::Send { rxc1: vec![], rxc2: vec![], rx1: None, rx2: Some(cmd) });
        }
        for &len in lens {
            let f = Frame::Down { fcnt: Fcnt::Rel(1), confirmed: false, ack: false, fopts: vec![], port: Some(1), payload: payload(len), tamper: Tamper::None };
            alphabet.push(CEv::Listen(vec![f.clone()]));
            if len == 52 || len == 116 {
                alphabet.push(CEv::Send { rxc1: vec![f.clone()], rxc2: vec![], rx1: None, rx2: None });
                alphabet.push(CEv::Send { rxc1: vec![], rxc2: vec![f], rx1: None, rx2: None });
            }
        }
        SysC { core, alphabet, dev_accepted: HashSet::new(), last_outcome: String::new() }
    }

    fn check(&mut self, st: &AStep, single_listen: bool) -> Vec<V> {
        let mut out = vec![];
        if let AResp::Panic(p) = &st.resp {
            out.push(V { sig: format!("C05|classc|panic|{}", panic_site(p)), what: format!("panic: {p}") });
            return out;
        }
        let fd = |m: &lorawan_device::verif::VerifMac| match m.state {
            VerifMacState::Joined(s) => s.fcnt_down,
            _ => None,
        };
        // the reference's view after this call: last accepted counter and the application payloads, in order
        let mut want_dl: Vec<(u8, Vec<u8>)> = vec![];
        let mut last_n: Option<u32> = None;
        let mut oc = String::new();
        for d in &st.deliveries {
            match &d.judge {
                Judge::Accept { n, port, plain, .. } => {
                    oc = format!("accept-{}", d.via);
                    last_n = Some(*n);
                    if let Some(p) = port
                        && *p > 0
                    {
                        want_dl.push((*p, plain.clone()));
                    }
                    if !self.dev_accepted.insert(d.bytes.clone()) {
                        out.push(V { sig: format!("C05|classc|reference-accepted-twice|{}", d.label), what: "harness: reference accepted a frame twice".into() });
                    }
                }
                Judge::Reject(why) => oc = format!("reject-{why}-{}", d.via),
                Judge::Oversize => oc = format!("oversize-{}", d.via),
                Judge::JoinAccept { .. } => {}
            }
        }
        let ref_last = self.core.net().ref_last;
        let after = fd(&st.after);
        if matches!(st.resp, AResp::SessionExpired | AResp::ErrMac(_) | AResp::ErrRadio) {
            self.last_outcome = short_aresp(&st.resp);
            return out;
        }
        if after != ref_last {
            let kind = match (after, ref_last) {
                (Some(a), Some(r)) if a < r => "counter-not-remembered",
                (None, Some(_)) => "counter-not-remembered",
                _ => "rejected-frame-changed-counter",
            };
            out.push(V {
                sig: format!("C05|classc|{kind}|{}", st.deliveries.iter().map(|d| d.label.clone()).collect::<Vec<_>>().join("+")),
                what: format!("after the call fcnt_down = {after:?}, the reference's last accepted counter is {ref_last:?} (deliveries: {:?})", st.deliveries.iter().map(|d| (d.via, d.label.clone(), format!("{:?}", d.judge).chars().take(40).collect::<String>())).collect::<Vec<_>>()),
            });
        }
        // the order in which take_downlink hands queued downlinks out is not part of this property
        let mut got_dl = st.downlinks.clone();
        got_dl.sort();
        want_dl.sort();
        if got_dl != want_dl {
            out.push(V {
                sig: format!("C05|classc|payload|{}", st.deliveries.iter().map(|d| d.label.clone()).collect::<Vec<_>>().join("+")),
                what: format!("application received {:?}, the reference delivers {:?}", st.downlinks, want_dl),
            });
        }
        if single_listen {
            // idle listening returns at the first accepted reception and keeps waiting otherwise
            let want = match last_n {
                Some(n) => AResp::DownlinkReceived(n),
                None => AResp::Blocked,
            };
            if st.resp != want {
                out.push(V {
                    sig: format!("C05|classc|{}|{}", if last_n.is_some() { "authentic-fresh-frame-not-accepted" } else { "rejected-frame-acted-on" }, st.deliveries.first().map(|d| d.label.clone()).unwrap_or_default()),
                    what: format!("rxc_listen answered {:?}, expected {:?}", st.resp, want),
                });
            }
        }
        if oc.is_empty() {
            oc = short_aresp(&st.resp);
        }
        self.last_outcome = oc;
        out
    }
}

impl System for SysC {
    type Ev = CEv;
    type Key = (lorawan_device::verif::VerifMac, Option<u32>, Vec<Vec<u8>>);

    fn enabled(&self) -> Vec<CEv> {
        // rxc_listen relies on the continuous reception the device set up after its last uplink
        let listening = {
            let g = self.core.inner.borrow();
            g.cur_max_len > 0 && !g.cur_single
        };
        self.alphabet.iter().filter(|e| listening || !matches!(e, CEv::Listen(_))).cloned().collect()
    }

    fn step(&mut self, ev: &CEv) -> Vec<V> {
        let (aev, single) = match ev {
            CEv::Listen(f) => (AEv::Listen { frames: f.clone(), fault_at: None }, f.len() == 1),
            CEv::Send { rxc1, rxc2, rx1, rx2 } => (AEv::Send { confirmed: false, port: 1, len: 1, script: Script { rx1: rx1.clone(), rx2: rx2.clone(), rxc1: rxc1.clone(), rxc2: rxc2.clone(), ..Default::default() } }, false),
        };
        match self.core.apply(&aev) {
            Some(st) => self.check(&st, single),
            None => vec![],
        }
    }

    fn key(&self) -> Self::Key {
        let mut s = self.core.snap();
        if let VerifMacState::Joined(ref mut j) = s.state {
            // (kept next to exhaustion, where accepting a downlink ends in `SessionExpired`)
            j.fcnt_up = if j.fcnt_up >= 0xFFFF_FFF0 { j.fcnt_up } else { 0 };
            j.adr_ack_cnt = 0;
        }
        s.data_rate = 0;
        let net = self.core.net();
        let tail: Vec<Vec<u8>> = net.accepted.iter().rev().take(2).cloned().collect();
        (s, net.ref_last, tail)
    }

    fn alive(&self) -> bool {
        self.core.dead.is_none()
    }

    fn outcome(&self) -> String {
        self.last_outcome.clone()
    }
}

fn arithmetic(ctx: &Ctx, th: bool) -> (u64, u64) {
    use lorawan_device::mac::verif_next_fcnt_down;
    let w: i64 = if th { 70_000 } else { 300 };
    let bases: [i64; 6] = [0, 0x1_0000, 0x8000_0000, 0xFFFF_0000, 0xFFFF_FFFF, 0x7FFF_FFFF];
    let mut lasts: Vec<Option<u32>> = vec![None];
    for b in bases {
        for l in (b - w)..=(b + w) {
            if (0..=0xFFFF_FFFFi64).contains(&l) {
                lasts.push(Some(l as u32));
            }
        }
    }
    // stride over the rest of the range
    let stride = if th { 65_521u64 } else { 16_777_213u64 };
    let mut l = 0u64;
    while l <= 0xFFFF_FFFF {
        lasts.push(Some(l as u32));
        l += stride;
    }
    lasts.sort();
    lasts.dedup();
    let accepts = AtomicU64::new(0);
    lasts.par_chunks(64).for_each(|chunk| {
        let mut acc = 0u64;
        for &last in chunk {
            for wire in 0..=0xFFFFu32 {
                let wire = wire as u16;
                let want = spec_next_fcnt(last, wire);
                let got = catch(|| verif_next_fcnt_down(last, wire));
                match got {
                    Err(p) => ctx.violation(
                        format!("C05|arith|panic|{}", panic_site(&p)),
                        format!("next_fcnt_down({last:?},{wire:#x}) panicked: {p}"),
                        json!({"arith": {"last": last, "wire": wire}}),
                        0,
                    ),
                    Ok(g) => {
                        if g != want {
                            let kind = match (g, want) {
                                (Some(_), None) => "accepts-stale-or-far",
                                (None, Some(_)) => "rejects-fresh",
                                _ => "wrong-reconstruction",
                            };
                            let cls = match last {
                                None => "first".to_string(),
                                Some(l) => format!("epoch-offset{}", if (l & 0xFFFF) > 0xC000 { "-high" } else { "-low" }),
                            };
                            ctx.violation(
                                format!("C05|arith|{kind}|{cls}"),
                                format!("next_fcnt_down({last:?},{wire:#x}) = {g:?}, specification: {want:?}"),
                                json!({"arith": {"last": last, "wire": wire}}),
                                0,
                            );
                        }
                        if g.is_some() {
                            acc += 1;
                        }
                    }
                }
            }
        }
        ctx.tick(chunk.len() as u64 * 65536);
        accepts.fetch_add(acc, Ordering::Relaxed);
    });
    (lasts.len() as u64, accepts.load(Ordering::Relaxed))
}

fn cfgs(th: bool) -> Vec<DevCfg> {
    let mut v = vec![];
    let starts: Vec<Option<Option<u32>>> = if th {
        vec![None, Some(Some(0)), Some(Some(0x3FFE)), Some(Some(0xFFFE)), Some(Some(0xFFFF)), Some(Some(0x1_0000)), Some(Some(0x1_FFFE)), Some(Some(0xFFFF_BFFF)), Some(Some(0xFFFF_FFFE))]
    } else {
        vec![None, Some(Some(0xFFFE)), Some(Some(0xFFFF_BFFF)), Some(Some(0xFFFF_FFFE))]
    };
    let regions: &[&str] = if th { &["EU868", "US915", "AS923_1"] } else { &["EU868", "US915"] };
    for r in regions {
        for s in &starts {
            let mut c = DevCfg::abp(r);
            c.fcnt_down = *s;
            v.push(c);
        }
    }
    // the uplink counter next to exhaustion: an accepted downlink is answered with `SessionExpired`, it is still
    // accepted exactly once
    for fu in [0xFFFF_FFFEu32, 0xFFFF_FFFF] {
        for fd in [None, Some(Some(0xFFFE))] {
            let mut c = DevCfg::abp("EU868");
            c.fcnt_up = Some(fu);
            c.fcnt_down = fd;
            v.push(c);
        }
    }
    for fd in [None, Some(Some(0xFFFE))] {
        // a fast uplink rate: RX1 (DR5, M = 250) and RX2 (DR0, M = 59) then have different size limits
        let mut c = DevCfg::abp("EU868");
        c.fcnt_down = fd;
        c.dr = Some(5);
        v.push(c);
    }
    v
}

pub fn run(tier: Tier, replay: Option<&str>) {
    if let Some(path) = replay {
        let c = load_case(path);
        if let Some(a) = c.get("arith") {
            let last: Option<u32> = serde_json::from_value(a["last"].clone()).unwrap();
            let wire = a["wire"].as_u64().unwrap() as u16;
            let got = lorawan_device::mac::verif_next_fcnt_down(last, wire);
            let want = spec_next_fcnt(last, wire);
            println!("next_fcnt_down({last:?},{wire:#x}) = {got:?}, specification {want:?}");
            replay_exit("C05", path, if got != want { vec!["C05|arith".into()] } else { vec![] });
        }
        if let Some(cc) = c["cfg"].get("size_table_cfg") {
            let cfg: DevCfg = serde_json::from_value(cc.clone()).expect("cfg");
            let hist: Vec<Ev> = serde_json::from_value(c["history"].clone()).expect("history");
            if let Some(off) = c["cfg"].get("rx1_offset").and_then(|o| o.as_u64()) {
                replay_exit("C05", path, explore::replay(&|| Sys::new_table_off(&cfg, off as u8), &hist));
            }
            replay_exit("C05", path, explore::replay(&|| Sys::new_table(&cfg), &hist));
        }
        if let Some(cc) = c["cfg"].get("class_c_rx2_cfg") {
            let cfg: DevCfg = serde_json::from_value(cc.clone()).expect("cfg");
            let hist: Vec<CEv> = serde_json::from_value(c["history"].clone()).expect("history");
            replay_exit("C05", path, explore::replay(&|| SysC::new_rx2(&cfg), &hist));
        }
        if let Some(cc) = c["cfg"].get("class_c_cfg") {
            let cfg: DevCfg = serde_json::from_value(cc.clone()).expect("cfg");
            let hist: Vec<CEv> = serde_json::from_value(c["history"].clone()).expect("history");
            replay_exit("C05", path, explore::replay(&|| SysC::new(&cfg), &hist));
        }
        let cfg: DevCfg = serde_json::from_value(c["cfg"].clone()).expect("cfg");
        let hist: Vec<Ev> = serde_json::from_value(c["history"].clone()).expect("history");
        let sigs = explore::replay(&|| Sys::new(&cfg), &hist);
        replay_exit("C05", path, sigs);
    }
    let ctx = Ctx::new("C05", tier);
    let th = tier.thorough();
    let (n_last, arith_accepts) = arithmetic(&ctx, th);
    let depth = if crate::ctx::deep() { 6 } else if th { 4 } else { 3 };
    let mut states = 0u64;
    let mut transitions = 0u64;
    let mut outcomes: std::collections::BTreeMap<String, u64> = Default::default();
    let mut capped = false;
    let cfgs = cfgs(th);
    for cfg in &cfgs {
        let cj = serde_json::to_value(cfg).unwrap();
        let st = explore::bfs(&ctx, &cj, &|| Sys::new(cfg), depth, 3_000_000);
        states += st.states;
        transitions += st.transitions;
        capped |= st.capped;
        for (k, v) in st.outcomes {
            *outcomes.entry(k).or_insert(0) += v;
        }
    }
    // Class C receptions on the async front-end
    let depth_c = if crate::ctx::deep() { 6 } else if th { 4 } else { 3 };
    for cfg in &cfgs {
        let cj = json!({"class_c_cfg": serde_json::to_value(cfg).unwrap()});
        let st = explore::bfs(&ctx, &cj, &|| SysC::new(cfg), depth_c, 3_000_000);
        states += st.states;
        transitions += st.transitions;
        capped |= st.capped;
        for (k, v) in st.outcomes {
            *outcomes.entry(format!("classc:{k}")).or_insert(0) += v;
        }
    }
    // part (e): Class C size limits after the RX2 data rate was renegotiated
    for region in ["EU868", "IN865"] {
        for dr in [0u8, 5] {
            let mut cfg = DevCfg::abp(region);
            cfg.dr = Some(dr);
            let cj = json!({"class_c_rx2_cfg": serde_json::to_value(&cfg).unwrap()});
            let st = explore::bfs(&ctx, &cj, &|| SysC::new_rx2(&cfg), if th { 4 } else { 3 }, 3_000_000);
            states += st.states;
            transitions += st.transitions;
            capped |= st.capped;
            for (k, v) in st.outcomes {
                *outcomes.entry(format!("classc-rx2:{k}")).or_insert(0) += v;
            }
        }
    }
    // part (d): size limits of every region's data rates against the regional parameter tables
    let mut table_cfgs = 0u64;
    for region in REGIONS {
        // uplink data rates the crate implements (DR6/DR7 of the dynamic plans are not: an application that
        // selects one is outside this property)
        let ups = match region {
            "US915" => 0..=4u8,
            "AU915" => 0..=6,
            _ => 0..=5,
        };
        for up in ups {
            if rr::dr(region, up).is_none() || rr::rx1_dr(region, up, 0).iter().all(|d| rr::max_payload(region, *d).is_empty()) {
                continue;
            }
            let mut cfg = DevCfg::abp(region);
            cfg.dr = Some(up);
            cfg.adr = Some(false);
            let cj = json!({"size_table_cfg": serde_json::to_value(&cfg).unwrap()});
            let st = explore::bfs(&ctx, &cj, &|| Sys::new_table(&cfg), 2, 100_000);
            states += st.states;
            transitions += st.transitions;
            capped |= st.capped;
            table_cfgs += 1;
            for (k, v) in st.outcomes {
                *outcomes.entry(format!("table:{k}")).or_insert(0) += v;
            }
            // the same on boards whose receive windows stay open until / beyond the start of RX2 (each window keeps its
            // own size limit when RX2 is opened straight from the end of RX1)
            for dur in [1000u32, 2500] {
                let mut c2 = cfg.clone();
                c2.duration_ms = dur;
                let cj = json!({"size_table_cfg": serde_json::to_value(&c2).unwrap()});
                let st = explore::bfs(&ctx, &cj, &|| Sys::new_table(&c2), 2, 100_000);
                states += st.states;
                transitions += st.transitions;
                capped |= st.capped;
                table_cfgs += 1;
                for (k, v) in st.outcomes {
                    *outcomes.entry(format!("table-long-window:{k}")).or_insert(0) += v;
                }
            }
            // the same uplink rate with every other RX1 data-rate offset the region admits
            for off in 1..=rr::max_rx1_offset(region) {
                let cj = json!({"size_table_cfg": serde_json::to_value(&cfg).unwrap(), "rx1_offset": off});
                let st = explore::bfs(&ctx, &cj, &|| Sys::new_table_off(&cfg, off), 1, 100_000);
                states += st.states;
                transitions += st.transitions;
                capped |= st.capped;
                table_cfgs += 1;
                for (k, v) in st.outcomes {
                    *outcomes.entry(format!("table-off:{k}")).or_insert(0) += v;
                }
            }
        }
    }
    let sample_hist = vec![
        Ev::Cycle { confirmed: false, port: 1, len: 1, rx1: Some(frames("EU868")[0].clone()), rx2: None },
        Ev::Cycle { confirmed: false, port: 1, len: 1, rx1: None, rx2: Some(Frame::ReplayAccepted(0)) },
    ];
    let coverage = json!({
        "states": states,
        "transitions": transitions,
        "traces_validated_against_impl": transitions,
        "samples": [
            {"cfg": serde_json::to_value(&cfgs[1]).unwrap(), "history": serde_json::to_value(&sample_hist).unwrap()},
            {"arith": {"last": 0x1_FFFE, "wire": 2}},
        ],
        "evaluations": ctx.evals(),
        "distinct_nontrivial": states,
        "rule": "part (a): real next_fcnt_down (hook wrapper) for all 65536 wire values x every `last` in None + [b-W,b+W] around b in {0,0x10000,0x7FFFFFFF,0x80000000,0xFFFF0000,2^32-1} + a stride over the whole range, compared with the u64 specification rule; part (b): BFS over histories of whole uplink transactions on the real nb device, each delivering one frame of the alphabet (fresh +1/+2/+16384/+16385/+65536, same counter, older, replays of the last two accepted frames, forged MIC, other session, MIC under N+-65536, uplink-typed, port 0, at-limit and over-limit sizes) in RX1 or RX2, from sessions whose downlink counter starts at epoch boundaries (and whose uplink counter is far from / one step from / at exhaustion); part (c): the same on the async device in Class C (idle rxc_listen with one or two receptions, receptions while waiting for RX1 / RX2, followed by a Class A downlink); part (e): Class C after a renegotiated RX2 data rate (EU868, IN865): uplinks whose Class A downlink carries RXParamSetupReq with RX2 DR0/(2)/3/5 in RX1 or RX2, then idle listening / receptions during the waits of an uplink with frames at and one byte above the limit of each of those rates, depth 3 (thorough 4); part (d): every region x every uplink data rate: frames whose MACPayload is exactly the regional limit of the RX1 / RX2 data rate (with and without FOpts) and one byte above it, histories of two transactions, also on boards with 1000 / 2500 ms receive windows; with every other RX1 data-rate offset the region admits (negotiated first), frames at and one byte above every size limit of the region in RX1 and RX2, the limit taken from the window's own spreading factor and bandwidth; states = distinct (device snapshot minus uplink/ADR counters, reference counter, last two accepted frames)",
        "arith_last_values": n_last,
        "arith_pairs": n_last * 65536,
        "arith_accepting_pairs": arith_accepts,
        "bfs_depth": depth,
        "bfs_configurations": cfgs.len(),
        "size_table_configurations": table_cfgs,
        "outcomes": outcomes,
        "exhaustive": !capped,
        "capped": capped,
    });
    let replayer = |cj: &Value| -> Vec<String> {
        if let Some(a) = cj.get("arith") {
            let last: Option<u32> = serde_json::from_value(a["last"].clone()).unwrap();
            let wire = a["wire"].as_u64().unwrap() as u16;
            let got = catch(|| lorawan_device::mac::verif_next_fcnt_down(last, wire));
            // reproduce by re-deriving the same signature family
            return match got {
                Ok(g) if g == spec_next_fcnt(last, wire) => vec![],
                _ => ctx_sigs_for_arith(last, wire),
            };
        }
        if let Some(cc) = cj["cfg"].get("class_c_rx2_cfg") {
            let cfg: DevCfg = serde_json::from_value(cc.clone()).unwrap();
            let hist: Vec<CEv> = serde_json::from_value(cj["history"].clone()).unwrap();
            return explore::replay(&|| SysC::new_rx2(&cfg), &hist);
        }
        if let Some(cc) = cj["cfg"].get("class_c_cfg") {
            let cfg: DevCfg = serde_json::from_value(cc.clone()).unwrap();
            let hist: Vec<CEv> = serde_json::from_value(cj["history"].clone()).unwrap();
            return explore::replay(&|| SysC::new(&cfg), &hist);
        }
        if let Some(cc) = cj["cfg"].get("size_table_cfg") {
            let cfg: DevCfg = serde_json::from_value(cc.clone()).unwrap();
            let hist: Vec<Ev> = serde_json::from_value(cj["history"].clone()).unwrap();
            if let Some(off) = cj["cfg"].get("rx1_offset").and_then(|o| o.as_u64()) {
                return explore::replay(&|| Sys::new_table_off(&cfg, off as u8), &hist);
            }
            return explore::replay(&|| Sys::new_table(&cfg), &hist);
        }
        let cfg: DevCfg = serde_json::from_value(cj["cfg"].clone()).unwrap();
        let hist: Vec<Ev> = serde_json::from_value(cj["history"].clone()).unwrap();
        explore::replay(&|| Sys::new(&cfg), &hist)
    };
    ctx.finish(
        "model_checking",
        coverage,
        vec![
            "the implementation is the model (real nb_device::Device driven through its public API); reference acceptor = refcodec + the u64 freshness rule in dev.rs".into(),
            "the window's size limit is the one the device bound to the window as long as the regional parameters admit that value for the window's modulation (RP002 revisions differ for some rates), otherwise the regional table's; part (d) probes every region's limits at the boundary".into(),
            "DevAddr and direction are not required to be checked: the statement only speaks of MIC and counter".into(),
            "Class C: the async device with Class C enabled receives the same frame alphabet while idle listening and while waiting for RX1 / RX2; after every call the device's downlink counter must equal the reference's last accepted counter and the application must have received exactly the reference's payloads".into(),
        ],
        Some(&replayer),
    );
}

fn ctx_sigs_for_arith(last: Option<u32>, wire: u16) -> Vec<String> {
    let want = spec_next_fcnt(last, wire);
    let cls = match last {
        None => "first".to_string(),
        Some(l) => format!("epoch-offset{}", if (l & 0xFFFF) > 0xC000 { "-high" } else { "-low" }),
    };
    match catch(|| lorawan_device::mac::verif_next_fcnt_down(last, wire)) {
        Err(p) => vec![format!("C05|arith|panic|{}", panic_site(&p))],
        Ok(g) => {
            let kind = match (g, want) {
                (Some(_), None) => "accepts-stale-or-far",
                (None, Some(_)) => "rejects-fresh",
                _ => "wrong-reconstruction",
            };
            vec![format!("C05|arith|{kind}|{cls}")]
        }
    }
}
