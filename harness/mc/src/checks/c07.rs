//! C07 — frames that are not accepted change nothing (2-safety, checked by self-composition).
//! Twin devices are driven with identical events and RNG streams; twin B additionally receives
//! one rejected frame at a receive opportunity. Whether a frame counts as rejected is decided
//! by the reference acceptor, never by the implementation.
use crate::adev::*;
use crate::checks::c05::frame_label;
use crate::checks::{load_case, replay_exit};
use crate::ctx::{Ctx, Tier, panic_site};
use crate::dev::*;
use crate::explore::{self, System, V};
use lorawan_device::verif::{VerifMac, VerifNbState};
use serde::{Deserialize, Serialize};
use serde_json::{Value, json};

#[derive(Clone, Debug, Serialize, Deserialize, PartialEq, Eq, Hash)]
pub struct Inject {
    /// 1 = RX1, 2 = RX2 ; for Class C: 3 = while waiting for RX1, 4 = while waiting for RX2, 5 = idle listening
    pub at: u8,
    pub frame: Frame,
}

#[derive(Clone, Debug, Serialize, Deserialize, PartialEq, Eq, Hash)]
pub struct TwinEv {
    pub base: Ev,
    pub inject: Option<Inject>,
}

fn dl(fopts: Vec<u8>, port: Option<u8>, payload: Vec<u8>, confirmed: bool) -> Frame {
    Frame::Down { fcnt: Fcnt::Rel(1), confirmed, ack: false, fopts, port, payload, tamper: Tamper::None }
}

/// Authentic downlinks that leave something to lose (sticky answers, owed ACK, one-shot answers).
pub fn base_downlinks(region: &str) -> Vec<Frame> {
    let fixed = is_fixed(region);
    let rxparam = if fixed { vec![0x05, 0x00, 0x68, 0xE2, 0x8C] } else if region == "EU868" { vec![0x05, 0x00, 0x12, 0xAD, 0x84] } else { vec![0x05, 0x00, 0x00, 0xDF, 0x8C] };
    let linkadr = if fixed { vec![0x03, 0x21, 0xFF, 0x00, 0x00] } else { vec![0x03, 0x51, 0x07, 0x00, 0x01] };
    let mut v = vec![
        dl(vec![], Some(1), vec![9, 9], false),
        dl(vec![], Some(1), vec![7], true),
        dl(rxparam, None, vec![], false),
        dl(vec![0x08, 0x02], None, vec![], false),
        dl(linkadr, None, vec![], false),
        dl(vec![0x06], None, vec![], true),
    ];
    if !fixed && region == "EU868" {
        v.push(dl(vec![0x0A, 0x00, 0x78, 0x7D, 0x84], None, vec![], false));
    }
    if crate::refregion::max_rx1_offset(region) == 7 {
        // the largest RX1 data-rate offset (with a high uplink rate RX1 then falls back to other parameters)
        let (f2, dr2) = crate::refregion::rx2_default(region);
        let fb = crate::cmds::freq_bytes(f2);
        v.push(dl(vec![0x05, 0x70 | dr2, fb[0], fb[1], fb[2]], None, vec![], false));
    }
    v
}

/// Candidate frames to inject. Only those the reference rejects (or finds oversized) are used.
pub fn reject_candidates(region: &str, join: bool) -> Vec<Frame> {
    let d = |fcnt: Fcnt, tamper: Tamper, len: usize, fopts: Vec<u8>| Frame::Down {
        fcnt,
        confirmed: true,
        ack: false,
        fopts,
        port: Some(1),
        payload: (0..len).map(|i| i as u8).collect(),
        tamper,
    };
    let ja = |tamper: Tamper, trunc: usize| Frame::JoinAccept {
        join_nonce: 0x010203,
        net_id: 0x13,
        devaddr: 0x2601_5555,
        dl_settings: 0,
        rx_delay: 1,
        cflist: None,
        tamper,
        trunc,
    };
    let mut v = vec![
        Frame::Raw(vec![]),
        Frame::Raw(vec![0x60]),
        Frame::Raw(vec![0x60; 11]),
        Frame::Raw(vec![0x60, 0x34, 0x12, 0x01, 0x26, 0x00, 0x01, 0x00, 0xAA, 0xBB, 0xCC, 0xDD]),
        Frame::Raw(vec![0x00; 23]),
        Frame::Raw(vec![0xE0, 1, 2, 3, 4, 5, 6, 7, 8, 9, 10, 11, 12, 13]),
        Frame::Raw(vec![0x61, 0x34, 0x12, 0x01, 0x26, 0x00, 0x01, 0x00, 0xAA, 0xBB, 0xCC, 0xDD, 0xEE]),
        d(Fcnt::Rel(1), Tamper::BadMic, 4, vec![0x06]),
        d(Fcnt::Rel(1), Tamper::Flip(0), 4, vec![0x06]),
        d(Fcnt::Rel(1), Tamper::Flip(1), 4, vec![0x06]),
        d(Fcnt::Rel(1), Tamper::Flip(2), 4, vec![0x06]),
        d(Fcnt::Rel(1), Tamper::Flip(3), 4, vec![0x06]),
        d(Fcnt::Rel(1), Tamper::Flip(4), 4, vec![0x06]),
        d(Fcnt::Rel(1), Tamper::Flip(5), 4, vec![0x06]),
        d(Fcnt::Rel(1), Tamper::OtherSession, 4, vec![0x08, 0x03]),
        d(Fcnt::Rel(1), Tamper::Foreign, 4, vec![]),
        Frame::ReplayAccepted(0),
        d(Fcnt::Rel(0), Tamper::None, 2, vec![0x06]),
        d(Fcnt::Rel(16385), Tamper::None, 2, vec![0x06]),
        d(Fcnt::Rel(1), Tamper::MicEpoch(1), 2, vec![]),
        ja(Tamper::None, 0),
        ja(Tamper::OtherSession, 0),
        ja(Tamper::BadMic, 0),
        ja(Tamper::None, 1),
    ];
    if !join {
        // oversized, authentic and not (RX windows at the default data rates: EU868 DR0 M=59, US915 DR8..)
        let big = if region == "EU868" { 60 } else { 230 };
        v.push(d(Fcnt::Rel(1), Tamper::None, big, vec![0x06]));
        v.push(d(Fcnt::Rel(1), Tamper::BadMic, big, vec![]));
        if region == "EU868" {
            // exactly at the size limit of the window (MACPayload 7 + 1 + 51 = 59) and one byte above it
            v.push(d(Fcnt::Rel(1), Tamper::BadMic, 51, vec![]));
            v.push(d(Fcnt::Rel(1), Tamper::BadMic, 52, vec![]));
            // authentic frames whose MACPayload exceeds the limit by no more than their FOpts length
            // (7 + 1 + 1 + 51 = 60, 7 + 3 + 1 + 50 = 61): the limit counts the FOpts too
            v.push(d(Fcnt::Rel(1), Tamper::None, 51, vec![0x06]));
            v.push(d(Fcnt::Rel(1), Tamper::None, 50, vec![0x06, 0x08, 0x02]));
        }
    }
    v
}

/// Names of the snapshot fields that differ (for root-cause signatures).
pub fn diff_fields(a: &VerifMac, b: &VerifMac) -> String {
    use lorawan_device::verif::VerifMacState as S;
    let mut v = vec![];
    if a.data_rate != b.data_rate {
        v.push("data_rate");
    }
    if a.rx1_delay != b.rx1_delay {
        v.push("rx1_delay");
    }
    if a.tx_power != b.tx_power {
        v.push("tx_power");
    }
    if a.rx1_dr_offset != b.rx1_dr_offset {
        v.push("rx1_dr_offset");
    }
    if a.rx2_data_rate != b.rx2_data_rate {
        v.push("rx2_data_rate");
    }
    if a.rx2_frequency != b.rx2_frequency {
        v.push("rx2_frequency");
    }
    if a.adr_enabled != b.adr_enabled {
        v.push("adr_enabled");
    }
    if a.region.channel_mask != b.region.channel_mask {
        v.push("channel_mask");
    }
    if a.region.channels != b.region.channels {
        v.push("channels");
    }
    if a.region.join != b.region.join {
        v.push("join_walker");
    }
    match (&a.state, &b.state) {
        (S::Joined(x), S::Joined(y)) => {
            if x.fcnt_up != y.fcnt_up {
                v.push("fcnt_up");
            }
            if x.fcnt_down != y.fcnt_down {
                v.push("fcnt_down");
            }
            if x.adr_ack_cnt != y.adr_ack_cnt {
                v.push("adr_ack_cnt");
            }
            if x.confirmed != y.confirmed {
                v.push("confirmed");
            }
            if x.pending != y.pending || x.pending_len != y.pending_len {
                v.push("pending_answers");
            }
            if x.owed_ack != y.owed_ack {
                v.push("owed_ack");
            }
            if x.nwkskey != y.nwkskey || x.appskey != y.appskey || x.devaddr != y.devaddr {
                v.push("session_identity");
            }
        }
        (x, y) if std::mem::discriminant(x) != std::mem::discriminant(y) => v.push("join_state"),
        (x, y) if x != y => v.push("otaa_state"),
        _ => {}
    }
    v.join("+")
}

// ------------------------------------------------------------------ nb twin

pub struct NbTwin<const D: usize = 4> {
    a: NbCore<14, 0, D>,
    b: NbCore<14, 0, D>,
    injected: usize,
    bound: usize,
    diverged: bool,
    outcome: String,
}

impl<const D: usize> NbTwin<D> {
    pub fn new(cfg: &DevCfg, bound: usize) -> Self {
        NbTwin { a: NbCore::new(cfg), b: NbCore::new(cfg), injected: 0, bound, diverged: false, outcome: String::new() }
    }

    fn base_events(&self) -> Vec<Ev> {
        let region = self.a.cfg.region.clone();
        let joined = self.a.joined_session().is_some();
        let mut v = vec![];
        if !joined {
            let ok = Frame::JoinAccept { join_nonce: 7, net_id: 0x13, devaddr: DEVADDR, dl_settings: 0, rx_delay: 1, cflist: None, tamper: Tamper::None, trunc: 0 };
            v.push(Ev::JoinCycle { rx1: None, rx2: None });
            v.push(Ev::JoinCycle { rx1: Some(ok.clone()), rx2: None });
            v.push(Ev::JoinCycle { rx1: None, rx2: Some(ok) });
            return v;
        }
        v.push(Ev::Cycle { confirmed: false, port: 1, len: 1, rx1: None, rx2: None });
        v.push(Ev::Cycle { confirmed: true, port: 2, len: 2, rx1: None, rx2: None });
        for f in base_downlinks(&region) {
            v.push(Ev::Cycle { confirmed: false, port: 1, len: 1, rx1: Some(f.clone()), rx2: None });
            v.push(Ev::Cycle { confirmed: false, port: 1, len: 1, rx1: None, rx2: Some(f) });
        }
        if self.a.cfg.otaa {
            // a re-join from the joined state (what the previous session negotiated is still around while the
            // join request's windows are open): unanswered, and answered in RX2
            let ok = Frame::JoinAccept { join_nonce: 9, net_id: 0x13, devaddr: DEVADDR, dl_settings: 0, rx_delay: 1, cflist: None, tamper: Tamper::None, trunc: 0 };
            v.push(Ev::JoinCycle { rx1: None, rx2: None });
            v.push(Ev::JoinCycle { rx1: None, rx2: Some(ok) });
        }
        v
    }
}

/// Runs one transaction on a core as explicit micro steps, optionally inserting an extra
/// reception while window `at` is open. Returns (micros, index of the injected micro).
fn run_nb<const D: usize>(core: &mut NbCore<14, 0, D>, base: &Ev, inject: Option<&Inject>) -> (Vec<Micro>, Option<usize>) {
    let (start, rx1, rx2) = match base {
        Ev::Cycle { confirmed, port, len, rx1, rx2 } => (Ev::Send { confirmed: *confirmed, port: *port, len: *len }, rx1.clone(), rx2.clone()),
        Ev::JoinCycle { rx1, rx2 } => (Ev::Join, rx1.clone(), rx2.clone()),
        e => return (core.apply(e), None),
    };
    let mut out: Vec<Micro> = vec![];
    let mut inj_idx = None;
    let stop = |m: &Micro| matches!(m.resp, Resp::ErrRadio | Resp::ErrState(_) | Resp::ErrMac(_) | Resp::Panic(_));
    macro_rules! go {
        ($e:expr) => {{
            let mut ms = core.apply(&$e);
            let bad = ms.last().map(|m| stop(m)).unwrap_or(true);
            out.append(&mut ms);
            if bad {
                return (out, inj_idx);
            }
        }};
    }
    go!(start);
    if matches!(core.st(), VerifNbState::SendingData { .. }) {
        go!(Ev::TxDone);
    }
    for (w, frame) in [(1u8, rx1), (2u8, rx2)] {
        match core.st() {
            VerifNbState::WaitingForRxWindow { .. } => go!(Ev::Timeout),
            // (a stack that keeps RX1 open until RX2 is due may open RX2 in the step that closes RX1)
            VerifNbState::WaitingForRx { window, .. } if window == w && w == 2 => {}
            _ => return (out, inj_idx),
        }
        if let Some(i) = inject
            && i.at == w
            && matches!(core.st(), VerifNbState::WaitingForRx { .. })
        {
            inj_idx = Some(out.len());
            go!(Ev::Rx(i.frame.clone()));
            if !matches!(core.st(), VerifNbState::WaitingForRx { .. }) {
                return (out, inj_idx);
            }
        }
        if let Some(f) = frame {
            go!(Ev::Rx(f));
            if !matches!(core.st(), VerifNbState::WaitingForRx { .. }) {
                return (out, inj_idx);
            }
        }
        go!(Ev::Timeout);
    }
    (out, inj_idx)
}

fn obs(m: &Micro) -> (Resp, Vec<RadioOp>, Vec<(u8, Vec<u8>)>, VerifMac, VerifNbState) {
    (m.resp.clone(), m.ops.clone(), m.downlinks.clone(), m.after, m.st_after)
}

impl<const D: usize> System for NbTwin<D> {
    type Ev = TwinEv;
    type Key = (VerifMac, VerifNbState, VerifMac, VerifNbState, usize, Option<u32>);

    fn enabled(&self) -> Vec<TwinEv> {
        let mut v = vec![];
        let joined = self.a.joined_session().is_some();
        for base in self.base_events() {
            v.push(TwinEv { base: base.clone(), inject: None });
            if self.injected < self.bound {
                let (r1, r2) = match &base {
                    Ev::Cycle { rx1, rx2, .. } | Ev::JoinCycle { rx1, rx2 } => (rx1.is_some(), rx2.is_some()),
                    _ => (false, false),
                };
                let join_base = !joined || matches!(base, Ev::JoinCycle { .. });
                for f in reject_candidates(&self.a.cfg.region, join_base) {
                    // window 1 is always opened; window 2 only when nothing was accepted in RX1
                    v.push(TwinEv { base: base.clone(), inject: Some(Inject { at: 1, frame: f.clone() }) });
                    if !r1 {
                        v.push(TwinEv { base: base.clone(), inject: Some(Inject { at: 2, frame: f.clone() }) });
                    }
                    let _ = r2;
                }
            }
        }
        v
    }

    fn step(&mut self, ev: &TwinEv) -> Vec<V> {
        let mut out = vec![];
        let (ma, _) = run_nb(&mut self.a, &ev.base, None);
        let (mb, inj) = run_nb(&mut self.b, &ev.base, ev.inject.as_ref());
        for m in ma.iter().chain(mb.iter()) {
            if let Resp::Panic(p) = &m.resp {
                out.push(V { sig: format!("C07|nb|panic|{}", panic_site(p)), what: p.clone() });
            }
        }
        if !out.is_empty() {
            return out;
        }
        let mut oversize = false;
        let mut lbl = String::from("none");
        let mut why_s = String::from("earlier-injection");
        let mut mb_f: Vec<&Micro> = mb.iter().collect();
        if let (Some(i), Some(inject)) = (inj, &ev.inject) {
            self.injected += 1;
            lbl = frame_label(&inject.frame);
            let m = &mb[i];
            match &m.judge {
                Some(Judge::Reject(why)) => {
                    self.outcome = format!("inject-rejected:{why}");
                    why_s = why.to_string();
                    if m.resp != Resp::NoUpdate {
                        out.push(V {
                            sig: format!("C07|nb|rejected-frame-not-NoUpdate|{why}|{lbl}"),
                            what: format!("rejected frame ({why}) in RX{} answered {:?}", inject.at, m.resp),
                        });
                    }
                    mb_f.remove(i);
                }
                Some(Judge::Oversize) => {
                    self.outcome = "inject-oversize".into();
                    oversize = true;
                }
                _ => {
                    // the reference accepts this frame here: not a rejected frame, pair skipped
                    self.outcome = "inject-skipped-accepted".into();
                    self.diverged = true;
                    return out;
                }
            }
        } else if ev.inject.is_some() {
            self.outcome = "inject-not-reached".into();
        } else {
            self.outcome = "lockstep".into();
        }
        if oversize {
            // B may end the receive procedure early; A' = A when A had no later reception to lose
            let a_last = ma.last().map(|m| (m.after, m.st_after));
            let b_last = mb.last().map(|m| (m.after, m.st_after));
            if a_last != b_last {
                // allowed only if A received something B was entitled to miss
                let a_accepted_later = ma.iter().any(|m| matches!(m.judge, Some(Judge::Accept { .. }) | Some(Judge::JoinAccept { .. })));
                if !a_accepted_later {
                    let df = match (a_last, b_last) {
                        (Some(x), Some(y)) => diff_fields(&x.0, &y.0),
                        _ => "steps".into(),
                    };
                    out.push(V {
                        sig: format!("C07|nb|oversize-frame-changed-state[{df}]"),
                        what: format!("after oversized frame {lbl}: fields {df} differ from the twin; A {:?} / B {:?}", a_last.map(|x| x.0), b_last.map(|x| x.0)),
                    });
                } else {
                    self.diverged = true;
                }
            }
            return out;
        }
        if self.diverged {
            return out;
        }
        // lock-step comparison of every observable
        let oa: Vec<_> = ma.iter().map(obs).collect();
        let ob: Vec<_> = mb_f.iter().map(|m| obs(m)).collect();
        if oa != ob {
            let idx = oa.iter().zip(ob.iter()).position(|(x, y)| x != y).unwrap_or(oa.len().min(ob.len()));
            let what = match (oa.get(idx), ob.get(idx)) {
                (Some(x), Some(y)) => {
                    if x.0 != y.0 {
                        format!("response {:?} vs {:?}", x.0, y.0)
                    } else if x.1 != y.1 {
                        format!("radio ops {:?} vs {:?}", x.1, y.1)
                    } else if x.2 != y.2 {
                        format!("downlinks {:?} vs {:?}", x.2, y.2)
                    } else {
                        format!("state {:?} vs {:?}", x.3, y.3)
                    }
                }
                _ => format!("different number of steps {} vs {}", oa.len(), ob.len()),
            };
            let field = match (oa.get(idx), ob.get(idx)) {
                (Some(x), Some(y)) if x.0 != y.0 => "response".to_string(),
                (Some(x), Some(y)) if x.1 != y.1 => "radio".to_string(),
                (Some(x), Some(y)) if x.2 != y.2 => "downlink".to_string(),
                (Some(x), Some(y)) => format!("state[{}]", diff_fields(&x.3, &y.3)),
                _ => "steps".to_string(),
            };
            out.push(V { sig: format!("C07|nb|twin-diverged|{field}|{why_s}"), what: format!("injected {lbl}: {what}") });
            self.diverged = true;
        }
        out
    }

    fn key(&self) -> Self::Key {
        (self.a.snap(), self.a.st(), self.b.snap(), self.b.st(), self.injected, self.a.net.ref_last)
    }

    fn alive(&self) -> bool {
        // once the twins have re-converged completely their futures are identical: prune
        // (not when downlinks are left in the queue: the queue is not part of the snapshot)
        let converged = !self.a.cfg.hold_downlinks && self.injected >= self.bound && self.a.snap() == self.b.snap() && self.a.st() == self.b.st();
        self.a.dead.is_none() && self.b.dead.is_none() && !self.diverged && !converged
    }

    fn outcome(&self) -> String {
        self.outcome.clone()
    }
}

// ------------------------------------------------------------------ async twin (incl. Class C)

#[derive(Clone, Debug, Serialize, Deserialize, PartialEq, Eq, Hash)]
pub struct ATwinEv {
    pub base: AEv,
    pub inject: Option<Inject>,
}

pub struct ATwin {
    a: ACore<14, 0>,
    b: ACore<14, 0>,
    class_c: bool,
    injected: usize,
    bound: usize,
    diverged: bool,
    outcome: String,
}

impl ATwin {
    pub fn new(cfg: &DevCfg, class_c: bool, bound: usize) -> Self {
        ATwin { a: ACore::new(cfg, class_c), b: ACore::new(cfg, class_c), class_c, injected: 0, bound, diverged: false, outcome: String::new() }
    }
}

fn with_injection(base: &AEv, inj: &Inject) -> Option<AEv> {
    match base {
        AEv::Send { confirmed, port, len, script } => {
            let mut s = script.clone();
            match inj.at {
                1 if s.rx1.is_none() => s.rx1 = Some(inj.frame.clone()),
                2 if s.rx2.is_none() => s.rx2 = Some(inj.frame.clone()),
                3 => s.rxc1.insert(0, inj.frame.clone()),
                4 => s.rxc2.insert(0, inj.frame.clone()),
                _ => return None,
            }
            Some(AEv::Send { confirmed: *confirmed, port: *port, len: *len, script: s })
        }
        AEv::Join(script) => {
            let mut s = script.clone();
            match inj.at {
                1 if s.rx1.is_none() => s.rx1 = Some(inj.frame.clone()),
                2 if s.rx2.is_none() => s.rx2 = Some(inj.frame.clone()),
                // Class C: a frame heard while the device listens between the join request and its windows
                3 => s.rxc1.insert(0, inj.frame.clone()),
                4 => s.rxc2.insert(0, inj.frame.clone()),
                _ => return None,
            }
            Some(AEv::Join(s))
        }
        AEv::Listen { frames, fault_at } => {
            if inj.at != 5 {
                return None;
            }
            let mut f = frames.clone();
            f.insert(0, inj.frame.clone());
            Some(AEv::Listen { frames: f, fault_at: *fault_at })
        }
        _ => None,
    }
}

/// Radio/timer operations with the receptions' contents removed (a rejected frame replaces a
/// timeout answer; extra continuous receptions of the injected frame are dropped).
fn strip(ops: &[AOp], injected_op: Option<usize>) -> Vec<AOp> {
    ops.iter()
        .enumerate()
        .filter_map(|(i, o)| {
            if Some(i) == injected_op {
                match o {
                    AOp::RxSingle { failed, .. } => Some(AOp::RxSingle { got: None, failed: *failed }),
                    _ => None,
                }
            } else {
                Some(o.clone())
            }
        })
        .collect()
}

impl System for ATwin {
    type Ev = ATwinEv;
    type Key = (VerifMac, VerifMac, usize, Option<u32>);

    fn enabled(&self) -> Vec<ATwinEv> {
        let region = self.a.cfg.region.clone();
        let joined = matches!(self.a.snap().state, lorawan_device::verif::VerifMacState::Joined(_));
        let mut bases = vec![];
        if !joined {
            let ok = Frame::JoinAccept { join_nonce: 7, net_id: 0x13, devaddr: DEVADDR, dl_settings: 0, rx_delay: 1, cflist: None, tamper: Tamper::None, trunc: 0 };
            bases.push(AEv::Join(Script::default()));
            bases.push(AEv::Join(Script { rx2: Some(ok), ..Default::default() }));
        } else {
            bases.push(AEv::Send { confirmed: false, port: 1, len: 1, script: Script::default() });
            bases.push(AEv::Send { confirmed: true, port: 2, len: 2, script: Script::default() });
            for f in base_downlinks(&region) {
                bases.push(AEv::Send { confirmed: false, port: 1, len: 1, script: Script { rx1: Some(f.clone()), ..Default::default() } });
                bases.push(AEv::Send { confirmed: false, port: 1, len: 1, script: Script { rx2: Some(f.clone()), ..Default::default() } });
            }
            // the radio fails while the device closes a window (the n-th low_power() of the transaction): both twins hit
            // the same fault, whatever was heard before it
            for n in 0..4usize {
                bases.push(AEv::Send { confirmed: false, port: 1, len: 1, script: Script { fault_low_power: Some(n), ..Default::default() } });
            }
            if self.a.cfg.otaa {
                let ok = Frame::JoinAccept { join_nonce: 9, net_id: 0x13, devaddr: DEVADDR, dl_settings: 0, rx_delay: 1, cflist: None, tamper: Tamper::None, trunc: 0 };
                bases.push(AEv::Join(Script::default()));
                bases.push(AEv::Join(Script { rx2: Some(ok), ..Default::default() }));
            }
            if self.class_c {
                let f = base_downlinks(&region);
                bases.push(AEv::Send { confirmed: false, port: 1, len: 1, script: Script { rxc1: vec![f[0].clone()], ..Default::default() } });
                bases.push(AEv::Send { confirmed: false, port: 1, len: 1, script: Script { rxc2: vec![f[1].clone()], rx2: Some(f[3].clone()), ..Default::default() } });
                let listening = {
                    let g = self.a.inner.borrow();
                    g.cur_max_len > 0 && !g.cur_single
                };
                if listening {
                    bases.push(AEv::Listen { frames: vec![f[1].clone()], fault_at: None });
                    bases.push(AEv::Listen { frames: vec![], fault_at: None });
                }
            }
        }
        let mut v = vec![];
        for base in bases {
            v.push(ATwinEv { base: base.clone(), inject: None });
            if self.injected < self.bound {
                let ats: &[u8] = if self.class_c { &[1, 2, 3, 4, 5] } else { &[1, 2] };
                for f in reject_candidates(&region, !joined || matches!(base, AEv::Join(_))) {
                    for &at in ats {
                        let inj = Inject { at, frame: f.clone() };
                        // (an oversized frame in RX1 may end the procedure early, which removes later radio calls:
                        // with a fault scheduled, frames are injected in RX2 only)
                        let faulty = matches!(&base, AEv::Send { script, .. } if script.fault_low_power.is_some());
                        if faulty && at != 2 {
                            continue;
                        }
                        if with_injection(&base, &inj).is_some() {
                            v.push(ATwinEv { base: base.clone(), inject: Some(inj) });
                        }
                    }
                }
            }
        }
        v
    }

    fn step(&mut self, ev: &ATwinEv) -> Vec<V> {
        let mut out = vec![];
        let eb = match &ev.inject {
            Some(i) => with_injection(&ev.base, i).unwrap_or_else(|| ev.base.clone()),
            None => ev.base.clone(),
        };
        let (Some(sa), Some(sb)) = (self.a.apply(&ev.base), self.b.apply(&eb)) else { return out };
        for s in [&sa, &sb] {
            if let AResp::Panic(p) = &s.resp {
                out.push(V { sig: format!("C07|async|panic|{}", panic_site(p)), what: p.clone() });
            }
        }
        if !out.is_empty() {
            return out;
        }
        let mut injected_op: Option<usize> = None;
        let mut lbl = "earlier-injection".to_string();
        let mut why_s = "earlier-injection".to_string();
        if let Some(i) = &ev.inject {
            self.injected += 1;
            lbl = frame_label(&i.frame);
            // the injected delivery is the one A did not have
            let via = match i.at {
                1 => "rx1",
                2 => "rx2",
                _ => "rxc",
            };
            let extra = sb.deliveries.iter().find(|d| d.via == via && d.label == lbl);
            match extra.map(|d| (&d.judge, d.op_index, d.via)) {
                Some((Judge::Reject(why), op, _)) => {
                    self.outcome = format!("inject-rejected:{why}");
                    why_s = why.to_string();
                    injected_op = Some(op);
                }
                Some((Judge::Oversize, _, via)) => {
                    self.outcome = "inject-oversize".into();
                    // may end the current receive procedure as if timed out, and nothing else
                    let a_accepted = sa.deliveries.iter().any(|d| matches!(d.judge, Judge::Accept { .. } | Judge::JoinAccept { .. }));
                    if sa.after != sb.after && !a_accepted {
                        let df = diff_fields(&sa.after, &sb.after);
                        out.push(V {
                            sig: format!("C07|async|oversize-frame-changed-state[{df}]|{via}"),
                            what: format!("after oversized frame {lbl} via {via}: fields {df} differ; A {:?} / B {:?}", sa.after, sb.after),
                        });
                    }
                    if matches!(sb.resp, AResp::Panic(_)) {
                        return out;
                    }
                    if sa.after != sb.after {
                        self.diverged = true;
                    }
                    return out;
                }
                Some(_) => {
                    self.outcome = "inject-skipped-accepted".into();
                    self.diverged = true;
                    return out;
                }
                None => {
                    self.outcome = "inject-not-reached".into();
                }
            }
        } else {
            self.outcome = "lockstep".into();
        }
        if self.diverged {
            return out;
        }
        let oa = (sa.resp.clone(), strip(&sa.ops, None), sa.downlinks.clone(), sa.after);
        let ob = (sb.resp.clone(), strip(&sb.ops, injected_op), sb.downlinks.clone(), sb.after);
        if oa != ob {
            let (field, what) = if oa.0 != ob.0 {
                ("response", format!("{:?} vs {:?}", oa.0, ob.0))
            } else if oa.1 != ob.1 {
                let i = oa.1.iter().zip(ob.1.iter()).position(|(x, y)| x != y).unwrap_or(0);
                ("radio", format!("op {i}: {:?} vs {:?}", oa.1.get(i), ob.1.get(i)))
            } else if oa.2 != ob.2 {
                ("downlink", format!("{:?} vs {:?}", oa.2, ob.2))
            } else {
                ("state", format!("{:?} vs {:?}", oa.3, ob.3))
            };
            let field = if field == "state" { format!("state[{}]", diff_fields(&oa.3, &ob.3)) } else { field.to_string() };
            out.push(V { sig: format!("C07|async|twin-diverged|{field}|{why_s}"), what: format!("injected {lbl}: {what}") });
            self.diverged = true;
        }
        out
    }

    fn key(&self) -> Self::Key {
        (self.a.snap(), self.b.snap(), self.injected, self.a.net().ref_last)
    }

    fn alive(&self) -> bool {
        let converged = self.injected >= self.bound && self.a.snap() == self.b.snap();
        self.a.dead.is_none() && self.b.dead.is_none() && !self.diverged && !converged
    }

    fn outcome(&self) -> String {
        self.outcome.clone()
    }
}

#[derive(Clone, Debug, Serialize, Deserialize)]
pub struct RunCfg {
    pub front: String,
    pub class_c: bool,
    pub bound: usize,
    pub dev: DevCfg,
}

fn replay_case(c: &Value) -> Vec<String> {
    let rc: RunCfg = serde_json::from_value(c["cfg"].clone()).expect("cfg");
    if rc.front == "nb" {
        let hist: Vec<TwinEv> = serde_json::from_value(c["history"].clone()).expect("history");
        if rc.dev.hold_downlinks { explore::replay(&|| NbTwin::<1>::new(&rc.dev, rc.bound), &hist) } else { explore::replay(&|| NbTwin::<4>::new(&rc.dev, rc.bound), &hist) }
    } else {
        let hist: Vec<ATwinEv> = serde_json::from_value(c["history"].clone()).expect("history");
        explore::replay(&|| ATwin::new(&rc.dev, rc.class_c, rc.bound), &hist)
    }
}

pub fn run(tier: Tier, replay: Option<&str>) {
    if let Some(path) = replay {
        replay_exit("C07", path, replay_case(&load_case(path)));
    }
    let ctx = Ctx::new("C07", tier);
    let th = tier.thorough();
    // (quick: one region at the thorough depth)
    let depth = 4;
    let mut runs = vec![];
    let regions: &[&str] = if th { &["EU868", "US915", "AS923_1", "AU915"] } else { &["EU868", "US915"] };
    for r in regions {
        for otaa in [false, true] {
            let d = if otaa { DevCfg::otaa(r) } else { DevCfg::abp(r) };
            runs.push(RunCfg { front: "nb".into(), class_c: false, bound: 1, dev: d.clone() });
            runs.push(RunCfg { front: "async".into(), class_c: false, bound: 1, dev: d.clone() });
            // (OTAA with Class C enabled: frames heard between a join request and its windows)
            runs.push(RunCfg { front: "async".into(), class_c: true, bound: 1, dev: d.clone() });
            if !otaa {
                if *r == "EU868" {
                    // an application that leaves downlinks in the queue across the next uplink's windows
                    let mut h = d;
                    h.hold_downlinks = true;
                    runs.push(RunCfg { front: "nb".into(), class_c: false, bound: 1, dev: h });
                }
            }
        }
    }
    // a region whose RX1 table reaches rates the stack does not implement, at its highest uplink rate
    for front in ["nb", "async"] {
        let mut d = DevCfg::abp("IN865");
        d.dr = Some(5);
        runs.push(RunCfg { front: front.into(), class_c: false, bound: 1, dev: d });
    }
    // nb boards whose receive windows stay open until / beyond the start of RX2, at an uplink rate whose RX1 admits longer
    // frames than RX2 (EU868 DR5: 250 vs 59 bytes; US915 DR0: RX1 at DR10)
    for (region, dr, dur) in [("EU868", Some(5u8), 1000u32), ("US915", None, 2500)] {
        let mut d = DevCfg::abp(region);
        d.dr = dr;
        d.duration_ms = dur;
        runs.push(RunCfg { front: "nb".into(), class_c: false, bound: 1, dev: d });
    }
    let mut states = 0u64;
    let mut transitions = 0u64;
    let mut capped = false;
    let mut outcomes: std::collections::BTreeMap<String, u64> = Default::default();
    for rc in &runs {
        let cj = serde_json::to_value(rc).unwrap();
        let st = if rc.front == "nb" {
            if rc.dev.hold_downlinks {
                // (with the default downlink queue of one entry)
                explore::bfs(&ctx, &cj, &|| NbTwin::<1>::new(&rc.dev, rc.bound), depth, 1_500_000)
            } else {
                explore::bfs(&ctx, &cj, &|| NbTwin::<4>::new(&rc.dev, rc.bound), depth, 1_500_000)
            }
        } else {
            explore::bfs(&ctx, &cj, &|| ATwin::new(&rc.dev, rc.class_c, rc.bound), depth, 1_500_000)
        };
        states += st.states;
        transitions += st.transitions;
        capped |= st.capped;
        for (k, v) in st.outcomes {
            let k = k.split(':').next().unwrap_or("").to_string();
            *outcomes.entry(format!("{}:{}", rc.front, k)).or_insert(0) += v;
        }
    }
    let sample = TwinEv {
        base: Ev::Cycle { confirmed: false, port: 1, len: 1, rx1: None, rx2: Some(base_downlinks("EU868")[2].clone()) },
        inject: Some(Inject { at: 1, frame: reject_candidates("EU868", false)[7].clone() }),
    };
    let coverage = json!({
        "states": states,
        "transitions": transitions,
        "traces_validated_against_impl": transitions * 2,
        "samples": [{"cfg": serde_json::to_value(&runs[0]).unwrap(), "history": [serde_json::to_value(&sample).unwrap()]}],
        "evaluations": ctx.evals(),
        "distinct_nontrivial": states,
        "rule": "self-composition: pair states (twin A, twin B) of two real devices (also nb boards with 1000 / 2500 ms receive windows) driven with identical events and RNG streams; every transaction of the base alphabet (plain / confirmed uplinks, downlinks that queue sticky answers, owed ACKs and one-shot answers, joins, re-joins from the joined state) is run with no injection and with each candidate frame injected into twin B at each receive opportunity (RX1, RX2; Class C: before RX1, before RX2, idle listening); candidates the reference accepts are skipped; after an injection the twins are compared in lock-step on responses, radio/timer operations, delivered downlinks and snapshots for the rest of the history; completely re-converged pairs are pruned",
        "depth": depth,
        "injection_bound": 1,
        "configurations": runs.len(),
        "candidate_frames": reject_candidates("EU868", false).len(),
        "outcomes": outcomes,
        "exhaustive": !capped,
        "capped": capped,
    });
    let replayer = |cj: &Value| -> Vec<String> { replay_case(cj) };
    ctx.finish(
        "model_checking",
        coverage,
        vec![
            "rejection is decided by the reference acceptor (refcodec + freshness rule), never by the implementation".into(),
            "an oversized frame may end the current receive procedure: then only end-of-transaction state and later behaviour are compared".into(),
            "async: a rejected frame replaces the timeout answer of a single-shot reception (it consumes it); in Class C it is an extra continuous reception".into(),
        ],
        Some(&replayer),
    );
}
