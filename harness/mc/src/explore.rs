//! Generic explicit-state explorer over real objects.
//!
//! A state is represented by the event history that reaches it (the real device objects are
//! not `Clone`); expanding a state replays its history on fresh objects and applies one more
//! event. Level-synchronous BFS, frontier expansion parallelised with rayon, deduplication on
//! a canonical key. Violations are reported through `Ctx` with the full history as the case.
use crate::ctx::Ctx;
use rayon::prelude::*;
use serde::Serialize;
use serde_json::{Value, json};
use std::collections::HashSet;
use std::hash::{Hash, Hasher};

pub struct V {
    pub sig: String,
    pub what: String,
}

pub trait System: Sized {
    type Ev: Clone + std::fmt::Debug + Serialize + Send + Sync;
    /// canonical state (hook snapshot + monitor state)
    type Key: Hash + Eq + Send;
    /// Events enabled in this state, simplest first.
    fn enabled(&self) -> Vec<Self::Ev>;
    /// Applies one event to the REAL code (inside catch_unwind) and evaluates the monitors.
    /// `report` is false while replaying a prefix.
    fn step(&mut self, ev: &Self::Ev) -> Vec<V>;
    fn key(&self) -> Self::Key;
    /// false once the system must not be expanded further (panic, terminal state)
    fn alive(&self) -> bool {
        true
    }
    /// short outcome label of the last step (for vacuity statistics)
    fn outcome(&self) -> String {
        String::new()
    }
}

#[derive(Default, Debug, Clone)]
pub struct Stats {
    pub states: u64,
    pub transitions: u64,
    pub replay_steps: u64,
    pub depth_completed: usize,
    pub frontier_sizes: Vec<usize>,
    pub outcomes: Vec<(String, u64)>,
    pub capped: bool,
}

fn hash_key<K: Hash>(k: &K) -> (u64, u64) {
    let mut h1 = std::collections::hash_map::DefaultHasher::new();
    k.hash(&mut h1);
    let a = h1.finish();
    let mut h2 = std::collections::hash_map::DefaultHasher::new();
    0x9E37_79B9_7F4A_7C15u64.hash(&mut h2);
    k.hash(&mut h2);
    (a, h2.finish())
}

/// BFS to `max_depth`. `mk` builds a fresh system in its initial state; `cfg` is recorded in
/// every violation case so that a replay can rebuild the same system.
pub fn bfs<S: System>(
    ctx: &Ctx,
    cfg: &Value,
    mk: &(dyn Fn() -> S + Sync),
    max_depth: usize,
    max_states: u64,
) -> Stats {
    let mut stats = Stats::default();
    let mut seen: HashSet<(u64, u64)> = HashSet::new();
    let init = mk();
    seen.insert(hash_key(&init.key()));
    stats.states = 1;
    let mut frontier: Vec<Vec<S::Ev>> = vec![vec![]];
    let mut outcomes: std::collections::BTreeMap<String, u64> = Default::default();
    for depth in 0..max_depth {
        if frontier.is_empty() {
            stats.depth_completed = max_depth;
            break;
        }
        stats.frontier_sizes.push(frontier.len());
        // expand every frontier state in parallel; a worker only hands back the successors whose key was not seen
        // on an earlier level (the histories of the others would only cost memory), plus outcome counts
        let seen_ref = &seen;
        type Succ<E> = (Vec<E>, (u64, u64), bool);
        let results: Vec<(Vec<Succ<S::Ev>>, std::collections::BTreeMap<String, u64>, u64)> = frontier
            .par_iter()
            .map(|hist| {
                let mut out = vec![];
                let mut oc: std::collections::BTreeMap<String, u64> = Default::default();
                if ctx.saturated() {
                    return (out, oc, 0);
                }
                // replay once to learn the enabled set
                let mut s = mk();
                for e in hist {
                    s.step(e);
                }
                let evs = s.enabled();
                let mut steps = hist.len() as u64;
                let mut ntrans = 0u64;
                for (i, ev) in evs.iter().enumerate() {
                    // the first child can reuse the replayed system, the others replay again
                    let mut t = if i == 0 {
                        std::mem::replace(&mut s, mk())
                    } else {
                        let mut t = mk();
                        for e in hist {
                            t.step(e);
                        }
                        steps += hist.len() as u64;
                        t
                    };
                    let vs = t.step(ev);
                    steps += 1;
                    ntrans += 1;
                    let mut h2 = hist.clone();
                    h2.push(ev.clone());
                    for v in vs {
                        ctx.violation(
                            v.sig,
                            v.what,
                            json!({"cfg": cfg, "history": serde_json::to_value(&h2).unwrap()}),
                            h2.len(),
                        );
                    }
                    *oc.entry(t.outcome()).or_insert(0) += 1;
                    let k = hash_key(&t.key());
                    if !seen_ref.contains(&k) {
                        out.push((h2, k, t.alive()));
                    }
                }
                ctx.tick(steps);
                (out, oc, ntrans)
            })
            .collect();
        let mut next = vec![];
        for (succ, oc, ntrans) in results {
            stats.transitions += ntrans;
            for (k, n) in oc {
                *outcomes.entry(k).or_insert(0) += n;
            }
            for (h, k, alive) in succ {
                if seen.insert(k) {
                    stats.states += 1;
                    if alive {
                        next.push(h);
                    }
                }
            }
        }
        stats.depth_completed = depth + 1;
        if ctx.saturated() {
            stats.capped = true;
            break;
        }
        if stats.states > max_states {
            stats.capped = true;
            break;
        }
        frontier = next;
    }
    stats.outcomes = outcomes.into_iter().collect();
    stats
}

/// Replays a stored history and returns the signatures produced by its last step.
pub fn replay<S: System>(mk: &dyn Fn() -> S, hist: &[S::Ev]) -> Vec<String> {
    let mut s = mk();
    let mut last = vec![];
    for e in hist {
        last = s.step(e).into_iter().map(|v| v.sig).collect();
    }
    last
}
