//! Closed environment for the real `nb_device::Device`: scripted RNG, scripted radio with fault
//! injection, a reference network server that builds downlinks with the independent codec, and
//! the reference downlink acceptor (the specification's freshness rule).
use crate::ctx::{catch, hex};
use crate::refcodec::{self, DataDesc, JoinAcceptDesc};
use lorawan_device::nb_device::radio::{Event as REvent, PhyRxTx, Response as RResponse, RfConfig, RxQuality, TxConfig};
use lorawan_device::nb_device::{Device, Event, Response};
use lorawan_device::region::{self, Region};
use lorawan_device::verif::{VerifMac, VerifMacState, VerifNbState};
use lorawan_device::{AppEui, AppKey, AppSKey, DevAddr, DevEui, JoinMode, NwkSKey, Timings};
use serde::{Deserialize, Serialize};
use std::cell::RefCell;
use std::rc::Rc;

pub const APPKEY: [u8; 16] = [0x11, 0x22, 0x33, 0x44, 0x55, 0x66, 0x77, 0x88, 0x99, 0xaa, 0xbb, 0xcc, 0xdd, 0xee, 0xff, 0x01];
pub const NWKSKEY: [u8; 16] = [0x2b, 0x7e, 0x15, 0x16, 0x28, 0xae, 0xd2, 0xa6, 0xab, 0xf7, 0x15, 0x88, 0x09, 0xcf, 0x4f, 0x3c];
pub const APPSKEY: [u8; 16] = [0x01, 0x23, 0x45, 0x67, 0x89, 0xab, 0xcd, 0xef, 0xfe, 0xdc, 0xba, 0x98, 0x76, 0x54, 0x32, 0x10];
pub const OTHER_NWKSKEY: [u8; 16] = [0x5a; 16];
pub const DEVADDR: u32 = 0x2601_1234;
pub const DEVEUI: [u8; 8] = [1, 2, 3, 4, 5, 6, 7, 8];
/// Second credential set (a device re-provisioned for another join server): (DevEUI, JoinEUI, root key)
/// Credential sets: bit 0 selects the identifiers (and their base key), bit 1 another AppKey for the same
/// identifiers (an application that corrects a mis-provisioned key).
pub fn creds(k: u8) -> ([u8; 8], [u8; 8], [u8; 16]) {
    if k & 2 != 0 {
        let (d, a, mut key) = creds(k & 1);
        for b in key.iter_mut() {
            *b ^= 0x5A;
        }
        return (d, a, key);
    }
    if k == 0 { (DEVEUI, APPEUI, APPKEY) } else { ([0xB1, 0xB2, 0xB3, 0xB4, 0xB5, 0xB6, 0xB7, 0xB8], [0x0B; 8], [0xB0, 0x0B, 0x1E, 0x5A, 0x42, 0x13, 0x37, 0x99, 0x01, 0x23, 0x45, 0x67, 0x89, 0xAB, 0xCD, 0xEF]) }
}
pub const APPEUI: [u8; 8] = [0x70, 0xb3, 0xd5, 0x7e, 0xd0, 0, 0, 0x11];

pub const REGIONS: [&str; 9] = ["EU868", "US915", "AS923_1", "AU915", "EU433", "IN865", "AS923_2", "AS923_3", "AS923_4"];

pub fn region_of(name: &str) -> Region {
    match name {
        "EU868" => Region::EU868,
        "EU433" => Region::EU433,
        "IN865" => Region::IN865,
        "AS923_1" => Region::AS923_1,
        "AS923_2" => Region::AS923_2,
        "AS923_3" => Region::AS923_3,
        "AS923_4" => Region::AS923_4,
        "US915" => Region::US915,
        "AU915" => Region::AU915,
        _ => panic!("unknown region {name}"),
    }
}

pub fn is_fixed(name: &str) -> bool {
    name == "US915" || name == "AU915"
}

// ------------------------------------------------------------------ RNG

pub struct RngInner {
    pub prefix: Vec<u32>,
    pub pos: usize,
    pub tail: u32,
    pub draws_this_call: usize,
    pub total: usize,
    pub budget: usize,
}

/// Scripted RNG: a prefix of chosen values, then a fair sweeping tail 0,1,2,... Panics when a
/// single public call draws more than `budget` values (a rejection-sampling loop that cannot exit).
#[derive(Clone)]
pub struct ScriptRng(pub Rc<RefCell<RngInner>>);

impl ScriptRng {
    pub fn new(prefix: Vec<u32>) -> Self {
        ScriptRng(Rc::new(RefCell::new(RngInner { prefix, pos: 0, tail: 0, draws_this_call: 0, total: 0, budget: 4096 })))
    }
    pub fn begin_call(&self) {
        self.0.borrow_mut().draws_this_call = 0;
    }
    pub fn draws(&self) -> usize {
        self.0.borrow().draws_this_call
    }
    /// Replace the script for the next call(s).
    pub fn set_prefix(&self, p: Vec<u32>) {
        let mut g = self.0.borrow_mut();
        g.prefix = p;
        g.pos = 0;
    }
}

pub const HANG_MSG: &str = "VERIF-HANG: RNG draw budget exceeded (selection loop cannot terminate)";

impl rand_core::RngCore for ScriptRng {
    fn next_u32(&mut self) -> u32 {
        let mut g = self.0.borrow_mut();
        g.draws_this_call += 1;
        g.total += 1;
        if g.draws_this_call > g.budget {
            drop(g);
            panic!("{}", HANG_MSG);
        }
        if g.pos < g.prefix.len() {
            let v = g.prefix[g.pos];
            g.pos += 1;
            v
        } else {
            let v = g.tail;
            g.tail = g.tail.wrapping_add(1);
            v
        }
    }
    fn next_u64(&mut self) -> u64 {
        ((self.next_u32() as u64) << 32) | self.next_u32() as u64
    }
    fn fill_bytes(&mut self, dest: &mut [u8]) {
        for c in dest.chunks_mut(4) {
            let v = self.next_u32().to_le_bytes();
            c.copy_from_slice(&v[..c.len()]);
        }
    }
    fn try_fill_bytes(&mut self, dest: &mut [u8]) -> Result<(), rand_core::Error> {
        self.fill_bytes(dest);
        Ok(())
    }
}

// ------------------------------------------------------------------ radio

#[derive(Clone, Debug, PartialEq, Eq, Hash, Serialize)]
pub struct Rf {
    pub freq: u32,
    pub sf: u8,
    pub bw: u32,
    pub cr: u8,
    pub ldro: bool,
    pub max_len: u8,
}

pub fn rf_of(c: &RfConfig) -> Rf {
    Rf {
        freq: c.frequency,
        sf: c.bb.sf.factor() as u8,
        bw: c.bb.bw.hz(),
        cr: c.bb.cr.denom() as u8,
        ldro: c.bb.ldro,
        max_len: c.max_payload_len,
    }
}

#[derive(Clone, Debug, PartialEq, Eq, Hash, Serialize)]
pub enum RadioOp {
    Tx { pw: i8, rf: Rf, bytes: Vec<u8>, failed: bool },
    RxReq { rf: Rf, failed: bool },
    Cancel { failed: bool },
    Phy { failed: bool },
}

#[derive(Debug)]
pub enum NbPhyEvent {
    TxDone(u32),
    RxDone(Vec<u8>, i8),
    Noise,
}

pub struct RadioInner {
    pub log: Vec<RadioOp>,
    /// when true the next radio call fails (deviation from the default answer)
    /// the radio call that fails, counted from the next one (0 = the next call)
    pub fail_in: Option<usize>,
    /// TxRequest answers TxDone(ms) directly instead of Txing
    pub sync_tx: bool,
    pub tx_done_ms: u32,
    pub offset_ms: i32,
    pub duration_ms: u32,
}

pub struct NbRadio<const PW: u8, const GAIN: i8> {
    pub inner: Rc<RefCell<RadioInner>>,
    pub buf: Vec<u8>,
}

impl<const PW: u8, const GAIN: i8> PhyRxTx for NbRadio<PW, GAIN> {
    type PhyEvent = NbPhyEvent;
    type PhyError = &'static str;
    type PhyResponse = ();
    const ANTENNA_GAIN: i8 = GAIN;
    const MAX_RADIO_POWER: u8 = PW;

    fn get_mut_radio(&mut self) -> &mut Self {
        self
    }

    fn get_received_packet(&mut self) -> &mut [u8] {
        &mut self.buf
    }

    fn handle_event(&mut self, event: REvent<'_, Self>) -> Result<RResponse<Self>, Self::PhyError> {
        let mut g = self.inner.borrow_mut();
        let fail = match g.fail_in {
            Some(0) => {
                g.fail_in = None;
                true
            }
            Some(n) => {
                g.fail_in = Some(n - 1);
                false
            }
            None => false,
        };
        match event {
            REvent::TxRequest(cfg, buf) => {
                let op = RadioOp::Tx { pw: cfg.pw, rf: rf_of(&cfg.rf), bytes: buf.to_vec(), failed: fail };
                g.log.push(op);
                if fail {
                    return Err("tx fault");
                }
                if g.sync_tx { Ok(RResponse::TxDone(g.tx_done_ms)) } else { Ok(RResponse::Txing) }
            }
            REvent::RxRequest(rf) => {
                g.log.push(RadioOp::RxReq { rf: rf_of(&rf), failed: fail });
                if fail {
                    return Err("rx request fault");
                }
                Ok(RResponse::Rxing)
            }
            REvent::CancelRx => {
                g.log.push(RadioOp::Cancel { failed: fail });
                if fail {
                    return Err("cancel fault");
                }
                Ok(RResponse::Idle)
            }
            REvent::Phy(ev) => {
                g.log.push(RadioOp::Phy { failed: fail });
                if fail {
                    return Err("phy fault");
                }
                match ev {
                    NbPhyEvent::TxDone(ms) => Ok(RResponse::TxDone(ms)),
                    NbPhyEvent::RxDone(bytes, snr) => {
                        self.buf = bytes;
                        Ok(RResponse::RxDone(RxQuality::new(-80, snr)))
                    }
                    NbPhyEvent::Noise => Ok(RResponse::Rxing),
                }
            }
        }
    }
}

impl<const PW: u8, const GAIN: i8> Timings for NbRadio<PW, GAIN> {
    fn get_rx_window_offset_ms(&self) -> i32 {
        self.inner.borrow().offset_ms
    }
    fn get_rx_window_duration_ms(&self) -> u32 {
        self.inner.borrow().duration_ms
    }
}

// ------------------------------------------------------------------ frames & network side

#[derive(Clone, Debug, Serialize, Deserialize, PartialEq, Eq, Hash)]
pub enum Fcnt {
    /// relative to the reference's last accepted counter (0 when none yet)
    Rel(i64),
    Abs(u32),
}

#[derive(Clone, Copy, Debug, Serialize, Deserialize, PartialEq, Eq, Hash)]
pub enum Tamper {
    None,
    /// last MIC byte flipped
    BadMic,
    /// MIC/encryption under a different network session key (another session, same address)
    OtherSession,
    /// MIC computed with N + k * 0x1_0000 while the wire carries N's low half
    MicEpoch(i64),
    /// built as an uplink frame type (MIC with direction 0)
    UplinkType,
    /// addressed to another device, signed with that device's (unknown) key
    Foreign,
    /// flip one bit of the given region after building: 0 mhdr-mtype,1 devaddr,2 fctrl,3 fcnt,4 port,5 payload
    Flip(u8),
    /// not tampered with at all: an authentic frame with FPending (and ADR) set, as a network with more
    /// downlinks queued sends it
    Pending,
}

#[derive(Clone, Debug, Serialize, Deserialize, PartialEq, Eq, Hash)]
pub enum Frame {
    Down { fcnt: Fcnt, confirmed: bool, ack: bool, fopts: Vec<u8>, port: Option<u8>, payload: Vec<u8>, tamper: Tamper },
    /// the k-th frame delivered so far, byte for byte
    Replay(usize),
    /// the k-th most recently accepted frame (0 = the last one)
    ReplayAccepted(usize),
    JoinAccept { join_nonce: u32, net_id: u32, devaddr: u32, dl_settings: u8, rx_delay: u8, cflist: Option<Vec<u8>>, tamper: Tamper, trunc: usize },
    /// JoinAccept captured from an earlier attempt (replayed verbatim)
    Raw(Vec<u8>),
}

#[derive(Clone, Debug, PartialEq, Eq)]
pub enum Judge {
    /// the reference accepts with full counter n
    Accept { n: u32, confirmed: bool, port: Option<u8>, plain: Vec<u8>, fopts: Vec<u8> },
    /// parseable but longer than the window allows: may end the receive procedure
    Oversize,
    Reject(&'static str),
    JoinAccept { nwk: [u8; 16], app: [u8; 16], devaddr: u32, desc: JoinAcceptDesc },
}

#[derive(Clone, Debug)]
pub struct Net {
    pub otaa_pending: Option<u16>,
    pub joined: bool,
    pub nwk: [u8; 16],
    pub app: [u8; 16],
    pub devaddr: u32,
    pub ref_last: Option<u32>,
    pub accepted: Vec<Vec<u8>>,
    pub delivered: Vec<Vec<u8>>,
    /// credential set the device is configured with (and the network knows it by)
    pub creds: u8,
}

/// The size limit the reference applies to a receive window. The device's own figure is used as long as it
/// is one of the values the regional parameters admit for the window's modulation (RP002 revisions differ
/// for a few rates); otherwise the regional table decides, so a wrong table entry shows as a frame wrongly
/// dropped or wrongly acted on.
pub fn ref_window_limit(region: &str, sf: u8, bw: u32, device_max: u8) -> u8 {
    let adm: Vec<u8> = crate::refregion::dr_index(region, sf, bw).iter().flat_map(|d| crate::refregion::max_payload(region, *d)).collect();
    if adm.is_empty() || adm.contains(&device_max) { device_max } else { *adm.iter().max().unwrap() }
}

/// The specification's freshness rule in u64: the unique N = wire (mod 2^16) with
/// last < N <= last + 16384 and N <= 2^32-1; any wire value when there is no last.
pub fn spec_next_fcnt(last: Option<u32>, wire: u16) -> Option<u32> {
    let Some(last) = last else { return Some(wire as u32) };
    let last = last as u64;
    let mut cand = (last & !0xFFFF) | wire as u64;
    if cand <= last {
        cand += 0x1_0000;
    }
    if cand > last && cand <= last + 16384 && cand <= 0xFFFF_FFFF { Some(cand as u32) } else { None }
}

impl Net {
    pub fn abp() -> Net {
        Net { otaa_pending: None, joined: true, nwk: NWKSKEY, app: APPSKEY, devaddr: DEVADDR, ref_last: None, accepted: vec![], delivered: vec![], creds: 0 }
    }
    pub fn unjoined() -> Net {
        Net { otaa_pending: None, joined: false, nwk: [0; 16], app: [0; 16], devaddr: 0, ref_last: None, accepted: vec![], delivered: vec![], creds: 0 }
    }

    pub fn resolve(&self, f: &Fcnt) -> Option<u32> {
        match f {
            Fcnt::Abs(n) => Some(*n),
            Fcnt::Rel(k) => {
                let base = self.ref_last.unwrap_or(0) as i64;
                let n = base + k;
                if (0..=0xFFFF_FFFFi64).contains(&n) { Some(n as u32) } else { None }
            }
        }
    }

    /// Builds the bytes of a frame at delivery time. None when not constructible in this state.
    pub fn build(&self, f: &Frame) -> Option<Vec<u8>> {
        match f {
            Frame::Raw(b) => Some(b.clone()),
            Frame::Replay(k) => self.delivered.get(*k).cloned(),
            Frame::ReplayAccepted(k) => {
                if *k < self.accepted.len() { Some(self.accepted[self.accepted.len() - 1 - k].clone()) } else { None }
            }
            Frame::Down { fcnt, confirmed, ack, fopts, port, payload, tamper } => {
                let n = self.resolve(fcnt)?;
                let up = matches!(tamper, Tamper::UplinkType);
                let mtype = match (confirmed, up) {
                    (false, false) => 3,
                    (true, false) => 5,
                    (false, true) => 2,
                    (true, true) => 4,
                };
                let mut d = DataDesc {
                    mtype,
                    devaddr: self.devaddr,
                    adr: matches!(tamper, Tamper::Pending),
                    adr_ack_req: false,
                    ack: *ack,
                    f_pending: matches!(tamper, Tamper::Pending),
                    fcnt: n,
                    fopts: fopts.clone(),
                    fport: *port,
                    frm: payload.clone(),
                };
                let mut nwk = self.nwk;
                match tamper {
                    Tamper::OtherSession => nwk = OTHER_NWKSKEY,
                    Tamper::Foreign => {
                        d.devaddr ^= 0x0100_0000;
                        nwk = OTHER_NWKSKEY;
                    }
                    Tamper::MicEpoch(k) => {
                        let m = n as i64 + k * 0x1_0000;
                        if !(0..=0xFFFF_FFFFi64).contains(&m) {
                            return None;
                        }
                        d.fcnt = m as u32; // same low half on the wire, MIC/encryption with the other epoch
                    }
                    _ => {}
                }
                let mut b = refcodec::encode_data(&d, &nwk, &self.app).ok()?;
                let n_ = b.len();
                match tamper {
                    Tamper::BadMic => b[n_ - 1] ^= 0x01,
                    Tamper::Flip(r) => {
                        let fol = fopts.len();
                        let idx = match r {
                            0 => 0,
                            1 => 2,
                            2 => 5,
                            3 => 6,
                            4 => 8 + fol,
                            _ => 9 + fol,
                        };
                        if idx >= n_ - 4 {
                            return None;
                        }
                        // region 0 flips the direction bit (downlink -> uplink type), others flip bit 0x10/0x01
                        b[idx] ^= match r {
                            0 => 0x20,
                            2 => 0x20,
                            _ => 0x01,
                        };
                    }
                    _ => {}
                }
                Some(b)
            }
            Frame::JoinAccept { join_nonce, net_id, devaddr, dl_settings, rx_delay, cflist, tamper, trunc } => {
                let d = JoinAcceptDesc {
                    join_nonce: *join_nonce,
                    net_id: *net_id,
                    devaddr: *devaddr,
                    dl_settings: *dl_settings,
                    rx_delay: *rx_delay,
                    cflist: cflist.as_ref().map(|c| {
                        let mut a = [0u8; 16];
                        a.copy_from_slice(&c[..16]);
                        a
                    }),
                };
                let key = if matches!(tamper, Tamper::OtherSession) { OTHER_NWKSKEY } else { creds(self.creds).2 };
                let mut b = refcodec::encode_join_accept(&d, &key);
                if matches!(tamper, Tamper::BadMic) {
                    // corrupt one ciphertext byte of the last block: the decrypted MIC changes
                    let n = b.len();
                    b[n - 1] ^= 0x01;
                }
                let n = b.len();
                b.truncate(n - (*trunc).min(n));
                Some(b)
            }
        }
    }

    /// Reference verdict for a frame received in a window whose data rate allows `max_len`
    /// bytes of MACPayload. Does not change the reference state; call `commit` afterwards.
    pub fn judge(&self, b: &[u8], max_len: u8) -> Judge {
        if let Some(dn) = self.otaa_pending {
            // join procedure in progress: only a JoinAccept under the root key counts
            let appkey = creds(self.creds).2;
            return match refcodec::decode_join_accept(b, &appkey) {
                Some((plain, true)) => {
                    let desc = refcodec::join_accept_fields(&plain);
                    let (nwk, app) = refcodec::derive_keys(&appkey, desc.join_nonce, desc.net_id, dn);
                    Judge::JoinAccept { nwk, app, devaddr: desc.devaddr, desc }
                }
                Some((_, false)) => Judge::Reject("joinaccept-bad-mic"),
                None => Judge::Reject("not-a-joinaccept"),
            };
        }
        if !self.joined {
            return Judge::Reject("not-joined");
        }
        let Ok(v) = refcodec::parse_data(b) else { return Judge::Reject("unparseable") };
        if b.len() > max_len as usize + 5 {
            return Judge::Oversize;
        }
        let Some(n) = spec_next_fcnt(self.ref_last, v.fcnt16) else { return Judge::Reject("stale-or-too-far") };
        if !refcodec::data_mic_ok(b, &v, &self.nwk, n) {
            return Judge::Reject("bad-mic");
        }
        let plain = refcodec::data_plain(&v, &self.nwk, &self.app, n);
        Judge::Accept { n, confirmed: v.mtype >= 4, port: v.fport, plain, fopts: v.fopts.clone() }
    }

    pub fn commit(&mut self, b: &[u8], j: &Judge) {
        self.delivered.push(b.to_vec());
        match j {
            Judge::Accept { n, .. } => {
                self.ref_last = Some(*n);
                self.accepted.push(b.to_vec());
            }
            Judge::JoinAccept { nwk, app, devaddr, .. } => {
                self.otaa_pending = None;
                self.joined = true;
                self.nwk = *nwk;
                self.app = *app;
                self.devaddr = *devaddr;
                self.ref_last = None;
                self.accepted.clear();
            }
            _ => {}
        }
    }
}

// ------------------------------------------------------------------ the driven device

#[derive(Clone, Debug, Serialize, Deserialize, PartialEq, Eq, Hash)]
pub enum Resp {
    NoUpdate,
    TimeoutRequest(u32),
    JoinRequestSending,
    JoinSuccess,
    NoJoinAccept,
    UplinkSending(u32),
    DownlinkReceived(u32),
    NoAck,
    ReadyToSend,
    SessionExpired,
    RxComplete,
    ErrRadio,
    ErrState(String),
    ErrMac(String),
    Panic(String),
}

fn resp_of<R: PhyRxTx>(r: Result<Response, lorawan_device::nb_device::Error<R>>) -> Resp {
    use lorawan_device::nb_device::Error as E;
    match r {
        Ok(Response::NoUpdate) => Resp::NoUpdate,
        Ok(Response::TimeoutRequest(t)) => Resp::TimeoutRequest(t),
        Ok(Response::JoinRequestSending) => Resp::JoinRequestSending,
        Ok(Response::JoinSuccess) => Resp::JoinSuccess,
        Ok(Response::NoJoinAccept) => Resp::NoJoinAccept,
        Ok(Response::UplinkSending(f)) => Resp::UplinkSending(f),
        Ok(Response::DownlinkReceived(f)) => Resp::DownlinkReceived(f),
        Ok(Response::NoAck) => Resp::NoAck,
        Ok(Response::ReadyToSend) => Resp::ReadyToSend,
        Ok(Response::SessionExpired) => Resp::SessionExpired,
        Ok(Response::RxComplete) => Resp::RxComplete,
        Err(E::Radio(_)) => Resp::ErrRadio,
        Err(E::State(s)) => Resp::ErrState(format!("{s:?}")),
        Err(E::Mac(m)) => Resp::ErrMac(format!("{m:?}")),
    }
}

#[derive(Clone, Debug, Serialize, Deserialize, PartialEq, Eq, Hash)]
pub enum Ev {
    Join,
    Send { confirmed: bool, port: u8, len: usize },
    TxDone,
    Timeout,
    Rx(Frame),
    Noise,
    SetDr(u8),
    SetAdr(bool),
    /// the next draw(s) of the RNG (consumed by the following Join/Send)
    Rng(Vec<u32>),
    /// same event, but the radio call it performs fails
    Fault(Box<Ev>),
    /// same event, but its (n+1)-th radio call fails
    FaultAt(Box<Ev>, usize),
    /// whole uplink transaction: send, TX done, RX1 [frame], RX2 [frame], close
    Cycle { confirmed: bool, port: u8, len: usize, rx1: Option<Frame>, rx2: Option<Frame> },
    /// whole join transaction
    JoinCycle { rx1: Option<Frame>, rx2: Option<Frame> },
    /// as Cycle, but the radio call of the `fault_at`-th micro step fails once; the application
    /// retries that step (a failed send is abandoned)
    CycleF { confirmed: bool, port: u8, len: usize, rx1: Option<Frame>, rx2: Option<Frame>, fault_at: usize },
    JoinCycleF { rx1: Option<Frame>, rx2: Option<Frame>, fault_at: usize },
    /// as CycleF, but the radio stays down for `burst` consecutive radio calls: the retried step fails again
    /// `burst - 1` times before it succeeds
    CycleFB { confirmed: bool, port: u8, len: usize, rx1: Option<Frame>, rx2: Option<Frame>, fault_at: usize, burst: usize },
    /// as CycleF, but the second radio call of micro step `fault_at` fails (a step that cancels a reception and then
    /// starts the next one makes two)
    CycleF2 { confirmed: bool, port: u8, len: usize, rx1: Option<Frame>, rx2: Option<Frame>, fault_at: usize },
    /// snapshot the session through serde and restore it into the same device (C20)
    Persist,
    /// the application configures another credential set for its next join (the network knows the device by it)
    UseCreds(u8),
}

/// One micro step as seen by monitors.
#[derive(Clone, Debug)]
pub struct Micro {
    pub ev: Ev,
    pub resp: Resp,
    pub ops: Vec<RadioOp>,
    pub judge: Option<Judge>,
    pub bytes: Option<Vec<u8>>,
    pub before: VerifMac,
    pub after: VerifMac,
    pub st_before: VerifNbState,
    pub st_after: VerifNbState,
    pub draws: usize,
    pub downlinks: Vec<(u8, Vec<u8>)>,
}

#[derive(Clone, Debug, Serialize, Deserialize)]
pub struct DevCfg {
    pub region: String,
    pub otaa: bool,
    /// start values patched into a serialised ABP session (None = fresh)
    pub fcnt_up: Option<u32>,
    pub fcnt_down: Option<Option<u32>>,
    pub adr_ack_cnt: Option<u32>,
    pub sync_tx: bool,
    pub offset_ms: i32,
    pub duration_ms: u32,
    /// join bias for fixed plans: (subband 1..=8, retries)
    pub bias: Option<(u8, usize)>,
    /// initial data rate override
    pub dr: Option<u8>,
    pub adr: Option<bool>,
    /// further session fields patched through serde: owed ACK, last uplink confirmed, pending MAC answers
    #[serde(default)]
    pub owed_ack: Option<bool>,
    #[serde(default)]
    pub last_confirmed: Option<bool>,
    #[serde(default)]
    pub pending: Option<Vec<u8>>,
    /// the application collects queued downlinks only when it starts every other uplink (instead of after
    /// every call): a downlink then sits in the queue through the receive windows of the next uplink
    #[serde(default)]
    pub hold_downlinks: bool,
    /// nb front-end: the board's millisecond clock at the end of the first transmission; later
    /// transmissions end 1.5 s apart (None: the legacy constant 1000 ms)
    #[serde(default)]
    pub clock_start: Option<u32>,
}

impl DevCfg {
    pub fn abp(region: &str) -> DevCfg {
        DevCfg {
            region: region.into(),
            otaa: false,
            fcnt_up: None,
            fcnt_down: None,
            adr_ack_cnt: None,
            sync_tx: false,
            offset_ms: 0,
            duration_ms: 100,
            bias: None,
            dr: None,
            adr: None,
            owed_ack: None,
            last_confirmed: None,
            pending: None,
            hold_downlinks: false,
            clock_start: None,
        }
    }
    pub fn otaa(region: &str) -> DevCfg {
        DevCfg { otaa: true, ..DevCfg::abp(region) }
    }
}

pub type Dev<const PW: u8, const GAIN: i8, const D: usize = 4> = Device<NbRadio<PW, GAIN>, ScriptRng, 256, D>;

/// `D` is the depth of the device's downlink queue (4 everywhere except where the queue itself matters).
pub struct NbCore<const PW: u8, const GAIN: i8, const D: usize = 4> {
    pub dev: Dev<PW, GAIN, D>,
    pub radio: Rc<RefCell<RadioInner>>,
    pub rng: ScriptRng,
    pub net: Net,
    pub cfg: DevCfg,
    pub dead: Option<String>,
    pub tx_done_ms: u32,
    /// which radio call of the faulty micro step fails (0 = the first)
    pub fault_call: usize,
}

pub fn dr_of(v: u8) -> region::DR {
    region::DR::from(v)
}

fn subband(n: u8) -> region::Subband {
    use region::Subband::*;
    [_1, _2, _3, _4, _5, _6, _7, _8][(n as usize - 1) % 8]
}

pub fn make_region(cfg: &DevCfg) -> region::Configuration {
    match (cfg.region.as_str(), cfg.bias) {
        ("US915", Some((sb, n))) => {
            let mut r = region::US915::new();
            r.set_join_bias_and_noncompliant_retries(subband(sb), n);
            r.into()
        }
        ("AU915", Some((sb, n))) => {
            let mut r = region::AU915::new();
            r.set_join_bias_and_noncompliant_retries(subband(sb), n);
            r.into()
        }
        _ => region::Configuration::new(region_of(&cfg.region)),
    }
}

/// A session with chosen counters, obtained through the public serde interface.
pub fn patched_session_cfg(cfg: &DevCfg) -> lorawan_device::mac::Session {
    let s = patched_session(cfg.fcnt_up, cfg.fcnt_down, cfg.adr_ack_cnt);
    if cfg.owed_ack.is_none() && cfg.last_confirmed.is_none() && cfg.pending.is_none() {
        return s;
    }
    let mut v = serde_json::to_value(&s).expect("session serialises");
    if let Some(o) = cfg.owed_ack {
        v["uplink"]["confirmed"] = serde_json::json!(o);
    }
    if let Some(c) = cfg.last_confirmed {
        v["confirmed"] = serde_json::json!(c);
    }
    if let Some(p) = &cfg.pending {
        let mut data = [0u8; 15];
        data[..p.len()].copy_from_slice(p);
        v["uplink"]["pending_len"] = serde_json::json!(p.len());
        v["uplink"]["pending_data"] = serde_json::json!(data);
    }
    session_from_value(v)
}

/// (restoring is the harness's way into a state, not the subject: any of the input forms will do)
fn session_from_value(v: serde_json::Value) -> lorawan_device::mac::Session {
    let text = v.to_string();
    serde_json::from_value(v).or_else(|_| serde_json::from_str(&text)).expect("patched session deserialises")
}

pub fn patched_session(fcnt_up: Option<u32>, fcnt_down: Option<Option<u32>>, adr_ack_cnt: Option<u32>) -> lorawan_device::mac::Session {
    let s = lorawan_device::mac::Session::new(NwkSKey::from(NWKSKEY), AppSKey::from(APPSKEY), DevAddr::from_value(DEVADDR));
    let mut v = serde_json::to_value(&s).expect("session serialises");
    if let Some(f) = fcnt_up {
        v["fcnt_up"] = serde_json::json!(f);
    }
    if let Some(f) = fcnt_down {
        v["fcnt_down"] = serde_json::json!(f);
    }
    if let Some(a) = adr_ack_cnt {
        v["adr_ack_cnt"] = serde_json::json!(a);
    }
    session_from_value(v)
}

impl<const PW: u8, const GAIN: i8, const D: usize> NbCore<PW, GAIN, D> {
    pub fn new(cfg: &DevCfg) -> Self {
        let radio = Rc::new(RefCell::new(RadioInner {
            log: vec![],
            fail_in: None,
            sync_tx: cfg.sync_tx,
            tx_done_ms: cfg.clock_start.unwrap_or(1000),
            offset_ms: cfg.offset_ms,
            duration_ms: cfg.duration_ms,
        }));
        let rng = ScriptRng::new(vec![]);
        let mut dev: Dev<PW, GAIN, D> = Device::new(make_region(cfg), NbRadio { inner: radio.clone(), buf: vec![] }, rng.clone());
        let mut net = Net::unjoined();
        if !cfg.otaa {
            let r = dev.join(JoinMode::ABP { nwkskey: NwkSKey::from(NWKSKEY), appskey: AppSKey::from(APPSKEY), devaddr: DevAddr::from_value(DEVADDR) });
            assert!(matches!(r, Ok(Response::JoinSuccess)));
            net = Net::abp();
            if cfg.fcnt_up.is_some()
                || cfg.fcnt_down.is_some()
                || cfg.adr_ack_cnt.is_some()
                || cfg.owed_ack.is_some()
                || cfg.last_confirmed.is_some()
                || cfg.pending.is_some()
            {
                dev.set_session(patched_session_cfg(cfg));
                if let Some(fd) = cfg.fcnt_down {
                    net.ref_last = fd;
                }
            }
        }
        if let Some(d) = cfg.dr {
            dev.set_datarate(dr_of(d));
        }
        if let Some(a) = cfg.adr {
            dev.set_adr(a);
        }
        NbCore { dev, radio, rng, net, cfg: cfg.clone(), dead: None, tx_done_ms: cfg.clock_start.unwrap_or(1000), fault_call: 0 }
    }

    pub fn snap(&self) -> VerifMac {
        self.dev.verif_snapshot()
    }
    pub fn st(&self) -> VerifNbState {
        self.dev.verif_state()
    }
    pub fn joined_session(&self) -> Option<lorawan_device::verif::VerifSession> {
        match self.snap().state {
            VerifMacState::Joined(s) => Some(s),
            _ => None,
        }
    }

    /// max MACPayload length of the window currently open (0 when none)
    pub fn open_window_max(&self) -> u8 {
        match self.st() {
            VerifNbState::WaitingForRx { rx1, rx2, window, .. } => {
                if window == 1 { rx1.3 } else { rx2.3 }
            }
            _ => 0,
        }
    }

    fn raw(&mut self, ev: &Ev, fault: Option<usize>) -> (Resp, Option<Judge>, Option<Vec<u8>>) {
        self.rng.begin_call();
        self.radio.borrow_mut().fail_in = fault;
        let mut judge = None;
        let mut bytes = None;
        let dev = &mut self.dev;
        let r = match ev {
            Ev::Join => {
                let (de, ae, ak) = creds(self.net.creds);
                let r = catch(|| resp_of(dev.join(JoinMode::OTAA { deveui: DevEui::from(de), appeui: AppEui::from(ae), appkey: AppKey::from(ak) })));
                r
            }
            Ev::Send { confirmed, port, len } => {
                let data: Vec<u8> = (0..*len).map(|i| (i as u8).wrapping_mul(3).wrapping_add(1)).collect();
                catch(|| resp_of(dev.send(&data, *port, *confirmed)))
            }
            Ev::TxDone => {
                let ms = self.tx_done_ms;
                if self.cfg.clock_start.is_some() {
                    self.tx_done_ms = ms.wrapping_add(1500);
                    self.radio.borrow_mut().tx_done_ms = self.tx_done_ms;
                }
                catch(|| resp_of(dev.handle_event(Event::RadioEvent(REvent::Phy(NbPhyEvent::TxDone(ms))))))
            }
            Ev::Timeout => catch(|| resp_of(dev.handle_event(Event::TimeoutFired))),
            Ev::Noise => catch(|| resp_of(dev.handle_event(Event::RadioEvent(REvent::Phy(NbPhyEvent::Noise))))),
            Ev::Rx(f) => {
                let Some(b) = self.net.build(f) else {
                    return (Resp::NoUpdate, None, None);
                };
                let max = match dev.verif_state() {
                    VerifNbState::WaitingForRx { rx1, rx2, window, .. } => {
                        let w = if window == 1 { rx1 } else { rx2 };
                        ref_window_limit(&self.cfg.region, w.1, w.2, w.3)
                    }
                    _ => 0,
                };
                let in_window = matches!(dev.verif_state(), VerifNbState::WaitingForRx { .. });
                let j = if in_window && fault.is_none() { self.net.judge(&b, max) } else { Judge::Reject("no-window-open") };
                let bb = b.clone();
                let r = catch(|| resp_of(dev.handle_event(Event::RadioEvent(REvent::Phy(NbPhyEvent::RxDone(bb, 7))))));
                self.net.commit(&b, &j);
                judge = Some(j);
                bytes = Some(b);
                r
            }
            Ev::SetDr(d) => {
                dev.set_datarate(dr_of(*d));
                Ok(Resp::NoUpdate)
            }
            Ev::SetAdr(a) => {
                dev.set_adr(*a);
                Ok(Resp::NoUpdate)
            }
            Ev::Rng(p) => {
                self.rng.set_prefix(p.clone());
                Ok(Resp::NoUpdate)
            }
            Ev::UseCreds(k) => {
                self.net.creds = *k;
                Ok(Resp::NoUpdate)
            }
            Ev::Persist => {
                let r = catch(|| {
                    if let Some(s) = dev.get_session() {
                        let txt = serde_json::to_string(s).expect("serialise");
                        let s2: lorawan_device::mac::Session = serde_json::from_str(&txt).expect("deserialise");
                        dev.set_session(s2);
                    }
                    Resp::NoUpdate
                });
                r
            }
            Ev::Fault(_) | Ev::FaultAt(..) | Ev::Cycle { .. } | Ev::JoinCycle { .. } | Ev::CycleF { .. } | Ev::CycleFB { .. } | Ev::CycleF2 { .. } | Ev::JoinCycleF { .. } => {
                unreachable!("handled by apply")
            }
        };
        self.radio.borrow_mut().fail_in = None;
        let resp = match r {
            Ok(r) => r,
            Err(p) => {
                self.dead = Some(p.clone());
                Resp::Panic(p)
            }
        };
        // the network learns the DevNonce from the JoinRequest it hears
        if matches!(ev, Ev::Join) {
            if let Some(RadioOp::Tx { bytes, .. }) = self.radio.borrow().log.last() {
                if bytes.len() == 23 && matches!(resp, Resp::UplinkSending(_) | Resp::TimeoutRequest(_)) {
                    self.net.otaa_pending = Some(u16::from_le_bytes([bytes[17], bytes[18]]));
                    self.net.joined = false;
                }
            }
        }
        (resp, judge, bytes)
    }

    fn micro(&mut self, ev: &Ev) -> Micro {
        let before = self.snap();
        let st_before = self.st();
        let n0 = self.radio.borrow().log.len();
        let (inner, fault) = match ev {
            Ev::Fault(e) => (&**e, Some(0)),
            Ev::FaultAt(e, n) => (&**e, Some(*n)),
            e => (e, None),
        };
        let (resp, judge, bytes) = self.raw(inner, fault);
        let ops = self.radio.borrow().log[n0..].to_vec();
        let mut downlinks = vec![];
        let collect = !self.cfg.hold_downlinks
            || (matches!(inner, Ev::Send { .. })
                && match before.state {
                    lorawan_device::verif::VerifMacState::Joined(j) => j.fcnt_up % 2 == 0,
                    _ => true,
                });
        if self.dead.is_none() && collect {
            while let Some(d) = self.dev.take_downlink() {
                downlinks.push((d.fport, d.data.to_vec()));
            }
        }
        // a join that ended without accept leaves the network waiting no longer
        if matches!(resp, Resp::NoJoinAccept) {
            self.net.otaa_pending = None;
        }
        Micro {
            ev: ev.clone(),
            resp,
            ops,
            judge,
            bytes,
            before,
            after: self.snap(),
            st_before,
            st_after: self.st(),
            draws: self.rng.draws(),
            downlinks,
        }
    }

    /// Applies an event (micro or macro) and returns the micro steps performed.
    pub fn apply(&mut self, ev: &Ev) -> Vec<Micro> {
        if self.dead.is_some() {
            return vec![];
        }
        match ev {
            Ev::Cycle { confirmed, port, len, rx1, rx2 } => {
                self.cycle(Ev::Send { confirmed: *confirmed, port: *port, len: *len }, rx1.clone(), rx2.clone(), None, 1)
            }
            Ev::JoinCycle { rx1, rx2 } => self.cycle(Ev::Join, rx1.clone(), rx2.clone(), None, 1),
            Ev::CycleF { confirmed, port, len, rx1, rx2, fault_at } => {
                self.cycle(Ev::Send { confirmed: *confirmed, port: *port, len: *len }, rx1.clone(), rx2.clone(), Some(*fault_at), 1)
            }
            Ev::CycleFB { confirmed, port, len, rx1, rx2, fault_at, burst } => {
                self.cycle(Ev::Send { confirmed: *confirmed, port: *port, len: *len }, rx1.clone(), rx2.clone(), Some(*fault_at), *burst)
            }
            Ev::CycleF2 { confirmed, port, len, rx1, rx2, fault_at } => {
                self.fault_call = 1;
                let r = self.cycle(Ev::Send { confirmed: *confirmed, port: *port, len: *len }, rx1.clone(), rx2.clone(), Some(*fault_at), 1);
                self.fault_call = 0;
                r
            }
            Ev::JoinCycleF { rx1, rx2, fault_at } => self.cycle(Ev::Join, rx1.clone(), rx2.clone(), Some(*fault_at), 1),
            e => vec![self.micro(e)],
        }
    }

    fn cycle(&mut self, start: Ev, rx1: Option<Frame>, rx2: Option<Frame>, fault_at: Option<usize>, burst: usize) -> Vec<Micro> {
        let mut out = vec![];
        let mut idx = 0usize;
        let mut push = |s: &mut Self, e: Ev, out: &mut Vec<Micro>| -> bool {
            let faulty = fault_at == Some(idx);
            idx += 1;
            let is_start = matches!(e, Ev::Send { .. } | Ev::Join);
            let mut m = if faulty {
                if s.fault_call == 0 { s.micro(&Ev::Fault(Box::new(e.clone()))) } else { s.micro(&Ev::FaultAt(Box::new(e.clone()), s.fault_call)) }
            } else {
                s.micro(&e)
            };
            if faulty && matches!(m.resp, Resp::ErrRadio) && !is_start && s.dead.is_none() {
                // the application retries the step whose radio call failed (and fails again while the radio stays down)
                out.push(m);
                for _ in 1..burst.max(1) {
                    let m2 = s.micro(&Ev::Fault(Box::new(e.clone())));
                    if !matches!(m2.resp, Resp::ErrRadio) || s.dead.is_some() {
                        out.push(m2);
                        return false;
                    }
                    out.push(m2);
                }
                m = s.micro(&e);
            }
            let cont = s.dead.is_none() && !matches!(m.resp, Resp::ErrRadio | Resp::ErrState(_) | Resp::ErrMac(_));
            out.push(m);
            cont
        };
        if !push(self, start, &mut out) {
            return out;
        }
        if matches!(self.st(), VerifNbState::SendingData { .. }) && !push(self, Ev::TxDone, &mut out) {
            return out;
        }
        for (w, frame) in [(1u8, rx1), (2u8, rx2)] {
            match self.st() {
                // window opens
                VerifNbState::WaitingForRxWindow { .. } => {
                    if !push(self, Ev::Timeout, &mut out) {
                        return out;
                    }
                }
                // (a stack that keeps RX1 open until RX2 is due may open RX2 in the step that closes RX1)
                VerifNbState::WaitingForRx { window, .. } if window == w && w == 2 => {}
                _ => return out,
            }
            if let Some(f) = frame {
                if !push(self, Ev::Rx(f), &mut out) {
                    return out;
                }
                if !matches!(self.st(), VerifNbState::WaitingForRx { .. }) {
                    return out;
                }
            }
            // window closes
            if !push(self, Ev::Timeout, &mut out) {
                return out;
            }
        }
        out
    }
}

pub fn short_resp(r: &Resp) -> String {
    match r {
        Resp::TimeoutRequest(_) => "TimeoutRequest".into(),
        Resp::UplinkSending(_) => "UplinkSending".into(),
        Resp::DownlinkReceived(_) => "DownlinkReceived".into(),
        Resp::ErrState(s) => format!("ErrState({s})"),
        Resp::ErrMac(s) => format!("ErrMac({s})"),
        Resp::Panic(_) => "Panic".into(),
        r => format!("{r:?}"),
    }
}

pub fn hexs(b: &[u8]) -> String {
    hex(b)
}
